------------------------------ MODULE CoreTree ------------------------------
(***************************************************************************)
(* Compositions of zapcore.Core values and how an entry travels through    *)
(* them (zapcore/core.go, tee.go, increase_level.go, hook.go, lazy_with.go,*)
(* sampler.go, level.go; logger.go: Logger.check).                         *)
(*                                                                         *)
(* A composition is a tree:                                                *)
(*   leaf(e)      ioCore / observer core with LevelEnabler e               *)
(*   nop          NewNopCore                                               *)
(*   tee(a, b)    multiCore                                                *)
(*   inc(e, a)    levelFilterCore (NewIncreaseLevelCore)                   *)
(*   hook(a)      hooked (RegisterHooks)                                   *)
(*   lazy(a)      lazyWithCore (NewLazyWith)                               *)
(*   samp(m, a)   sampler; m = 1 never drops, m = 0 drops every in-range   *)
(*                entry (first = 0, thereafter = 0)                        *)
(*                                                                         *)
(* Implementation-shaped side: Chk threads the *CheckedEntry (the list of  *)
(* cores registered so far) through the tree exactly as the Check methods  *)
(* do; En is each node's Enabled method; Lvl is LevelOf (Level() where the *)
(* node has one, otherwise the loop over the seven valid levels).          *)
(* Declarative side (C05): Reach = every filter on the path enables the    *)
(* level now.                                                              *)
(*                                                                         *)
(* Levels: -2 below Debug, -1 Debug .. 5 Fatal, 6 InvalidLevel, 7 above.   *)
(* Enablers: fixed table EnTab (thresholds, arbitrary sets) plus id 0 = a  *)
(* shared AtomicLevel whose value is the variable al.                      *)
(***************************************************************************)
EXTENDS Integers, Sequences, FiniteSets, TLC, Json

CONSTANTS Depth,        \* nesting depth of compositions
          EnablerIds,   \* enablers usable in leaves
          FilterIds,    \* enablers usable as increase-level filters
          AtomValsP,    \* values the shared AtomicLevel takes, shifted by +2 (cfg files cannot hold negative numbers)
          MaxSet,       \* SetLevel steps per behaviour
          TeeWidth,     \* "full": tees of any two subtrees; "thin": second branch restricted to depth-0 cores
          HookRule,     \* "grew" = code; "nonnil" = mutant (pre-fix: downstream != nil)
          TeeLevel,     \* "invalid" = code; "fatal" = mutant (pre-fix initial minimum)
          IncEnabled,   \* "both" = code; "filter" = mutant (pre-fix: filter only)
          TeeEnabled,   \* "any" = code; "all" = mutant
          IncCheck,     \* "own" = code; "none" = mutant (Check does not test the filter)
          Emit

Debug == -1
DPanic == 3
Panic == 4
Fatal == 5
Invalid == 6
Levels == -2..7
AtomVals == {v - 2 : v \in AtomValsP}
Valid == -1..5

\* ---- enablers ------------------------------------------------------------
\* id -> set of enabled levels; zapcore.Level thresholds (incl. out-of-range ones) and LevelEnablerFuncs
EnTab == [i \in 1..8 |->
   CASE i = 1 -> {l \in Levels : l >= -1}     \* DebugLevel
     [] i = 2 -> {l \in Levels : l >= 1}      \* WarnLevel
     [] i = 3 -> {l \in Levels : l >= 5}      \* FatalLevel
     [] i = 4 -> {l \in Levels : l >= -2}     \* Level(-128): out-of-range threshold below Debug (enables every level)
     [] i = 5 -> {l \in Levels : l >= 7}      \* Level(7): out-of-range threshold above Invalid
     [] i = 6 -> {0, 2}                       \* func: exactly Info and Error (non-monotone)
     [] i = 7 -> {}                           \* func: nothing
     [] i = 8 -> {-1, 4, 7}]                  \* func: Debug, Panic and every level above InvalidLevel

VARIABLES tree, al, nset, h
vars == <<tree, al, nset, h>>

EnE(e, l) == IF e = 0 THEN l >= al ELSE l \in EnTab[e]
MinValid(P(_)) == IF \E l \in Valid : P(l) THEN CHOOSE l \in Valid : P(l) /\ \A m \in Valid : P(m) => l <= m ELSE Invalid
\* LevelOf(enabler): AtomicLevel has a Level method; Level values and funcs are probed over the valid range
LvlE(e) == IF e = 0 THEN al ELSE LET P(l) == l \in EnTab[e] IN MinValid(P)

\* ---- trees ---------------------------------------------------------------
N(k, e, c) == [k |-> k, e |-> e, c |-> c]
Cores0 == {N("leaf", e, <<>>) : e \in EnablerIds} \cup {N("nop", 0, <<>>)}
RECURSIVE Trees(_)
Trees(d) == IF d = 0 THEN Cores0
            ELSE LET S == Trees(d - 1)
                     B == IF TeeWidth = "full" THEN S ELSE Cores0
                 IN S \cup {N("tee", 0, <<a, b>>) : a \in S, b \in B}
                      \cup {N("tee", 0, <<b, a>>) : a \in S, b \in B}
                      \cup {N("inc", e, <<a>>) : e \in FilterIds, a \in S}
                      \cup {N("hook", 0, <<a>>) : a \in S}
                      \cup {N("lazy", 0, <<a>>) : a \in S}
                      \cup {N("samp", m, <<a>>) : m \in {0, 1}, a \in S}

RECURSIVE UsesAtomic(_)
UsesAtomic(t) == (t.k \in {"leaf", "inc"} /\ t.e = 0) \/ \E i \in 1..Len(t.c) : UsesAtomic(t.c[i])

\* ---- implementation-shaped side -----------------------------------------
RECURSIVE En(_, _)
En(t, l) == CASE t.k = "leaf" -> EnE(t.e, l)
              [] t.k = "nop"  -> FALSE
              [] t.k = "tee"  -> IF TeeEnabled = "any" THEN En(t.c[1], l) \/ En(t.c[2], l) ELSE En(t.c[1], l) /\ En(t.c[2], l)
              [] t.k = "inc"  -> IF IncEnabled = "both" THEN EnE(t.e, l) /\ En(t.c[1], l) ELSE EnE(t.e, l)
              [] OTHER        -> En(t.c[1], l)          \* hook, lazy, samp delegate

Min2(a, b) == IF a < b THEN a ELSE b
RECURSIVE Lvl(_)
Lvl(t) == CASE t.k = "leaf" -> LvlE(t.e)
            [] t.k = "tee"  -> Min2(Min2(IF TeeLevel = "invalid" THEN Invalid ELSE Fatal, Lvl(t.c[1])), Lvl(t.c[2]))
            [] t.k \in {"hook", "samp"} -> Lvl(t.c[1])
            [] OTHER -> LET P(l) == En(t, l) IN MinValid(P)   \* nop, inc (own loop), lazy (no Level method)

\* ce = sequence of registered cores [p |-> path, k |-> "leaf" | "hook"]; <<>> is the nil *CheckedEntry
RECURSIVE Chk(_, _, _, _)
Chk(t, l, ce, p) ==
  CASE t.k = "leaf" -> IF EnE(t.e, l) THEN Append(ce, [p |-> p, k |-> "leaf"]) ELSE ce
    [] t.k = "nop"  -> ce
    [] t.k = "tee"  -> Chk(t.c[2], l, Chk(t.c[1], l, ce, Append(p, 1)), Append(p, 2))
    [] t.k = "inc"  -> IF IncCheck = "none" \/ En(t, l) THEN Chk(t.c[1], l, ce, Append(p, 1)) ELSE ce
    [] t.k = "hook" -> LET d == Chk(t.c[1], l, ce, Append(p, 1)) IN
                       IF d = <<>> THEN ce
                       ELSE IF HookRule = "nonnil" \/ Len(d) > Len(ce) THEN Append(d, [p |-> p, k |-> "hook"]) ELSE d
    [] t.k = "lazy" -> IF En(t.c[1], l) THEN Chk(t.c[1], l, ce, Append(p, 1)) ELSE ce
    [] t.k = "samp" -> IF ~En(t.c[1], l) THEN ce
                       ELSE IF l \in Valid /\ t.e = 0 THEN ce
                       ELSE Chk(t.c[1], l, ce, Append(p, 1))

\* Logger.check / SugaredLogger.log: levels below DPanic are pre-checked with Enabled
FrontEnd(t, l, pre) == IF pre /\ l < DPanic /\ ~En(t, l) THEN <<>> ELSE Chk(t, l, <<>>, <<>>)

\* ---- declarative side ----------------------------------------------------
\* leaves an entry of level l must reach; smp = FALSE ignores sampling decisions
RECURSIVE Reach(_, _, _, _)
Reach(t, l, p, smp) ==
  CASE t.k = "leaf" -> IF EnE(t.e, l) THEN {p} ELSE {}
    [] t.k = "nop"  -> {}
    [] t.k = "tee"  -> Reach(t.c[1], l, Append(p, 1), smp) \cup Reach(t.c[2], l, Append(p, 2), smp)
    [] t.k = "inc"  -> IF EnE(t.e, l) THEN Reach(t.c[1], l, Append(p, 1), smp) ELSE {}
    [] t.k = "samp" -> IF smp /\ l \in Valid /\ t.e = 0 THEN {} ELSE Reach(t.c[1], l, Append(p, 1), smp)
    [] OTHER        -> Reach(t.c[1], l, Append(p, 1), smp)
RECURSIVE HookNodes(_, _)
HookNodes(t, p) == (IF t.k = "hook" THEN {p} ELSE {}) \cup UNION {HookNodes(t.c[i], Append(p, i)) : i \in 1..Len(t.c)}
RECURSIVE Sub(_, _)
Sub(t, p) == IF p = <<>> THEN t ELSE Sub(t.c[Head(p)], Tail(p))

Under(hp, q) == Len(hp) <= Len(q) /\ SubSeq(q, 1, Len(hp)) = hp
Count(ce, x) == Cardinality({i \in 1..Len(ce) : ce[i] = x})
LeavesOf(ce) == {ce[i].p : i \in {j \in 1..Len(ce) : ce[j].k = "leaf"}}

\* C05: delivered exactly where enabled, exactly once
Delivery == \A l \in Levels : \A pre \in BOOLEAN :
              LET ce == FrontEnd(tree, l, pre) IN
              /\ LeavesOf(ce) = Reach(tree, l, <<>>, TRUE)
              /\ \A i \in 1..Len(ce) : Count(ce, ce[i]) = 1
\* hooks fire once for each entry their wrapped core accepts and never otherwise
HookOnce == \A l \in Levels : \A hp \in HookNodes(tree, <<>>) :
              LET ce == FrontEnd(tree, l, FALSE) IN
              Count(ce, [p |-> hp, k |-> "hook"]) = (IF \E q \in Reach(tree, l, <<>>, TRUE) : Under(hp, q) THEN 1 ELSE 0)
\* Enabled(l) consistent with delivery (sampling aside)
EnabledAgrees == \A l \in Levels : En(tree, l) <=> Reach(tree, l, <<>>, FALSE) # {}
\* reported minimum level: least valid level delivered somewhere, InvalidLevel when none
LevelAgrees == LET P(l) == Reach(tree, l, <<>>, FALSE) # {} IN Lvl(tree) = MinValid(P)
\* a level-increasing wrapper only narrows
RECURSIVE IncNarrows(_)
IncNarrows(t) == /\ (t.k = "inc" => \A l \in Levels : En(t, l) => En(t.c[1], l))
                 /\ \A i \in 1..Len(t.c) : IncNarrows(t.c[i])

\* NewIncreaseLevelCore refuses a filter that enables a valid level its core does not
RECURSIVE Constructible(_)
Constructible(t) == /\ (t.k = "inc" => \A l \in Valid : EnE(t.e, l) => En(t.c[1], l))
                    /\ \A i \in 1..Len(t.c) : Constructible(t.c[i])

\* sampler nodes that take a sampling decision (and call their decision hook) for an entry of level l: those the
\* Check recursion reaches, whose wrapped core enables the level, for in-range levels only
RECURSIVE Decides(_, _, _)
Decides(t, l, p) ==
  CASE t.k = "tee"  -> Decides(t.c[1], l, Append(p, 1)) \cup Decides(t.c[2], l, Append(p, 2))
    [] t.k = "inc"  -> IF En(t, l) THEN Decides(t.c[1], l, Append(p, 1)) ELSE {}
    [] t.k = "hook" -> Decides(t.c[1], l, Append(p, 1))
    [] t.k = "lazy" -> IF En(t.c[1], l) THEN Decides(t.c[1], l, Append(p, 1)) ELSE {}
    [] t.k = "samp" -> IF ~En(t.c[1], l) THEN {}
                       ELSE IF l \notin Valid THEN Decides(t.c[1], l, Append(p, 1))
                       ELSE {p} \cup (IF t.e = 0 THEN {} ELSE Decides(t.c[1], l, Append(p, 1)))
    [] OTHER -> {}
\* a sampler never decides on an entry its own core would not take
NoBudgetForDisabled == \A l \in Levels : \A sp \in Decides(tree, l, <<>>) : En(Sub(tree, sp).c[1], l)
RECURSIVE SetToSeq(_)
SetToSeq(S) == IF S = {} THEN <<>> ELSE LET x == CHOOSE y \in S : TRUE IN <<x>> \o SetToSeq(S \ {x})

\* ---- behaviours ----------------------------------------------------------
ObsJson == [al |-> al, lvl |-> Lvl(tree),
            per |-> [i \in 1..10 |-> LET l == i - 3 IN
                       [l |-> l, en |-> En(tree, l), ce |-> FrontEnd(tree, l, FALSE), dec |-> SetToSeq(Decides(tree, l, <<>>))]]]

Init == /\ tree \in Trees(Depth)
        /\ al \in (IF UsesAtomic(tree) THEN AtomVals ELSE {Debug})
        /\ Constructible(tree)
        /\ nset = 0
        /\ h = <<ObsJson>>
SetLevel(v) == /\ UsesAtomic(tree) /\ nset < MaxSet /\ v # al
               /\ al' = v /\ nset' = nset + 1 /\ UNCHANGED tree
               /\ h' = Append(h, ObsJson')
Next == \E v \in AtomVals : SetLevel(v)
Spec == Init /\ [][Next]_vars
View == <<tree, al, nset>>

Done == nset = MaxSet \/ ~UsesAtomic(tree)
EmitBeh == IF Emit /\ Done THEN PrintT("@@BEH " \o ToJson([tree |-> tree, steps |-> h])) ELSE TRUE
=============================================================================
