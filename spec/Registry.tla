------------------------------ MODULE Registry ------------------------------
(***************************************************************************)
(* The scheme and encoder registries under concurrent registration         *)
(* (sink.go: sinkRegistry.RegisterSink; encoder.go: RegisterEncoder).      *)
(*                                                                         *)
(* Register(name, f) is one critical section in the code: test for the     *)
(* name and insert under the same lock (Atomicity = "one").  "registering  *)
(* an already registered name fails without changing the registry" then    *)
(* also holds for registrations that race: of all attempts on one fresh    *)
(* name exactly one succeeds, and its factory is the one in the registry   *)
(* ever after.  Atomicity = "two" is the spec mutant: the test runs under  *)
(* a read lock, the insert under a later write lock.                       *)
(***************************************************************************)
EXTENDS Integers, FiniteSets, TLC

CONSTANTS Procs, Names,
          Atomicity     \* "one" = code; "two" = spec mutant

VARIABLES reg,        \* name -> owner proc (0 = unregistered)
          pc, target, ok
vars == <<reg, pc, target, ok>>
Init == /\ reg = [n \in Names |-> 0] /\ pc = [p \in Procs |-> "idle"]
        /\ target \in [Procs -> Names] /\ ok = [p \in Procs |-> "none"]

RegisterAtomic(p) ==
  /\ Atomicity = "one" /\ pc[p] = "idle"
  /\ IF reg[target[p]] = 0
     THEN reg' = [reg EXCEPT ![target[p]] = p] /\ ok' = [ok EXCEPT ![p] = "registered"]
     ELSE UNCHANGED reg /\ ok' = [ok EXCEPT ![p] = "refused"]
  /\ pc' = [pc EXCEPT ![p] = "done"] /\ UNCHANGED target
Test(p) ==
  /\ Atomicity = "two" /\ pc[p] = "idle"
  /\ IF reg[target[p]] = 0 THEN pc' = [pc EXCEPT ![p] = "insert"] /\ UNCHANGED ok
     ELSE pc' = [pc EXCEPT ![p] = "done"] /\ ok' = [ok EXCEPT ![p] = "refused"]
  /\ UNCHANGED <<reg, target>>
Insert(p) ==
  /\ pc[p] = "insert" /\ reg' = [reg EXCEPT ![target[p]] = p]
  /\ ok' = [ok EXCEPT ![p] = "registered"] /\ pc' = [pc EXCEPT ![p] = "done"] /\ UNCHANGED target
Next == \E p \in Procs : RegisterAtomic(p) \/ Test(p) \/ Insert(p)
Spec == Init /\ [][Next]_vars

\* C19: a successful registration is never replaced, so at most one attempt per name succeeds and it owns the entry
OneWinner == \A n \in Names : Cardinality({p \in Procs : target[p] = n /\ ok[p] = "registered"}) <= 1
WinnerOwns == \A p \in Procs : ok[p] = "registered" => reg[target[p]] = p
=============================================================================
