---------------------------- MODULE SyncProtocol ----------------------------
(***************************************************************************)
(* The synchronisation protocol of zap's documented concurrent API as a    *)
(* happens-before model (Go memory model): every public operation is the   *)
(* sequence of memory / synchronisation events the code performs on the    *)
(* shared locations it touches.                                            *)
(*   <<"r", x>> <<"w", x>>      plain read / write of location x           *)
(*   <<"acq", m>> <<"rel", m>>  mutex (an RWMutex is modelled as a mutex)  *)
(*   <<"at", a>>                atomic operation on a (acquire + release)  *)
(*   <<"once", o>> ... <<"endonce", o>>   sync.Once.Do(body)               *)
(* Each goroutine carries a vector clock; a release publishes it, an       *)
(* acquire joins it.  NoRace: two accesses to the same plain location, one *)
(* of them a write, are always ordered by happens-before.  Immutable data  *)
(* (a Logger's fields, a lazy core's original core and field list, encoder *)
(* configuration) is written before publication and never afterwards, so   *)
(* it carries no events.                                                   *)
(*                                                                         *)
(* Operations (C09): first use / level pre-check of a WithLazy core,       *)
(* AtomicLevel reads and writes, global logger replacement and access,     *)
(* observer add / read, sampler counters, locked WriteSyncer, the buffered *)
(* WriteSyncer's Write / Sync / Stop critical sections, logging through a  *)
(* shared logger (pool + locked sink), deriving loggers (no shared write). *)
(***************************************************************************)
EXTENDS Integers, Sequences, FiniteSets, TLC, Json

CONSTANTS Procs, MaxOps,
          LazyEnabled,   \* "original" = code (pre-check reads the immutable original core); "core" = pre-fix (reads the lazily written field)
          OnceKind,      \* "once" = code; "flag" = spec mutant (plain flag instead of sync.Once)
          ObserverAdd,   \* "locked" = code; "bare" = spec mutant
          LevelKind,     \* "atomic" = code; "plain" = spec mutant
          GlobalsS,      \* "inside" = code; "outside" = spec mutant (_globalS written after the unlock)
          BwsSync,       \* "locked" = code; "bare" = spec mutant
          LockedSyncErr, \* "release" = code (the lock is released whatever the wrapped Sync returns); "leak" = spec mutant
          StackFree,     \* "once" = code (the pooled stack is put back exactly once on every path); "twice" = spec mutant
          ColourMemo,    \* "readonly" = code (the package-level level->string maps are only read); "memo" = spec mutant
          Emit

E(k, x) == <<k, x>>
Script(op) ==
  CASE op = "lazy.use" -> IF OnceKind = "once" THEN <<E("once", "lz"), E("w", "lzcore"), E("endonce", "lz"), E("r", "lzcore")>>
                          ELSE <<E("r", "lzflag"), E("w", "lzcore"), E("w", "lzflag"), E("r", "lzcore")>>
    [] op = "lazy.enabled" -> IF LazyEnabled = "original" THEN <<>> ELSE <<E("r", "lzcore")>>
    [] op = "level.set" -> IF LevelKind = "atomic" THEN <<E("at", "lvl")>> ELSE <<E("w", "lvl")>>
    [] op = "level.get" -> IF LevelKind = "atomic" THEN <<E("at", "lvl")>> ELSE <<E("r", "lvl")>>
    [] op = "globals.replace" -> IF GlobalsS = "inside" THEN <<E("acq", "gmu"), E("w", "gL"), E("w", "gS"), E("rel", "gmu")>>
                                 ELSE <<E("acq", "gmu"), E("w", "gL"), E("rel", "gmu"), E("w", "gS")>>
    [] op = "globals.L" -> <<E("acq", "gmu"), E("r", "gL"), E("rel", "gmu")>>
    [] op = "globals.S" -> <<E("acq", "gmu"), E("r", "gS"), E("rel", "gmu")>>
    [] op = "observer.add" -> IF ObserverAdd = "locked" THEN <<E("acq", "omu"), E("r", "ologs"), E("w", "ologs"), E("rel", "omu")>>
                              ELSE <<E("r", "ologs"), E("w", "ologs")>>
    [] op = "observer.read" -> <<E("acq", "omu"), E("r", "ologs"), E("rel", "omu")>>
    [] op = "sampler.check" -> <<E("at", "resetAt"), E("at", "counter")>>
    [] op = "locked.write" -> <<E("acq", "wmu"), E("w", "sink"), E("rel", "wmu")>>
    [] op = "logger.log" -> <<E("at", "pool"), E("acq", "wmu"), E("w", "sink"), E("rel", "wmu"), E("at", "pool")>>
    [] op = "logger.with" -> <<E("at", "pool")>>
    \* Sync through a locked sink whose wrapped Sync fails
    [] op = "locked.sync" -> IF LockedSyncErr = "release" THEN <<E("acq", "wmu"), E("w", "sink"), E("rel", "wmu")>>
                             ELSE <<E("acq", "wmu"), E("w", "sink")>>
    \* caller / stack-trace annotation: a pooled stacktrace.Stack is taken, filled, read and put back
    [] op = "logger.caller" -> <<E("get", "stk"), E("wobj", "stk"), E("robj", "stk"), E("put", "stk")>>
    \* the same with a caller skip beyond the stack: nothing captured, complaint on the error output
    [] op = "logger.nocaller" -> IF StackFree = "once" THEN <<E("get", "stk"), E("wobj", "stk"), E("put", "stk")>>
                                 ELSE <<E("get", "stk"), E("wobj", "stk"), E("put", "stk"), E("put", "stk")>>
    \* a colouring level encoder looks the level up in a package-level map
    [] op = "logger.colour" -> IF ColourMemo = "readonly" THEN <<E("r", "colourmap")>> ELSE <<E("r", "colourmap"), E("w", "colourmap")>>
    [] op = "bws.write" -> <<E("acq", "bmu"), E("r", "binit"), E("w", "binit"), E("w", "bbuf"), E("rel", "bmu")>>
    [] op = "bws.sync" -> IF BwsSync = "locked" THEN <<E("acq", "bmu"), E("w", "bbuf"), E("rel", "bmu")>> ELSE <<E("w", "bbuf")>>
    [] op = "bws.stop" -> <<E("acq", "bmu"), E("r", "bstopped"), E("w", "bstopped"), E("rel", "bmu"), E("acq", "bmu"), E("w", "bbuf"), E("rel", "bmu")>>
Ops == {"lazy.use", "lazy.enabled", "level.set", "level.get", "globals.replace", "globals.L", "globals.S", "observer.add", "observer.read",
        "sampler.check", "locked.write", "logger.log", "logger.with", "bws.write", "bws.sync", "bws.stop",
        "locked.sync", "logger.caller", "logger.nocaller", "logger.colour"}
\* pooled objects: an object is owned exclusively between Get and Put; sync.Pool orders a Put before the Get that
\* returns the same object. A pool never blocks: when nothing is free a fresh object is made.
Objs == {"stk1", "stk2", "stk3", "stk4"}
PlainLocs == {"lzcore", "lzflag", "lvl", "gL", "gS", "ologs", "sink", "binit", "bbuf", "bstopped", "colourmap"} \cup Objs
Locks == {"gmu", "omu", "wmu", "bmu", "lz"}
Atoms == {"lvl", "resetAt", "counter", "pool", "stk"}

VARIABLES prog,    \* [Procs -> sequence of ops]: chosen at the start
          opi, pc, \* per process: index of the current op, index of the next event in it
          vc,      \* vector clocks
          lockVC, holder, atomVC, onceDone,
          lastW, lastR, race,
          freeObjs, held, fresh   \* the pool's free list (a sequence: the same object may be in it twice after a double Put), the object each process holds, objects handed out so far
vars == <<prog, opi, pc, vc, lockVC, holder, atomVC, onceDone, lastW, lastR, race, freeObjs, held, fresh>>
ObjSeq == <<"stk1", "stk2", "stk3", "stk4">>

Zero == [q \in Procs |-> 0]
Join(a, b) == [q \in Procs |-> IF a[q] > b[q] THEN a[q] ELSE b[q]]
Programs == UNION {[1..n -> Ops] : n \in 1..MaxOps}
Init == /\ prog \in [Procs -> Programs]
        /\ opi = [p \in Procs |-> 1] /\ pc = [p \in Procs |-> 1]
        /\ vc = [p \in Procs |-> [q \in Procs |-> IF q = p THEN 1 ELSE 0]]
        /\ lockVC = [m \in Locks |-> Zero] /\ holder = [m \in Locks |-> 0] /\ atomVC = [a \in Atoms |-> Zero]
        /\ onceDone = FALSE
        /\ lastW = [x \in PlainLocs |-> Zero] /\ lastR = [x \in PlainLocs |-> Zero] /\ race = ""
        /\ freeObjs = <<>> /\ held = [p \in Procs |-> ""] /\ fresh = 0

Cur(p) == Script(prog[p][opi[p]])
Finished(p) == opi[p] > Len(prog[p])
\* advance past the current event (and to the next op when the script is exhausted)
RECURSIVE SkipEmpty(_, _)
SkipEmpty(p, i) == IF i > Len(prog[p]) THEN i ELSE IF Len(Script(prog[p][i])) = 0 THEN SkipEmpty(p, i + 1) ELSE i
Advance(p, n) == IF pc[p] + n > Len(Cur(p))
                 THEN /\ opi' = [opi EXCEPT ![p] = SkipEmpty(p, opi[p] + 1)] /\ pc' = [pc EXCEPT ![p] = 1]
                 ELSE /\ pc' = [pc EXCEPT ![p] = pc[p] + n] /\ UNCHANGED opi
Tick(v, p) == [v EXCEPT ![p] = @ + 1]
HB(epoch, p) == \A q \in Procs : epoch[q] <= vc[p][q]

Step(p) ==
  /\ ~Finished(p) /\ Len(Cur(p)) > 0
  /\ LET e0 == Cur(p)[pc[p]]
         \* accesses to "the object I hold" are accesses to that object's memory
         e == IF e0[1] = "wobj" THEN <<"w", held[p]>> ELSE IF e0[1] = "robj" THEN <<"r", held[p]>> ELSE e0
         k == e[1] x == e[2] IN
     /\ IF k \in {"get", "put"} THEN TRUE ELSE UNCHANGED <<freeObjs, held, fresh>>
     /\ CASE k = "r" ->
            /\ race' = IF race = "" /\ ~HB(lastW[x], p) THEN "read of " \o x \o " races with a write" ELSE race
            /\ lastR' = [lastR EXCEPT ![x] = [@ EXCEPT ![p] = vc[p][p]]]
            /\ vc' = [vc EXCEPT ![p] = Tick(@, p)] /\ Advance(p, 1)
            /\ UNCHANGED <<lockVC, holder, atomVC, onceDone, lastW>>
       [] k = "w" ->
            /\ race' = IF race = "" /\ (~HB(lastW[x], p) \/ ~HB(lastR[x], p)) THEN "write of " \o x \o " races with another access" ELSE race
            /\ lastW' = [lastW EXCEPT ![x] = [q \in Procs |-> IF q = p THEN vc[p][p] ELSE 0]]
            /\ lastR' = [lastR EXCEPT ![x] = Zero]
            /\ vc' = [vc EXCEPT ![p] = Tick(@, p)] /\ Advance(p, 1)
            /\ UNCHANGED <<lockVC, holder, atomVC, onceDone>>
       [] k = "acq" ->
            /\ holder[x] = 0 /\ holder' = [holder EXCEPT ![x] = p]
            /\ vc' = [vc EXCEPT ![p] = Tick(Join(@, lockVC[x]), p)] /\ Advance(p, 1)
            /\ UNCHANGED <<lockVC, atomVC, onceDone, lastW, lastR, race>>
       [] k = "rel" ->
            /\ holder' = [holder EXCEPT ![x] = 0] /\ lockVC' = [lockVC EXCEPT ![x] = vc[p]]
            /\ vc' = [vc EXCEPT ![p] = Tick(@, p)] /\ Advance(p, 1)
            /\ UNCHANGED <<atomVC, onceDone, lastW, lastR, race>>
       [] k = "at" ->
            /\ vc' = [vc EXCEPT ![p] = Tick(Join(@, atomVC[x]), p)]
            /\ atomVC' = [atomVC EXCEPT ![x] = Join(@, vc[p])] /\ Advance(p, 1)
            /\ UNCHANGED <<lockVC, holder, onceDone, lastW, lastR, race>>
       [] k = "once" ->
            IF onceDone
            THEN \* fast path: the done flag is read with acquire semantics; skip the body
                 /\ vc' = [vc EXCEPT ![p] = Tick(Join(@, lockVC[x]), p)]
                 /\ Advance(p, 3) /\ UNCHANGED <<lockVC, holder, atomVC, onceDone, lastW, lastR, race>>
            ELSE /\ holder[x] = 0 /\ holder' = [holder EXCEPT ![x] = p]
                 /\ vc' = [vc EXCEPT ![p] = Tick(Join(@, lockVC[x]), p)] /\ Advance(p, 1)
                 /\ UNCHANGED <<lockVC, atomVC, onceDone, lastW, lastR, race>>
       [] k = "endonce" ->
            /\ onceDone' = TRUE /\ holder' = [holder EXCEPT ![x] = 0] /\ lockVC' = [lockVC EXCEPT ![x] = vc[p]]
            /\ vc' = [vc EXCEPT ![p] = Tick(@, p)] /\ Advance(p, 1)
            /\ UNCHANGED <<atomVC, lastW, lastR, race>>
       [] k = "get" ->
            /\ IF freeObjs # <<>>
               THEN /\ held' = [held EXCEPT ![p] = Head(freeObjs)] /\ freeObjs' = Tail(freeObjs) /\ UNCHANGED fresh
                    /\ vc' = [vc EXCEPT ![p] = Tick(Join(@, atomVC[x]), p)]
               ELSE /\ fresh < Len(ObjSeq) /\ fresh' = fresh + 1 /\ held' = [held EXCEPT ![p] = ObjSeq[fresh + 1]]
                    /\ UNCHANGED freeObjs /\ vc' = [vc EXCEPT ![p] = Tick(@, p)]
            /\ Advance(p, 1)
            /\ UNCHANGED <<lockVC, holder, atomVC, onceDone, lastW, lastR, race>>
       [] k = "put" ->
            /\ freeObjs' = Append(freeObjs, held[p]) /\ UNCHANGED <<held, fresh>>
            /\ atomVC' = [atomVC EXCEPT ![x] = Join(@, vc[p])]
            /\ vc' = [vc EXCEPT ![p] = Tick(@, p)] /\ Advance(p, 1)
            /\ UNCHANGED <<lockVC, holder, onceDone, lastW, lastR, race>>
  /\ UNCHANGED prog
Next == \E p \in Procs : Step(p)
Spec == Init /\ [][Next]_vars /\ WF_vars(Next)

NoRace == race = ""
AllDone == \A p \in Procs : Finished(p) \/ (\A i \in opi[p]..Len(prog[p]) : Len(Script(prog[p][i])) = 0)
\* no deadlock: from every state some process can move unless all are done (checked as an invariant on blocked states)
Blocked(p) == ~Finished(p) /\ Len(Cur(p)) > 0 /\ Cur(p)[pc[p]][1] \in {"acq", "once"} /\ holder[Cur(p)[pc[p]][2]] # 0
              /\ ~(Cur(p)[pc[p]][1] = "once" /\ onceDone)
NoDeadlock == AllDone \/ \E p \in Procs : ~Finished(p) /\ Len(Cur(p)) > 0 /\ ~Blocked(p)
\* programs (one per initial state) for the replay under the race detector
EmitBeh == IF Emit /\ \A p \in Procs : opi[p] = 1 /\ pc[p] = 1 /\ vc[p][p] = 1
           THEN PrintT("@@BEH " \o ToJson([prog |-> prog])) ELSE TRUE
=============================================================================
