---------------------------- MODULE StackLevels ----------------------------
(***************************************************************************)
(* "Stack traces ... are attached exactly for the levels configured"       *)
(* (options.go: AddStacktrace takes a zapcore.LevelEnabler; logger.go:     *)
(* Logger.check asks log.addStack.Enabled(ce.Level) for every entry).      *)
(*                                                                         *)
(* The configured thing is an ENABLER, not a number: a fixed threshold, an *)
(* AtomicLevel the application moves while the logger (and everything      *)
(* derived from it) is in use, or an arbitrary predicate that need not be  *)
(* upward closed.  Read = "live" is the code: the enabler is consulted per *)
(* entry.  Read = "frozen" is the spec mutant in which the option keeps    *)
(* only LevelOf(enabler) as seen at construction.                          *)
(***************************************************************************)
EXTENDS Integers, Sequences, FiniteSets, TLC, Json

CONSTANTS Levels,       \* e.g. 0..4 (debug..dpanic), integers
          MaxSteps,
          Kinds,        \* subset of {"threshold", "atomic", "set"}
          Read,         \* "live" = code; "frozen" = spec mutant
          Emit

Up(l) == {x \in Levels : x >= l}
Min(S) == CHOOSE x \in S : \A y \in S : x <= y
VARIABLES kind, en, en0, h, lastOk
vars == <<kind, en, en0, h, lastOk>>
NoHist == <<kind, en, en0, lastOk>>

Init == /\ kind \in Kinds
        /\ en \in IF kind = "set" THEN SUBSET Levels ELSE {Up(l) : l \in Levels}
        /\ en0 = en /\ h = <<>> /\ lastOk = TRUE

\* what Logger.check decides for an entry at level l
Attach(l) == IF Read = "live" THEN l \in en
             ELSE en0 # {} /\ l >= Min(en0)          \* LevelOf: the lowest enabled level, then "at or above"
Log(l) == /\ lastOk' = (Attach(l) <=> l \in en)
          /\ h' = Append(h, [op |-> "log", lvl |-> l, attach |-> (l \in en)])
          /\ UNCHANGED <<kind, en, en0>>
\* the application moves the AtomicLevel
SetLevel(l) == /\ kind = "atomic" /\ en # Up(l) /\ en' = Up(l)
               /\ h' = Append(h, [op |-> "set", lvl |-> l, attach |-> FALSE])
               /\ UNCHANGED <<kind, en0, lastOk>>
Next == Len(h) < MaxSteps /\ \E l \in Levels : Log(l) \/ SetLevel(l)
Spec == Init /\ [][Next]_vars

AttachExact == lastOk
RECURSIVE SetToSeq(_)
SetToSeq(S) == IF S = {} THEN <<>> ELSE LET x == Min(S) IN <<x>> \o SetToSeq(S \ {x})
EmitBeh == IF Emit /\ Len(h) = MaxSteps
           THEN PrintT("@@BEH " \o ToJson([kind |-> kind, en0 |-> SetToSeq(en0), h |-> h])) ELSE TRUE
=============================================================================
