------------------------------ MODULE Sinks ------------------------------
(***************************************************************************)
(* zapcore WriteSyncer combinators (zapcore/write_syncer.go, writer.go):   *)
(*   multiWriteSyncer.Write / Sync  - the loop over the sinks, one action  *)
(*                                    per iteration, with the code's count *)
(*                                    rule and error accumulation          *)
(*   Lock                           - mutex around Write / Sync            *)
(*   AddSync / Lock wrappers        - relay of the inner result            *)
(* Each sink's outcome for the call is scripted: a returned count class    *)
(* (0, short, full) and an error flag.                                     *)
(***************************************************************************)
EXTENDS Integers, Sequences, FiniteSets, TLC, Json, SequencesExt

CONSTANTS MaxSinks,      \* multi-syncer: number of sinks 0..MaxSinks  (NewMultiWriteSyncer(1 sink) returns it unchanged)
          Len_,          \* payload length (abstract): "full" = Len_
          Procs,         \* goroutines going through one Lock wrapper
          MinRule,       \* "code": i = 0 \/ n < nWritten;  "first-nonzero": the pre-fix rule (spec mutant)
          StopOnError,   \* FALSE = code; TRUE = spec mutant (loop breaks at first failing sink)
          Locked,        \* TRUE = code; FALSE = spec mutant (Lock returns the bare syncer)
          Relock,        \* "same" = code (Lock of an already locked syncer returns that very object: one mutex however many handles); "fresh" = spec mutant (a new wrapper with a mutex of its own around the inner sink)
          Emit

Counts == {0, 1, Len_}                     \* zero, short, full
Outcome == [n : Counts, err : BOOLEAN]

VARIABLES op,        \* "W" | "Y" : the multi-syncer call being modelled
          outs,      \* scripted outcome per sink (sequence)
          i,         \* loop index (sinks visited so far)
          nWritten, errs,   \* accumulated result
          got,       \* per sink: did it receive the call (and the full payload)
          pc,        \* "loop" | "done"
          \* Lock wrapper
          lpc,       \* per proc: "idle" | "want" | "inside" | "ret"
          lop,       \* per proc: op it performs
          holder,    \* mutex holder or "none"
          inside,    \* number of procs inside the wrapped syncer right now
          order,     \* order in which procs entered the wrapped syncer
          handle     \* per proc: which handle of a doubly locked sink it uses
vars == <<op, outs, i, nWritten, errs, got, pc, lpc, lop, holder, inside, order, handle>>

SeqsUpTo(S, n) == UNION {[1..k -> S] : k \in 0..n}

Init == /\ op \in {"W", "Y"}
        /\ outs \in SeqsUpTo(Outcome, MaxSinks)
        /\ i = 0 /\ nWritten = 0 /\ errs = <<>> /\ got = [k \in 1..Len(outs) |-> FALSE]
        /\ pc = "loop"
        /\ lpc = [p \in Procs |-> "idle"] /\ lop \in [Procs -> {"W", "Y"}]
        /\ holder = [m \in {1, 2} |-> "none"] /\ inside = 0 /\ order = <<>>
        \* which of the two handles of a doubly locked sink a goroutine holds (the replay assigns handles itself, so
        \* generator runs need not enumerate them,
        \* and they are only enumerated in the lock-only configurations, MaxSinks = 0)
        /\ handle \in IF Emit \/ MaxSinks > 0 THEN {[p \in Procs |-> 1]} ELSE [Procs -> {1, 2}]

\* ---- multiWriteSyncer: one loop iteration
MultiStep ==
  /\ pc = "loop" /\ i < Len(outs)
  /\ LET o == outs[i + 1] IN
       /\ got' = [got EXCEPT ![i + 1] = TRUE]             \* every sink gets the same p / a Sync call
       /\ errs' = IF o.err THEN Append(errs, i + 1) ELSE errs
       /\ nWritten' = IF op = "Y" THEN 0
                      ELSE IF MinRule = "code"
                           THEN (IF i = 0 \/ o.n < nWritten THEN o.n ELSE nWritten)
                           ELSE (IF nWritten = 0 /\ o.n # 0 THEN o.n
                                 ELSE IF o.n < nWritten THEN o.n ELSE nWritten)
       /\ i' = i + 1
       /\ pc' = IF StopOnError /\ o.err THEN "done" ELSE pc
  /\ UNCHANGED <<op, outs, lpc, lop, holder, inside, order, handle>>
MultiDone ==
  /\ pc = "loop" /\ i = Len(outs) /\ pc' = "done"
  /\ UNCHANGED <<op, outs, i, nWritten, errs, got, lpc, lop, holder, inside, order, handle>>

\* ---- Lock wrapper: Lock(); inner call; Unlock()
LWant(p) == /\ lpc[p] = "idle" /\ lpc' = [lpc EXCEPT ![p] = "want"]
            /\ UNCHANGED <<op, outs, i, nWritten, errs, got, pc, lop, holder, inside, order, handle>>
Mutex(p) == IF Relock = "same" THEN 1 ELSE handle[p]
LEnter(p) == /\ lpc[p] = "want" /\ (Locked => holder[Mutex(p)] = "none")
             /\ holder' = IF Locked THEN [holder EXCEPT ![Mutex(p)] = p] ELSE holder
             /\ inside' = inside + 1 /\ order' = Append(order, p)
             /\ lpc' = [lpc EXCEPT ![p] = "inside"]
             /\ UNCHANGED <<op, outs, i, nWritten, errs, got, pc, lop, handle>>
LExit(p) == /\ lpc[p] = "inside" /\ inside' = inside - 1
            /\ holder' = IF Locked THEN [holder EXCEPT ![Mutex(p)] = "none"] ELSE holder
            /\ lpc' = [lpc EXCEPT ![p] = "ret"]
            /\ UNCHANGED <<op, outs, i, nWritten, errs, got, pc, lop, order, handle>>

Next == MultiStep \/ MultiDone \/ \E p \in Procs : LWant(p) \/ LEnter(p) \/ LExit(p)
Spec == Init /\ [][Next]_vars

\* ---- reference (C13)
MinOf(S) == CHOOSE x \in S : \A y \in S : x <= y
RefN == IF op = "Y" \/ Len(outs) = 0 THEN 0 ELSE MinOf({outs[k].n : k \in 1..Len(outs)})
RefErrs == SelectSeq([k \in 1..Len(outs) |-> k], LAMBDA k : outs[k].err)
MultiCorrect == pc = "done" => /\ nWritten = RefN            \* smallest count any sink reported
                               /\ errs = RefErrs             \* all errors, in order
                               /\ \A k \in 1..Len(outs) : got[k]   \* every sink reached, whatever failed before
MutualExclusion == inside <= 1

LockDone == \A p \in Procs : lpc[p] = "ret"
EmitBeh == IF Emit /\ pc = "done" /\ LockDone
           THEN PrintT("@@BEH " \o ToJson([op |-> op, outs |-> outs, n |-> nWritten, errs |-> errs,
                                           lop |-> lop, order |-> order]))
           ELSE TRUE
===========================================================================
