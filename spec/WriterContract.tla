--------------------------- MODULE WriterContract ---------------------------
(***************************************************************************)
(* The io.Writer contract of every writer zap provides, as a case table:   *)
(* (writer kind, what the writer accepted before, payload class) ->        *)
(* required result.  The writers that split or buffer their input          *)
(* (zapio.Writer keeps an unterminated line, BufferedWriteSyncer a buffer) *)
(* carry state from earlier Writes, so the observed Write is preceded by   *)
(* nothing, by an unterminated fragment or by a complete line; every case  *)
(* becomes one implementation test.                                        *)
(***************************************************************************)
EXTENDS Integers, Sequences, TLC, Json

\* the buffered syncer also over sinks that misbehave: one that takes only part of what it is given without
\* reporting an error (the buffered syncer must make up for it or report it), one that fails
\* and the testing writer over a test that has finished (its Logf panics): a panic or an error are answers, a short
\* count without an error is not
FaultySinkWriters == {"bws-over-short-sink", "bws-over-failing-sink", "testing-finished-t"}
Writers == {"zapio", "zapio-disabled", "stdlog", "stdlog-at", "testing", "testing-markfailed", "bws", "bws-stopped"} \cup FaultySinkWriters
\* payload classes: what the writers' trimming / splitting logic distinguishes
Payloads == {"empty", "spaces", "text", "text-nl", "text-nlnl", "nl", "nlnl", "lead-space-text-trail", "multi-line",
             "crlf", "tabs-nl", "large", "large-nl", "binary"}

Priors == {"nothing", "fragment", "fragments", "line"}

VARIABLES w, prior, p, res
vars == <<w, prior, p, res>>
Init == w \in Writers /\ prior \in Priors /\ p \in Payloads /\ res = [n |-> "none", err |-> FALSE]
\* what the code does: every one of them accepts all of p and says so
Results(x) == IF x \in FaultySinkWriters THEN {[n |-> "len", err |-> FALSE], [n |-> "short", err |-> TRUE]}
              ELSE {[n |-> "len", err |-> FALSE]}
Call == res.n = "none" /\ res' \in Results(w) /\ UNCHANGED <<w, prior, p>>
Spec == Init /\ [][Call]_vars
\* C13: never a short count without an error; len(p) with nil error once everything was accepted
Contract == res.n # "none" => ((res.n = "short" => res.err) /\ (w \notin FaultySinkWriters => res.n = "len" /\ ~res.err))
EmitBeh == IF res.n # "none" THEN PrintT("@@BEH " \o ToJson([w |-> w, prior |-> prior, p |-> p, res |-> res])) ELSE TRUE
=============================================================================
