----------------------------- MODULE CallerSkip -----------------------------
(***************************************************************************)
(* Caller and stack annotation (logger.go: Logger.check with               *)
(* callerSkipOffset, Sugar / Desugar, options.go: AddCallerSkip,           *)
(* global.go: the std-log bridge depths, internal/stacktrace: Capture).    *)
(*                                                                         *)
(* The call stack at the moment Logger.check captures it, innermost        *)
(* first:   check | front-end frames | user call site | wrappers ... main  *)
(* The front end contributes Frames(fe) zap frames above the user's call   *)
(* (Logger methods 1; SugaredLogger methods 3: method, log, Check; the     *)
(* std-log bridge: Logger method + Write + the two log package frames).    *)
(* check reports the frame at index callerSkip + callerSkipOffset.         *)
(* Conversions and options move callerSkip: Sugar +2, Desugar -2,          *)
(* AddCallerSkip(k) +k, NewStdLog +3; With / Named leave it alone.         *)
(*                                                                         *)
(* C15: the reported frame is the user's call, moved outward by exactly    *)
(* the skips the user configured, for every chain of conversions and       *)
(* every front end; a full stack capture starts at that frame and returns  *)
(* every frame whatever the depth (the storage doubles until the stack     *)
(* fits), and is attached exactly from the configured level up.            *)
(***************************************************************************)
EXTENDS Integers, Sequences, FiniteSets, TLC, Json

CONSTANTS MaxChain, Depths,
          Offset,      \* 2 = code
          SugarAdd,    \* 2 = code
          DesugarSub,  \* 2 = code
          StdDepth,    \* 3 = code (_stdLogDefaultDepth + _loggerWriterDepth)
          GrowSkip,    \* 0 = code; 1 = spec mutant (the re-capture after growing the storage starts one frame early)
          GrowTest,    \* "eq" = code (numFrames == len(pcs)); "gt" = spec mutant (never grows)
          Emit

VARIABLES skip, sugared, extra, chain
vars == <<skip, sugared, extra, chain>>

Init == skip = 0 /\ sugared = FALSE /\ extra = 0 /\ chain = <<>>
Can == Len(chain) < MaxChain
Sugar == /\ Can /\ ~sugared /\ skip' = skip + SugarAdd /\ sugared' = TRUE /\ UNCHANGED extra /\ chain' = Append(chain, "Sugar")
Desugar == /\ Can /\ sugared /\ skip' = skip - DesugarSub /\ sugared' = FALSE /\ UNCHANGED extra /\ chain' = Append(chain, "Desugar")
AddSkip(k) == /\ Can /\ skip' = skip + k /\ extra' = extra + k /\ UNCHANGED sugared
              /\ chain' = Append(chain, IF k = 1 THEN "AddCallerSkip1" ELSE "AddCallerSkip2")
Derive(op) == Can /\ UNCHANGED <<skip, sugared, extra>> /\ chain' = Append(chain, op)
Next == Sugar \/ Desugar \/ AddSkip(1) \/ AddSkip(2) \/ Derive("With") \/ Derive("Named")
Spec == Init /\ [][Next]_vars

\* zap frames between Logger.check (index 0) and the user's call site
StdDepthReal == 3   \* loggerWriter.Write, log.(*Logger).Output, log.(*Logger).Print: what the runtime really pushes
Frames(fe) == CASE fe = "logger" -> 1 [] fe = "sugar" -> 3 [] fe = "stdlog" -> 1 + StdDepthReal
Reported(fe) == (IF fe = "stdlog" THEN skip + StdDepth ELSE skip) + Offset
UserIndex(fe) == Frames(fe) + 1
FE == IF sugared THEN "sugar" ELSE "logger"
\* the reported frame is the user's frame moved outward by the configured skips
CallerExact == Reported(FE) = UserIndex(FE) + extra
StdlogExact == ~sugared => Reported("stdlog") = UserIndex("stdlog") + extra

\* ---- stacktrace.Capture(skip, Full) on a stack of d frames (after the skip) ----
\* returns <<first frame index relative to the requested start, number of frames>>
RECURSIVE Grow(_, _, _)
Grow(d, size, early) ==
  LET avail == d + early                 \* frames visible to this Callers call
      n == IF avail < size THEN avail ELSE size
  IN IF (GrowTest = "eq" /\ n = size) THEN Grow(d, 2 * size, GrowSkip) ELSE <<-early, n>>
Capture(d) == Grow(d, 64, 0)
StackComplete == \A d \in Depths : Capture(d) = <<0, d>>

EmitBeh == IF Emit /\ Len(chain) = MaxChain
           THEN PrintT("@@BEH " \o ToJson([chain |-> chain, sugared |-> sugared, extra |-> extra, skip |-> skip]))
           ELSE TRUE
=============================================================================
