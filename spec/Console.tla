------------------------------ MODULE Console ------------------------------
(***************************************************************************)
(* The console encoder's line layout (zapcore/console_encoder.go).         *)
(*                                                                         *)
(* Implementation side: EncodeEntry collects the metadata columns in a     *)
(* slice (time, level, name, caller, function: each under its own guard;   *)
(* a no-op sub-encoder appends nothing), joins them with the separator,    *)
(* then appends message, context and stack, each time asking only "is the  *)
(* line non-empty so far?" (addSeparatorIfNecessary).  The context is the  *)
(* spaced JSON of JsonEnc.tla (Spaced = TRUE) wrapped in braces, and is    *)
(* skipped when it is empty.                                               *)
(*                                                                         *)
(* Reference (C16): the present columns in the fixed order, joined by the  *)
(* separator, then separator + JSON object if any field produced output,   *)
(* then the stack on following lines, then the line ending.                *)
(* Columns that render as the empty string make "joined" ambiguous at the  *)
(* start of the line: both the plain join and the join without leading     *)
(* separators are accepted there (and only there).                         *)
(***************************************************************************)
EXTENDS Integers, Sequences, FiniteSets, TLC, Json

CONSTANTS Family,     \* which slice of the configuration space: "cols" | "encs" | "parts" | "full"
          SepRule,    \* "nonempty" = code; "always" / "never-double" = spec mutants
          Order,      \* "code" | "level-first" (spec mutant)
          CtxSepRule, \* "code" | "none" (spec mutant: no separator before the context)
          StackRule,  \* "code" | "nokey" (spec mutant: stack emitted without StacktraceKey)
          Emit

Enc3 == {"nil", "noop", "str"}
VARIABLES cfg, pc, arr, line, bytes   \* bytes: does the line hold at least one byte so far?
vars == <<cfg, pc, arr, line, bytes>>

All == [tk : BOOLEAN, lk : BOOLEAN, nk : BOOLEAN, ck : BOOLEAN, fk : BOOLEAN, mk : BOOLEAN, sk : BOOLEAN,
         et : Enc3, el : Enc3, en : Enc3, ec : Enc3,
         tz : BOOLEAN, nm : BOOLEAN, cd : BOOLEAN, st : BOOLEAN,
         fe : BOOLEAN,            \* the caller's function name is the empty string
         me : BOOLEAN,            \* the message is the empty string
         ctx : {"none", "skip-only", "fields"}]

Mk(tk, lk, nk, ck, fk, mk, sk, et, el, en, ec, tz, nm, cd, st, fe, me, ctx) ==
  [tk |-> tk, lk |-> lk, nk |-> nk, ck |-> ck, fk |-> fk, mk |-> mk, sk |-> sk, et |-> et, el |-> el, en |-> en, ec |-> ec,
   tz |-> tz, nm |-> nm, cd |-> cd, st |-> st, fe |-> fe, me |-> me, ctx |-> ctx]
Ctxs == {"none", "skip-only", "fields"}
Cfgs == CASE Family = "full" -> All
          [] Family = "cols" -> {Mk(tk, lk, nk, ck, fk, mk, TRUE, "str", "str", "str", "str", FALSE, TRUE, TRUE, TRUE, fe, me, ctx) :
                                   tk \in BOOLEAN, lk \in BOOLEAN, nk \in BOOLEAN, ck \in BOOLEAN, fk \in BOOLEAN, mk \in BOOLEAN,
                                   fe \in BOOLEAN, me \in BOOLEAN, ctx \in Ctxs}
          [] Family = "encs" -> {Mk(TRUE, TRUE, TRUE, TRUE, TRUE, TRUE, TRUE, et, el, en, ec, tz, nm, cd, TRUE, FALSE, FALSE, ctx) :
                                   et \in Enc3, el \in Enc3, en \in Enc3, ec \in Enc3, tz \in BOOLEAN, nm \in BOOLEAN, cd \in BOOLEAN,
                                   ctx \in {"none", "fields"}}
          [] Family = "parts" -> {Mk(TRUE, TRUE, TRUE, TRUE, TRUE, mk, sk, "str", "str", "str", "str", tz, nm, cd, st, fe, me, ctx) :
                                   mk \in BOOLEAN, sk \in BOOLEAN, tz \in BOOLEAN, nm \in BOOLEAN, cd \in BOOLEAN, st \in BOOLEAN,
                                   fe \in BOOLEAN, me \in BOOLEAN, ctx \in Ctxs}
Init == cfg \in Cfgs /\ pc = "time" /\ arr = <<>> /\ line = <<>> /\ bytes = FALSE

\* a column: [c |-> name, empty |-> renders as ""]
Col(c, e) == [c |-> c, empty |-> e]
Unch == UNCHANGED <<cfg, line, bytes>>
ColTime == /\ pc = "time" /\ pc' = (IF Order = "code" THEN "level" ELSE "name")
           /\ arr' = IF cfg.tk /\ cfg.et = "str" /\ ~cfg.tz THEN Append(arr, Col("time", FALSE)) ELSE arr
           /\ Unch
ColLevel == /\ pc = "level" /\ pc' = (IF Order = "code" THEN "name" ELSE "time")
            /\ arr' = IF cfg.lk /\ cfg.el = "str" THEN Append(arr, Col("level", FALSE)) ELSE arr
            /\ Unch
ColName == /\ pc = "name" /\ pc' = "caller"
           /\ arr' = IF cfg.nm /\ cfg.nk /\ cfg.en # "noop" THEN Append(arr, Col("name", FALSE)) ELSE arr
           /\ Unch
ColCaller == /\ pc = "caller" /\ pc' = "join"
             /\ arr' = IF ~cfg.cd THEN arr
                       ELSE (IF cfg.ck /\ cfg.ec = "str" THEN Append(arr, Col("caller", FALSE)) ELSE arr)
                            \o (IF cfg.fk THEN <<Col("func", cfg.fe)>> ELSE <<>>)
             /\ Unch
Tok(x) == [t |-> x]
RECURSIVE Joined(_, _)
Joined(cs, i) == IF i > Len(cs) THEN <<>> ELSE (IF i > 1 THEN <<Tok("sep")>> ELSE <<>>) \o <<Tok(cs[i].c)>> \o Joined(cs, i + 1)
AnyBytes(cs) == Len(cs) > 1 \/ (Len(cs) = 1 /\ ~cs[1].empty)     \* a separator or a non-empty column
Join == /\ pc = "join" /\ pc' = "msg"
        /\ line' = Joined(arr, 1) /\ bytes' = AnyBytes(arr)
        /\ UNCHANGED <<cfg, arr>>
Renders(t) == ~((t.t = "msg" /\ cfg.me) \/ (t.t = "func" /\ cfg.fe))
RECURSIVE LastRendering(_)
LastRendering(l) == IF l = <<>> THEN "none" ELSE IF Renders(l[Len(l)]) THEN l[Len(l)].t ELSE LastRendering(SubSeq(l, 1, Len(l) - 1))
LastByteIsSep == LastRendering(line) = "sep"
NeedSep == CASE SepRule = "nonempty" -> bytes
             [] SepRule = "always" -> TRUE
             [] SepRule = "never-double" -> bytes /\ ~LastByteIsSep
Msg == /\ pc = "msg" /\ pc' = "ctx"
       /\ IF cfg.mk
          THEN /\ line' = line \o (IF NeedSep THEN <<Tok("sep")>> ELSE <<>>) \o <<Tok("msg")>>
               /\ bytes' = (bytes \/ ~cfg.me)
          ELSE UNCHANGED <<line, bytes>>
       /\ UNCHANGED <<cfg, arr>>
Ctx == /\ pc = "ctx" /\ pc' = "stack"
       /\ IF cfg.ctx = "fields"
          THEN /\ line' = line \o (IF NeedSep /\ CtxSepRule = "code" THEN <<Tok("sep")>> ELSE <<>>) \o <<Tok("json")>>
               /\ bytes' = TRUE
          ELSE UNCHANGED <<line, bytes>>
       /\ UNCHANGED <<cfg, arr>>
Stack == /\ pc = "stack" /\ pc' = "done"
         /\ line' = line \o (IF cfg.st /\ (cfg.sk \/ StackRule = "nokey") THEN <<Tok("nl"), Tok("stack")>> ELSE <<>>) \o <<Tok("eol")>>
         /\ UNCHANGED <<cfg, arr, bytes>>
Next == ColTime \/ ColLevel \/ ColName \/ ColCaller \/ Join \/ Msg \/ Ctx \/ Stack
Spec == Init /\ [][Next]_vars

\* ---- reference -------------------------------------------------------------
Present == (IF cfg.tk /\ cfg.et = "str" /\ ~cfg.tz THEN <<Col("time", FALSE)>> ELSE <<>>)
        \o (IF cfg.lk /\ cfg.el = "str" THEN <<Col("level", FALSE)>> ELSE <<>>)
        \o (IF cfg.nk /\ cfg.nm /\ cfg.en # "noop" THEN <<Col("name", FALSE)>> ELSE <<>>)
        \o (IF cfg.cd /\ cfg.ck /\ cfg.ec = "str" THEN <<Col("caller", FALSE)>> ELSE <<>>)
        \o (IF cfg.cd /\ cfg.fk THEN <<Col("func", cfg.fe)>> ELSE <<>>)
        \o (IF cfg.mk THEN <<Col("msg", cfg.me)>> ELSE <<>>)
        \o (IF cfg.ctx = "fields" THEN <<Col("json", FALSE)>> ELSE <<>>)
Trailer == (IF cfg.st /\ cfg.sk THEN <<Tok("nl"), Tok("stack")>> ELSE <<>>) \o <<Tok("eol")>>
\* the join without the separators that would precede the first byte of the line
RECURSIVE LeadingEmpty(_, _)
LeadingEmpty(cs, i) == IF i > Len(cs) \/ ~cs[i].empty THEN i - 1 ELSE LeadingEmpty(cs, i + 1)
RECURSIVE JoinFrom(_, _, _)
JoinFrom(cs, i, k) == IF i > Len(cs) THEN <<>>
                      ELSE (IF i > 1 /\ i > k + 1 THEN <<Tok("sep")>> ELSE <<>>) \o <<Tok(cs[i].c)>> \o JoinFrom(cs, i + 1, k)
\* k = number of leading empty columns whose following separator is dropped (0 = plain join)
Shape == pc = "done" => \E k \in 0..LeadingEmpty(Present, 1) : line = JoinFrom(Present, 1, k) \o Trailer
EmitBeh == IF Emit /\ pc = "done"
           THEN PrintT("@@BEH " \o ToJson([cfg |-> cfg, line |-> [i \in 1..Len(line) |-> line[i].t]]))
           ELSE TRUE
=============================================================================
