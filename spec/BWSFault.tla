---------------------------- MODULE BWSFault ----------------------------
(***************************************************************************)
(* zapcore.BufferedWriteSyncer over a sink that fails (C12 and C10).       *)
(*                                                                         *)
(* BWS.tla models the interleavings of Write / Sync / Stop / flush loop    *)
(* over a sink that always succeeds.  This module is the other axis: one   *)
(* client (sequential histories), but every write attempt on the wrapped   *)
(* sink may fail, and the bufio.Writer inside is modelled with the rule    *)
(* that decides what happens next: its error is sticky.                    *)
(*                                                                         *)
(*   bufio.Flush : if b.err != nil return it; n, err := wr.Write(buf);     *)
(*                 n < len && err == nil -> ErrShortWrite; on error keep   *)
(*                 buf[n:], remember err                                   *)
(*   bufio.Write : while len(p) > Available && err == nil:                 *)
(*                    Buffered == 0 -> n, err = wr.Write(p)   (direct)     *)
(*                    else fill the buffer and Flush                       *)
(*                 err != nil -> return nn, err ; else copy p              *)
(*   BWS.Write   : pre-flush guard (whole writes), then bufio.Write        *)
(*   BWS.Sync    : Flush (if initialized), then WS.Sync; both errors       *)
(*   flush tick  : _ = Sync()            -- the result is dropped          *)
(*   BWS.Stop    : first call: stop the loop, return Sync()                *)
(*                                                                         *)
(* Because the error is sticky, nothing reaches the sink after a failed    *)
(* sink write, every later Write is refused and every later Sync / Stop    *)
(* reports the failure: the sink holds a prefix of the accepted stream and *)
(* a dropped tick result can never hide a loss.  Recover = "reset" is the  *)
(* spec mutant in which Sync starts over with a clean writer after a       *)
(* failed flush (dropping what was buffered).                              *)
(***************************************************************************)
EXTENDS Integers, Sequences, FiniteSets, TLC, SequencesExt, Json

CONSTANTS Size, WLens, MaxOps, MaxFaults,
          FaultKinds,   \* subset of {"err0", "errpart", "short", "syncerr"}
          Recover,      \* "sticky" = code; "reset" = spec mutant
          Emit

VARIABLES buf, berr, inited, stopped,
          sink,         \* calls received by the wrapped sink: [t |-> "w", d |-> bytes taken, f |-> fault] / [t |-> "s", f |-> fault]
          accepted,     \* writes whose call returned (len, nil), in order
          nw,           \* writes attempted so far (write ids)
          nops, nfaults,
          last,         \* result of the last operation: [op, ok]
          reported,     \* TRUE once some non-tick call has returned an error
          h
vars == <<buf, berr, inited, stopped, sink, accepted, nw, nops, nfaults, last, reported, h>>
NoHist == <<buf, berr, inited, stopped, sink, accepted, nw, nops, nfaults, last, reported>>

Bytes(i, n) == [k \in 1..n |-> <<i, k, n>>]
St == [b |-> buf, e |-> berr, s |-> sink, fl |-> <<>>]

\* ---- one write attempt on the wrapped sink, under the next planned fault
SinkW(st, p) ==
  LET f == IF st.fl # <<>> /\ Head(st.fl) # "syncerr" THEN Head(st.fl) ELSE "ok"
      taken == CASE f = "ok" -> Len(p) [] f = "err0" -> 0
                 [] f = "short" -> (IF Len(p) = 1 THEN 1 ELSE Len(p) \div 2)
                 [] OTHER -> Len(p) \div 2
  IN [st |-> [st EXCEPT !.s = Append(@, [t |-> "w", d |-> SubSeq(p, 1, taken), f |-> f]),
                        !.fl = IF st.fl # <<>> /\ Head(st.fl) # "syncerr" THEN Tail(st.fl) ELSE st.fl],
      n |-> taken, err |-> f \in {"err0", "errpart"}]

Flush(st) ==
  IF st.e THEN [st |-> st, err |-> TRUE]
  ELSE IF Len(st.b) = 0 THEN [st |-> st, err |-> FALSE]
  ELSE LET r == SinkW(st, st.b)
           err == r.err \/ r.n < Len(st.b)
       IN IF err THEN [st |-> [r.st EXCEPT !.b = SubSeq(st.b, r.n + 1, Len(st.b)), !.e = TRUE], err |-> TRUE]
          ELSE [st |-> [r.st EXCEPT !.b = <<>>], err |-> FALSE]

RECURSIVE BufWrite(_, _, _)
BufWrite(st, p, nn) ==
  IF Len(p) > Size - Len(st.b) /\ ~st.e
  THEN IF Len(st.b) = 0
       THEN LET r == SinkW(st, p) IN BufWrite([r.st EXCEPT !.e = r.err], SubSeq(p, r.n + 1, Len(p)), nn + r.n)
       ELSE LET k == Size - Len(st.b)
                f == Flush([st EXCEPT !.b = st.b \o SubSeq(p, 1, k)])
            IN BufWrite(f.st, SubSeq(p, k + 1, Len(p)), nn + k)
  ELSE IF st.e THEN [st |-> st, n |-> nn, err |-> TRUE]
       ELSE [st |-> [st EXCEPT !.b = st.b \o p], n |-> nn + Len(p), err |-> FALSE]

BwsWrite(st, p) ==
  LET pre == IF Len(p) > Size - Len(st.b) /\ Len(st.b) > 0 THEN Flush(st) ELSE [st |-> st, err |-> FALSE]
  IN IF pre.err THEN [st |-> pre.st, n |-> 0, err |-> TRUE] ELSE BufWrite(pre.st, p, 0)

BwsSync(st) ==
  LET f == IF inited THEN Flush(st) ELSE [st |-> st, err |-> FALSE]
      st1 == IF f.err /\ Recover = "reset" THEN [f.st EXCEPT !.b = <<>>, !.e = FALSE] ELSE f.st
      sf == IF st1.fl # <<>> /\ Head(st1.fl) = "syncerr" THEN "syncerr" ELSE "ok"
  IN [st |-> [st1 EXCEPT !.s = Append(@, [t |-> "s", d |-> <<>>, f |-> sf])], err |-> f.err \/ sf = "syncerr"]

\* fault plans of an operation: what the next sink calls will do (unused entries are forgotten)
Plans == {<<>>} \cup {<<f>> : f \in FaultKinds} \cup {<<"ok", f>> : f \in FaultKinds \ {"syncerr"}}
NFaults(pl) == Cardinality({i \in 1..Len(pl) : pl[i] # "ok"})

Init == /\ buf = <<>> /\ berr = FALSE /\ inited = FALSE /\ stopped = FALSE /\ sink = <<>> /\ accepted = <<>>
        /\ nw = 0 /\ nops = 0 /\ nfaults = 0 /\ last = [op |-> "none", ok |-> TRUE] /\ reported = FALSE /\ h = <<>>

Rec(op, n, pl, ok, taken) == h' = IF Emit THEN Append(h, [op |-> op, n |-> n, plan |-> pl, ok |-> ok, taken |-> taken, sinklen |-> Len(sink')]) ELSE h

Write(n, pl) ==
  LET r == BwsWrite([St EXCEPT !.fl = pl], Bytes(nw + 1, n)) IN
  /\ buf' = r.st.b /\ berr' = r.st.e /\ sink' = r.st.s /\ inited' = TRUE /\ nw' = nw + 1
  /\ accepted' = IF r.err THEN accepted ELSE Append(accepted, Bytes(nw + 1, n))
  /\ last' = [op |-> "W", ok |-> ~r.err] /\ reported' = (reported \/ r.err)
  /\ Rec("W", n, pl, ~r.err, r.n) /\ UNCHANGED stopped

Sync(op, pl) ==
  LET r == BwsSync([St EXCEPT !.fl = pl]) IN
  /\ buf' = r.st.b /\ berr' = r.st.e /\ sink' = r.st.s
  /\ last' = [op |-> op, ok |-> ~r.err]
  /\ reported' = (reported \/ (r.err /\ op # "T"))      \* the flush loop drops the result
  /\ Rec(op, 0, pl, ~r.err, 0) /\ UNCHANGED <<inited, accepted, nw>>

Op ==
  /\ nops < MaxOps /\ nops' = nops + 1
  /\ \E pl \in Plans :
       /\ nfaults + NFaults(pl) <= MaxFaults /\ nfaults' = nfaults + NFaults(pl)
       /\ \/ \E n \in WLens : Write(n, pl)
          \/ Sync("Y", pl) /\ UNCHANGED stopped
          \/ inited /\ ~stopped /\ Sync("T", pl) /\ UNCHANGED stopped
          \/ inited /\ ~stopped /\ Sync("S", pl) /\ stopped' = TRUE

Next == Op
Spec == Init /\ [][Next]_vars

\* ---------------- properties
Flat(ss) == FoldLeft(LAMBDA a, c : a \o c, <<>>, ss)
SinkBytes == Flat([i \in 1..Len(sink) |-> sink[i].d])
AccIds == {accepted[i][1][1] : i \in {j \in 1..Len(accepted) : Len(accepted[j]) > 0}}
\* what the sink holds of the accepted stream (bytes of refused writes that the sink took part of are not part of it)
AccInSink == SelectSeq(SinkBytes, LAMBDA x : x[1] \in AccIds)
\* C12 under sink failure: never a hole - the sink holds a prefix of the accepted stream, in order, nothing twice
PrefixOfAccepted == IsPrefix(AccInSink, Flat(accepted))
\* C12: Sync / Stop that return without error acknowledge everything accepted before them
SyncAck == (last.op \in {"Y", "S"} /\ last.ok) => (AccInSink = Flat(accepted) /\ sink[Len(sink)].t = "s")
\* C10: no silent loss - if a byte of the accepted stream can no longer reach the sink (it is neither there nor
\* buffered), some call other than the dropped tick result has reported an error, or the next Sync will
Pending == SelectSeq(buf, LAMBDA x : x[1] \in AccIds)
NothingVanishes == AccInSink \o Pending = Flat(accepted)
LossIsReported == (last.op \in {"Y", "S"} /\ AccInSink # Flat(accepted)) => reported
\* what the code does (documents the sticky error): after a failed sink write nothing more reaches the sink
Sticky == berr => (last.op = "none" \/ ~last.ok \/ last.op = "T")

EmitBeh == IF Emit /\ nops = MaxOps
           THEN PrintT("@@BEH " \o ToJson([h |-> h, sink |-> sink, buffered |-> Len(buf)]))
           ELSE TRUE
=====================================================================
