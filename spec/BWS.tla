---------------------------- MODULE BWS ----------------------------
(***************************************************************************)
(* zapcore.BufferedWriteSyncer (zapcore/buffered_write_syncer.go).         *)
(*                                                                         *)
(* Implementation-shaped: one action per critical section / blocking       *)
(* point of the code.                                                      *)
(*   Write : Start (call entered) -> Lock (mu acquired) -> Body (initialize*)
(*           on first use incl. `go flushLoop`, pre-flush guard, bufio     *)
(*           Write with bufio's own split rule, unlock, return)            *)
(*   Sync  : Start -> Lock -> Body (Flush if initialized; WS.Sync; unlock) *)
(*   Stop  : Start -> Lock -> Body (critical section: stopped flag,        *)
(*           ticker.Stop, close(stop); unlock) -> Wait (<-done, outside    *)
(*           the lock) -> SyncLock -> SyncBody (final s.Sync())            *)
(*   flush loop : select { tick -> LoopTick; Sync = LoopLock, LoopBody     *)
(*                       | stop -> LoopStop (close(done)) }                *)
(*   Tick  : the ticker delivers (channel of capacity 1)                   *)
(* Bytes carry <<client, k-th write, offset, length>> so loss, duplication,*)
(* reordering and splitting are all visible in the sink.                   *)
(***************************************************************************)
EXTENDS Integers, Sequences, FiniteSets, TLC, SequencesExt, Json

CONSTANTS Size,            \* bufio capacity
          Writers, Syncers, Stoppers, Mixed,   \* client roles (sets of client names)
          WLens,           \* allowed write lengths
          MaxW, MaxStop, MaxMixed,   \* calls per writer / stopper / mixed client
          MaxTicks,
          SeqMode,         \* TRUE: generator of sequential histories (no overlap)
          Emit,            \* TRUE: print complete behaviours (generator configs)
          PreFlushGuard,   \* TRUE = code; FALSE = spec mutant (no flush-before-write)
          StopWaitsUnderLock, \* FALSE = code; TRUE = spec mutant (issue 1428)
          SyncCallsWS,     \* TRUE = code; FALSE = spec mutant (Sync flushes, never syncs the sink)
          StopOnce         \* TRUE = code (second Stop is a no-op); FALSE = spec mutant (double close)

Clients == Writers \cup Syncers \cup Stoppers \cup Mixed
OpsOf(c) == IF c \in Writers THEN {"W"} ELSE IF c \in Syncers THEN {"Y"}
            ELSE IF c \in Stoppers THEN {"S"} ELSE {"W", "Y", "S"}
MaxOps(c) == IF c \in Writers THEN MaxW ELSE IF c \in Stoppers THEN MaxStop
             ELSE IF c \in Mixed THEN MaxMixed ELSE 1
None == "none"
LOOP == "loop"

VARIABLES mu,            \* holder of s.mu, or None
          inited, stopped, tickerStopped,
          buf,           \* bytes held by the bufio.Writer
          sink,          \* what the wrapped WriteSyncer received: chunks and sync marks
          tickCh,        \* pending ticks on ticker.C (0/1)
          stopClosed, doneClosed, panicked,
          loopPc,        \* notstarted | select | l_lock | l_body | exited
          loopMark, loopAck,
          pc,            \* per client: idle | w_lock | w_body | y_lock | y_body | s_lock | s_body | s_wait | s_sync_lock | s_sync_body
          nops,          \* per client: calls started
          cur,           \* per client: bytes of the Write in progress
          accepted,      \* sequence of accepted writes (appended at the linearization point)
          ticks,
          callMark,      \* per client: Len(accepted) when the current/last call started
          ret,           \* per client: result of the last completed call
          h              \* history of actions (generator / replay)

vars == <<mu, inited, stopped, tickerStopped, buf, sink, tickCh, stopClosed, doneClosed, panicked,
          loopPc, loopMark, loopAck, pc, nops, cur, accepted, ticks, callMark, ret, h>>
\* everything except the history (VIEW of the checking configs)
NoHist == <<mu, inited, stopped, tickerStopped, buf, sink, tickCh, stopClosed, doneClosed, panicked,
            loopPc, loopMark, loopAck, pc, nops, cur, accepted, ticks, callMark, ret>>

SYNC == [t |-> "s", d |-> <<>>]
W(c) == [t |-> "w", d |-> c]
Bytes(c, i, n) == [k \in 1..n |-> <<c, i, k, n>>]

Init ==
  /\ mu = None /\ inited = FALSE /\ stopped = FALSE /\ tickerStopped = FALSE
  /\ buf = <<>> /\ sink = <<>> /\ tickCh = 0 /\ stopClosed = FALSE /\ doneClosed = FALSE
  /\ panicked = FALSE
  /\ loopPc = "notstarted" /\ loopMark = 0 /\ loopAck = FALSE
  /\ pc = [p \in Clients |-> "idle"]
  /\ nops = [p \in Clients |-> 0]
  /\ cur = [p \in Clients |-> <<>>]
  /\ accepted = <<>> /\ ticks = 0
  /\ callMark = [p \in Clients |-> 0]
  /\ ret = [p \in Clients |-> "none"]
  /\ h = <<>>

\* the history is only kept by generator configs
Rec(p, a, n) == h' = IF Emit THEN Append(h, [p |-> p, a |-> a, n |-> n]) ELSE h

\* ---- bufio.Writer.Write(p) on buffer b (capacity Size) over sink s: returns <<b', s'>>
RECURSIVE BufioWrite(_, _, _)
BufioWrite(b, s, p) ==
  IF Len(p) > Size - Len(b)
  THEN IF Len(b) = 0
       THEN <<b, Append(s, W(p))>>          \* large write with empty buffer: straight through
       ELSE LET n == Size - Len(b)
                full == b \o SubSeq(p, 1, n)
            IN BufioWrite(<<>>, Append(s, W(full)), SubSeq(p, n + 1, Len(p)))  \* fill, flush, continue
  ELSE <<b \o p, s>>

Flush(b, s) == IF Len(b) > 0 THEN Append(s, W(b)) ELSE s

\* In sequential mode a client may only start when nothing else is in flight.
Quiet == ~SeqMode \/ (/\ \A q \in Clients : pc[q] = "idle"
                      /\ tickCh = 0
                      /\ loopPc \in {"notstarted", "select", "exited"})

\* ---- call entry
Start(p) ==
  /\ pc[p] = "idle" /\ nops[p] < MaxOps(p) /\ Quiet /\ ~panicked
  /\ \E op \in OpsOf(p) :
       \/ /\ op = "W"
          /\ \E n \in WLens :
               /\ cur' = [cur EXCEPT ![p] = Bytes(p, nops[p] + 1, n)]
               /\ Rec(p, "WStart", n)
          /\ pc' = [pc EXCEPT ![p] = "w_lock"]
       \/ /\ op = "Y" /\ pc' = [pc EXCEPT ![p] = "y_lock"] /\ Rec(p, "YStart", 0) /\ UNCHANGED cur
       \/ /\ op = "S" /\ pc' = [pc EXCEPT ![p] = "s_lock"] /\ Rec(p, "SStart", 0) /\ UNCHANGED cur
  /\ nops' = [nops EXCEPT ![p] = @ + 1]
  /\ callMark' = [callMark EXCEPT ![p] = Len(accepted)]
  /\ ret' = [ret EXCEPT ![p] = "none"]
  /\ UNCHANGED <<mu, inited, stopped, tickerStopped, buf, sink, tickCh, stopClosed, doneClosed, panicked,
                 loopPc, loopMark, loopAck, accepted, ticks>>

\* ---- mu.Lock()
Lock(p) ==
  /\ pc[p] \in {"w_lock", "y_lock", "s_lock", "s_sync_lock"} /\ mu = None
  /\ mu' = p
  /\ pc' = [pc EXCEPT ![p] = CASE pc[p] = "w_lock" -> "w_body" [] pc[p] = "y_lock" -> "y_body"
                                [] pc[p] = "s_lock" -> "s_body" [] OTHER -> "s_sync_body"]
  /\ Rec(p, "Lock", 0)
  /\ UNCHANGED <<inited, stopped, tickerStopped, buf, sink, tickCh, stopClosed, doneClosed, panicked,
                 loopPc, loopMark, loopAck, nops, cur, accepted, ticks, callMark, ret>>

\* ---- Write critical section
WBodyEff(p) ==
  /\ LET bs  == cur[p]
         pre == IF PreFlushGuard /\ Len(bs) > Size - Len(buf) /\ Len(buf) > 0
                THEN <<<<>>, Append(sink, W(buf))>> ELSE <<buf, sink>>
         r   == BufioWrite(pre[1], pre[2], bs)
     IN /\ buf' = r[1] /\ sink' = r[2]
  /\ inited' = TRUE
  /\ loopPc' = IF loopPc = "notstarted" THEN "select" ELSE loopPc   \* initialize(): go s.flushLoop()
  /\ accepted' = Append(accepted, cur[p])
  /\ mu' = None /\ pc' = [pc EXCEPT ![p] = "idle"]
  /\ ret' = [ret EXCEPT ![p] = "written"]
  /\ Rec(p, "WBody", Len(cur[p]))
  /\ UNCHANGED <<stopped, tickerStopped, tickCh, stopClosed, doneClosed, panicked, loopMark, loopAck,
                 nops, cur, ticks, callMark>>

WBody(p) == pc[p] = "w_body" /\ WBodyEff(p)

\* writer.Flush() if initialized, then WS.Sync()
DoSync == /\ sink' = LET f == IF inited THEN Flush(buf, sink) ELSE sink
                     IN IF SyncCallsWS THEN Append(f, SYNC) ELSE f
          /\ buf' = IF inited THEN <<>> ELSE buf

YBodyEff(p) ==
  /\ DoSync /\ mu' = None
  /\ pc' = [pc EXCEPT ![p] = "idle"] /\ ret' = [ret EXCEPT ![p] = "synced"]
  /\ Rec(p, "YBody", 0)
  /\ UNCHANGED <<inited, stopped, tickerStopped, tickCh, stopClosed, doneClosed, panicked, loopPc, loopMark,
                 loopAck, nops, cur, accepted, ticks, callMark>>

YBody(p) == pc[p] = "y_body" /\ YBodyEff(p)

\* ---- Stop
SBodyEff(p) ==
  /\ IF ~inited \/ (stopped /\ StopOnce)
     THEN /\ mu' = None /\ pc' = [pc EXCEPT ![p] = "idle"]
          /\ ret' = [ret EXCEPT ![p] = IF ~inited THEN "noinit" ELSE "already"]
          /\ UNCHANGED <<stopped, tickerStopped, stopClosed, panicked>>
     ELSE /\ stopped' = TRUE /\ tickerStopped' = TRUE /\ stopClosed' = TRUE
          /\ panicked' = stopClosed             \* close of a closed channel
          /\ mu' = IF StopWaitsUnderLock THEN p ELSE None
          /\ pc' = [pc EXCEPT ![p] = "s_wait"] /\ UNCHANGED ret
  /\ Rec(p, "SBody", 0)
  /\ UNCHANGED <<inited, buf, sink, tickCh, doneClosed, loopPc, loopMark, loopAck, nops, cur, accepted,
                 ticks, callMark>>

SBody(p) == pc[p] = "s_body" /\ SBodyEff(p)

SWait(p) ==
  /\ pc[p] = "s_wait" /\ doneClosed
  /\ mu' = IF StopWaitsUnderLock THEN None ELSE mu
  /\ pc' = [pc EXCEPT ![p] = "s_sync_lock"]
  /\ Rec(p, "SWait", 0)
  /\ UNCHANGED <<inited, stopped, tickerStopped, buf, sink, tickCh, stopClosed, doneClosed, panicked, loopPc,
                 loopMark, loopAck, nops, cur, accepted, ticks, callMark, ret>>

SSyncBodyEff(p) ==
  /\ DoSync /\ mu' = None
  /\ pc' = [pc EXCEPT ![p] = "idle"] /\ ret' = [ret EXCEPT ![p] = "stopped"]
  /\ Rec(p, "SSyncBody", 0)
  /\ UNCHANGED <<inited, stopped, tickerStopped, tickCh, stopClosed, doneClosed, panicked, loopPc, loopMark,
                 loopAck, nops, cur, accepted, ticks, callMark>>

SSyncBody(p) == pc[p] = "s_sync_body" /\ SSyncBodyEff(p)

\* ---- ticker and flush loop
Tick ==
  /\ inited /\ ~tickerStopped /\ ticks < MaxTicks /\ tickCh = 0 /\ ~panicked
  /\ (SeqMode => \A q \in Clients : pc[q] = "idle") /\ (SeqMode => loopPc = "select")
  /\ tickCh' = 1 /\ ticks' = ticks + 1
  /\ Rec(LOOP, "Tick", 0)
  /\ UNCHANGED <<mu, inited, stopped, tickerStopped, buf, sink, stopClosed, doneClosed, panicked, loopPc,
                 loopMark, loopAck, pc, nops, cur, accepted, callMark, ret>>
LoopTick ==
  /\ loopPc = "select" /\ tickCh = 1 /\ tickCh' = 0 /\ loopPc' = "l_lock"
  /\ (Emit => ~stopClosed)   \* generators only: the select's choice between two ready channels cannot be forced in replay
  /\ loopMark' = Len(accepted) /\ loopAck' = FALSE
  /\ Rec(LOOP, "LoopTick", 0)
  /\ UNCHANGED <<mu, inited, stopped, tickerStopped, buf, sink, stopClosed, doneClosed, panicked, pc, nops, cur,
                 accepted, ticks, callMark, ret>>
LoopLock ==
  /\ loopPc = "l_lock" /\ mu = None /\ mu' = LOOP /\ loopPc' = "l_body"
  /\ Rec(LOOP, "LoopLock", 0)
  /\ UNCHANGED <<inited, stopped, tickerStopped, buf, sink, tickCh, stopClosed, doneClosed, panicked, loopMark,
                 loopAck, pc, nops, cur, accepted, ticks, callMark, ret>>
LoopBodyEff ==
  /\ DoSync /\ mu' = None /\ loopPc' = "select" /\ loopAck' = TRUE
  /\ Rec(LOOP, "LoopBody", 0)
  /\ UNCHANGED <<inited, stopped, tickerStopped, tickCh, stopClosed, doneClosed, panicked, loopMark, pc, nops, cur,
                 accepted, ticks, callMark, ret>>
LoopBody == loopPc = "l_body" /\ LoopBodyEff
LoopStop ==
  /\ loopPc = "select" /\ stopClosed /\ loopPc' = "exited" /\ doneClosed' = TRUE
  /\ Rec(LOOP, "LoopStop", 0)
  /\ UNCHANGED <<mu, inited, stopped, tickerStopped, buf, sink, tickCh, stopClosed, panicked, loopMark, loopAck,
                 pc, nops, cur, accepted, ticks, callMark, ret>>

AllDone == \A p \in Clients : pc[p] = "idle" /\ nops[p] = MaxOps(p)
Finished == /\ \A p \in Clients : pc[p] = "idle"
            /\ loopPc \in {"notstarted", "select", "exited"} /\ tickCh = 0
Terminated == ~Emit /\ AllDone /\ UNCHANGED vars

Next == \/ \E p \in Clients : Start(p) \/ Lock(p) \/ WBody(p) \/ YBody(p) \/ SBody(p) \/ SWait(p) \/ SSyncBody(p)
        \/ Tick \/ LoopTick \/ LoopLock \/ LoopBody \/ LoopStop
        \/ Terminated

Fair == /\ \A p \in Clients : WF_vars(Start(p) \/ Lock(p) \/ WBody(p) \/ YBody(p) \/ SBody(p) \/ SWait(p) \/ SSyncBody(p))
        /\ WF_vars(LoopTick \/ LoopLock \/ LoopBody \/ LoopStop)
Spec == Init /\ [][Next]_vars /\ Fair

\* ---------------- properties (C12)
Flat(ss) == FoldLeft(LAMBDA a, c : a \o c, <<>>, ss)
DataChunks(s) == SelectSeq(s, LAMBDA c : c.t = "w")
Data(s) == [i \in 1..Len(DataChunks(s)) |-> DataChunks(s)[i].d]
\* the sink followed by the buffer is exactly the accepted stream: nothing lost, duplicated, reordered
NoLossDupOrder == Flat(Data(sink)) \o buf = Flat(accepted)
HeldBack == Len(buf) <= Size
\* every sink write starts at the first byte of a caller write and ends at the last byte of one
Whole(c) == c.t = "s" \/ (Len(c.d) > 0 /\ c.d[1][3] = 1 /\ c.d[Len(c.d)][3] = c.d[Len(c.d)][4])
WholeWrites == \A i \in 1..Len(sink) : Whole(sink[i])
Prefix(n) == Flat(SubSeq(accepted, 1, n))
SyncedThrough(n) ==
   \E i \in 1..Len(sink) : sink[i].t = "s" /\ IsPrefix(Prefix(n), Flat(Data(SubSeq(sink, 1, i))))
SyncAck == \A p \in Clients : ret[p] = "synced" => SyncedThrough(callMark[p])
StopAck == \A p \in Clients : ret[p] = "stopped" => SyncedThrough(callMark[p])
\* stronger reading (every return of Stop on an initialized syncer): violated by the code, see known finding
StopAckAll == \A p \in Clients : ret[p] \in {"stopped", "already"} => SyncedThrough(callMark[p])
TickAck == loopAck => SyncedThrough(loopMark)
NoLeak == (\E p \in Clients : ret[p] = "stopped") => loopPc = "exited"
NoPanic == ~panicked
\* a crash may happen in any state: the sink must hold a whole-write prefix of the stream
CrashSafe == WholeWrites /\ IsPrefix(Flat(Data(sink)), Flat(accepted))
Termination == <>AllDone

EmitBeh == IF Emit /\ AllDone /\ Finished
           THEN PrintT("@@BEH " \o ToJson([h |-> h, sink |-> sink, buffered |-> Len(buf), ret |-> ret,
                                           exited |-> (loopPc = "exited")]))
           ELSE TRUE
=====================================================================
