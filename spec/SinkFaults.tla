----------------------------- MODULE SinkFaults -----------------------------
(***************************************************************************)
(* Failing destinations (zapcore/entry.go: CheckedEntry.Write; tee.go:     *)
(* multiCore.Write; core.go: ioCore.Write).                                *)
(*                                                                         *)
(* A logger over a tee of NCores IO cores logs a sequence of entries; a    *)
(* script says, per entry and core, whether that core's sink accepts the   *)
(* write or fails it.  One entry = one pass of the loop over the accepting *)
(* cores (every core is written whatever the earlier ones returned, the    *)
(* errors are accumulated), then ONE report on the error output if any     *)
(* core failed, then the terminal action (Panic / Fatal entries), then the *)
(* call returns.                                                           *)
(*                                                                         *)
(* C10: every healthy destination receives every entry, every failure is   *)
(* reported on the error output (also for entries after which control is   *)
(* lost), and the call returns normally.                                   *)
(***************************************************************************)
EXTENDS Integers, Sequences, FiniteSets, TLC, Json

CONSTANTS NCores, NEntries,
          SyncLoop,   \* "all" = code (multiCore.Sync reaches every core whatever the earlier ones return); "break" = spec mutant
          Loop,       \* "all" = code; "break" = spec mutant (stop at the first failing core)
          ReportRule, \* "before-hook" = code; "after-hook" = spec mutant (terminal entries lose their report); "never" = spec mutant
          Emit

Cores == 1..NCores
Entries == 1..NEntries
VARIABLES script,    \* [Entries -> [Cores -> {"ok", "err"}]]
          term,      \* [Entries -> BOOLEAN]: the entry is a Panic/Fatal entry
          syncScript,   \* [Cores -> {"ok", "err"}]: outcome of each core's Sync in the final Logger.Sync
          synced,       \* cores whose Sync was called
          e, j, pc, errs, got, reports, lost
vars == <<script, term, syncScript, synced, e, j, pc, errs, got, reports, lost>>

Init == /\ script \in [Entries -> [Cores -> {"ok", "err"}]]
        /\ term \in [Entries -> BOOLEAN]
        /\ syncScript \in [Cores -> {"ok", "err"}] /\ synced = {}
        /\ e = 1 /\ j = 1 /\ pc = "write" /\ errs = {}
        /\ got = [c \in Cores |-> <<>>]        \* entries the sink of core c accepted
        /\ reports = <<>>                      \* one record per report: [entry, cores]
        /\ lost = {}                           \* entries after which control was lost (terminal action ran)

WriteCore == /\ pc = "write" /\ e <= NEntries
             /\ IF script[e][j] = "ok"
                THEN got' = [got EXCEPT ![j] = Append(@, e)] /\ UNCHANGED errs
                ELSE errs' = errs \cup {j} /\ UNCHANGED got
             /\ IF j < NCores /\ ~(Loop = "break" /\ script[e][j] = "err")
                THEN j' = j + 1 /\ pc' = "write" ELSE j' = j /\ pc' = "report"
             /\ UNCHANGED <<script, term, e, reports, lost>>
Report == /\ pc = "report"
          /\ reports' = IF errs # {} /\ ReportRule = "before-hook" THEN Append(reports, [entry |-> e, cores |-> errs]) ELSE reports
          /\ pc' = "hook"
          /\ UNCHANGED <<script, term, e, j, errs, got, lost>>
\* the terminal action unwinds the call: nothing after it in CheckedEntry.Write runs
Hook == /\ pc = "hook"
        /\ lost' = IF term[e] THEN lost \cup {e} ELSE lost
        /\ reports' = IF errs # {} /\ ReportRule = "after-hook" /\ ~term[e] THEN Append(reports, [entry |-> e, cores |-> errs]) ELSE reports
        /\ e' = e + 1 /\ j' = 1 /\ errs' = {} /\ pc' = "write"
        /\ UNCHANGED <<script, term, got>>
\* Logger.Sync after the last entry: the tee asks every core to sync and combines the errors
SyncCore == /\ pc = "write" /\ e > NEntries /\ j <= NCores
            /\ synced' = synced \cup {j}
            /\ j' = IF SyncLoop = "break" /\ syncScript[j] = "err" THEN NCores + 1 ELSE j + 1
            /\ UNCHANGED <<script, term, syncScript, e, pc, errs, got, reports, lost>>
Next == (/\ (WriteCore \/ Report \/ Hook) /\ UNCHANGED <<syncScript, synced>>) \/ SyncCore
Spec == Init /\ [][Next]_vars

Done == e > NEntries /\ j > NCores
SyncReachesAll == Done => synced = Cores
Failing(x) == {c \in Cores : script[x][c] = "err"}
\* every healthy destination has every entry, in order
HealthyGetAll == Done => \A c \in Cores : got[c] = SelectSeq([x \in Entries |-> x], LAMBDA x : script[x][c] = "ok")
\* exactly one report per entry with a failure, naming every failing core
Reported == Done => reports = SelectSeq([x \in Entries |-> [entry |-> x, cores |-> Failing(x)]], LAMBDA r : r.cores # {})
RECURSIVE SetToSeq(_)
SetToSeq(S) == IF S = {} THEN <<>> ELSE LET x == CHOOSE y \in S : \A z \in S : y <= z IN <<x>> \o SetToSeq(S \ {x})
EmitBeh == IF Emit /\ Done
           THEN PrintT("@@BEH " \o ToJson([script |-> script, term |-> term, syncScript |-> syncScript, got |-> got,
                                            reports |-> [i \in 1..Len(reports) |-> [entry |-> reports[i].entry, cores |-> SetToSeq(reports[i].cores)]]]))
           ELSE TRUE
=============================================================================
