------------------------------ MODULE SinkURL ------------------------------
(***************************************************************************)
(* File-URL validation (sink.go: newSink / newFileSinkFromURL) and scheme /*)
(* encoder-name registration (sink.go: RegisterSink / normalizeScheme,     *)
(* encoder.go: RegisterEncoder) as case analyses; one-step behaviours.     *)
(***************************************************************************)
EXTENDS Integers, Sequences, TLC, Json

\* ---- file URL component classes
Schemes == {"none", "file", "FILE", "File"}
Users == {"none", "user", "user-pw", "pw-only", "empty-at"}
Hosts == {"empty", "localhost", "other"}
Ports == {"none", "port"}
Queries == {"none", "query"}
Frags == {"none", "frag"}
\* the path itself: plain; with a ".." that follows a symbolic link to a directory (the file system, not string
\* surgery, decides what that means); a relative "./stdout" (a file in the current directory, not the process stream)
\* escaped-*: percent escapes in the URL's path that a URL encoder would not produce itself (an escaped letter, an
\* escaped slash, lower-case hex): the path opened is the decoded one
Paths == {"plain", "dotdot-after-symlink", "dot-slash-stdout", "escaped-letter", "escaped-slash", "escaped-lowerhex", "escaped-space"}
URLs == [scheme : Schemes, user : Users, host : Hosts, port : Ports, query : Queries, frag : Frags, path : Paths]
\* a URL with user info or a port needs an authority, which needs a host or "//"; all combinations are
\* expressible as text except: scheme "none" with an authority is written "//host/path"

\* ---- registry name classes
SchemeNames == {"empty", "digit-first", "bad-char", "non-ascii", "fresh", "fresh-upper", "fresh-plus-dot-dash",
                "taken-same-case", "taken-other-case", "taken-file", "taken-FILE"}
EncoderNames == {"empty", "fresh", "taken-json", "taken-console", "taken-custom"}

VARIABLES kind, url, name, verdict
vars == <<kind, url, name, verdict>>
AnyURL == [scheme |-> "none", user |-> "none", host |-> "empty", port |-> "none", query |-> "none", frag |-> "none", path |-> "plain"]
Init == /\ kind \in {"url", "scheme", "encoder"}
        /\ url \in (IF kind = "url" THEN URLs ELSE {AnyURL})
        /\ name \in (CASE kind = "scheme" -> SchemeNames [] kind = "encoder" -> EncoderNames [] OTHER -> {"empty"})
        /\ verdict = "none"

\* the code's sequence of tests
CodeURL(u) == IF u.user # "none" THEN "reject"
              ELSE IF u.frag # "none" THEN "reject"
              ELSE IF u.query # "none" THEN "reject"
              ELSE IF u.port # "none" THEN "reject"
              ELSE IF u.host = "other" THEN "reject"
              ELSE "open-path"
CodeScheme(n) == IF n = "empty" THEN "reject"
                 ELSE IF n \in {"digit-first", "bad-char", "non-ascii"} THEN "reject"
                 ELSE IF n \in {"taken-same-case", "taken-other-case", "taken-file", "taken-FILE"} THEN "reject"
                 ELSE "register"
CodeEncoder(n) == IF n = "empty" THEN "reject" ELSE IF n = "fresh" THEN "register" ELSE "reject"
Decide == /\ verdict = "none"
          /\ verdict' = CASE kind = "url" -> CodeURL(url) [] kind = "scheme" -> CodeScheme(name) [] OTHER -> CodeEncoder(name)
          /\ UNCHANGED <<kind, url, name>>
Spec == Init /\ [][Decide]_vars

\* ---- C19 reference
RefURL(u) == IF u.user = "none" /\ u.port = "none" /\ u.query = "none" /\ u.frag = "none" /\ u.host \in {"empty", "localhost"}
             THEN "open-path" ELSE "reject"
URLRule == (verdict # "none" /\ kind = "url") => verdict = RefURL(url)
NameRule == (verdict # "none" /\ kind # "url") =>
               (verdict = "register" <=> name \in {"fresh", "fresh-upper", "fresh-plus-dot-dash"})
EmitBeh == IF verdict # "none" THEN PrintT("@@BEH " \o ToJson([kind |-> kind, url |-> url, name |-> name, verdict |-> verdict])) ELSE TRUE
=============================================================================
