------------------------------ MODULE LazyOnce ------------------------------
(***************************************************************************)
(* First use of a WithLazy core by several goroutines (lazy_with.go:       *)
(* initOnce = sync.Once around  d.core = d.originalCore.With(d.fields)).   *)
(* A use is: Enabled pre-check on originalCore (no init), then initOnce,   *)
(* then d.core.Check / Write.  Evaluating the fields (With) is a long step *)
(* during which other goroutines may arrive.                               *)
(*                                                                         *)
(* OnceKind = "once" is the code: late arrivals block until the first      *)
(* evaluation has finished.  "flag-after" (check flag, evaluate, set flag) *)
(* and "cas-before" (CAS the flag, then evaluate) are spec mutants: the    *)
(* first evaluates twice, the second lets a late arrival use a nil core.   *)
(* C07: lazy fields are evaluated exactly once, at first use; C09: no use  *)
(* of the core before it exists.                                           *)
(***************************************************************************)
EXTENDS Integers, Sequences, FiniteSets, TLC, Json

CONSTANTS Procs, OnceKind, Emit
VARIABLES pc, once, evals, core, nilUse, sched
vars == <<pc, once, evals, core, nilUse, sched>>

Init == /\ pc = [p \in Procs |-> "start"] /\ once = "idle" /\ evals = 0 /\ core = "nil" /\ nilUse = FALSE /\ sched = <<>>
Rec(p, a) == sched' = Append(sched, <<p, a>>)

\* arrive at initOnce
Arrive(p) ==
  /\ pc[p] = "start"
  /\ CASE OnceKind = "once" ->
            IF once = "idle" THEN once' = "running" /\ pc' = [pc EXCEPT ![p] = "eval"]
            ELSE IF once = "done" THEN UNCHANGED once /\ pc' = [pc EXCEPT ![p] = "use"]
            ELSE UNCHANGED once /\ pc' = [pc EXCEPT ![p] = "blocked"]
       [] OnceKind = "flag-after" ->
            IF once = "done" THEN UNCHANGED once /\ pc' = [pc EXCEPT ![p] = "use"]
            ELSE UNCHANGED once /\ pc' = [pc EXCEPT ![p] = "eval"]
       [] OnceKind = "cas-before" ->
            IF once = "idle" THEN once' = "done" /\ pc' = [pc EXCEPT ![p] = "eval"]
            ELSE UNCHANGED once /\ pc' = [pc EXCEPT ![p] = "use"]
  /\ UNCHANGED <<evals, core, nilUse>> /\ Rec(p, "arrive")
\* the evaluation itself: originalCore.With(fields)
Eval(p) == /\ pc[p] = "eval" /\ evals' = evals + 1 /\ core' = "built"
           /\ once' = IF OnceKind = "cas-before" THEN once ELSE "done"
           /\ pc' = [pc EXCEPT ![p] = "use"]
           /\ UNCHANGED nilUse /\ Rec(p, "eval")
Unblock(p) == /\ pc[p] = "blocked" /\ once = "done" /\ pc' = [pc EXCEPT ![p] = "use"]
              /\ UNCHANGED <<once, evals, core, nilUse>> /\ Rec(p, "unblock")
Use(p) == /\ pc[p] = "use" /\ pc' = [pc EXCEPT ![p] = "done"]
          /\ nilUse' = (nilUse \/ core = "nil")
          /\ UNCHANGED <<once, evals, core>> /\ Rec(p, "use")
Next == \E p \in Procs : Arrive(p) \/ Eval(p) \/ Unblock(p) \/ Use(p)
Spec == Init /\ [][Next]_vars /\ WF_vars(Next)
View == <<pc, once, evals, core, nilUse>>

EvaluatedOnce == evals <= 1
NoNilUse == ~nilUse
AllDone == \A p \in Procs : pc[p] = "done"
Terminates == <>AllDone
EmitBeh == IF Emit /\ AllDone THEN PrintT("@@BEH " \o ToJson([sched |-> sched])) ELSE TRUE
=============================================================================
