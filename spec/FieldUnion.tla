----------------------------- MODULE FieldUnion -----------------------------
(***************************************************************************)
(* zap.Field as a tagged union (field.go, zapcore/field.go).               *)
(*                                                                         *)
(* Three case analyses of the code, transcribed:                           *)
(*  Pack    typed constructor -> Field{Type, Integer, Interface}: every    *)
(*          numeric value travels through the one int64 slot (sign- or     *)
(*          zero-extended, float bits reinterpreted, bool as 0/1); a time  *)
(*          inside the int64-nanosecond range travels as UnixNano + its    *)
(*          location, outside it as the time.Time itself; nil pointers     *)
(*          become Reflect(nil), nil errors Skip;                          *)
(*  Unpack  Field.AddTo: the slot is truncated back to the field's type    *)
(*          and handed to the matching encoder method;                     *)
(*  Any     the type switch: marshaler interfaces first, then the concrete *)
(*          scalar / pointer / slice types, then error, Stringer, Reflect. *)
(* plus Equals over (type, payload comparability, NaN-ness).               *)
(*                                                                         *)
(* Widths are scaled down (64 -> 6 bits, 32 -> 4, 16 -> 3, 8 -> 2) so that *)
(* TLC can enumerate every value; extension and truncation are real        *)
(* operations on those words.  C03: Unpack(Pack(c, v)) delivers v by the   *)
(* method of c's type; Any(T) = the typed constructor of T; Equals is      *)
(* total, reflexive and symmetric on fields built from equal inputs.       *)
(***************************************************************************)
EXTENDS Integers, Sequences, FiniteSets, TLC, Json

CONSTANTS Trunc32,     \* "code" | "as16" (spec mutant: 32-bit fields truncated like 16-bit ones in AddTo)
          U64Path,     \* "code" | "signed" (spec mutant: uint64 unpacked without reinterpreting the sign bit)
          TimeRange,   \* "code" | "wide" (spec mutant: one instant beyond the int64 range still packed as nanoseconds)
          AnyOrder,    \* "code" | "errorFirst" (spec mutant: error tested before the marshaler interfaces)
          EqualsImpl,  \* "deep" = code (DeepEqual for interface payloads that may be uncomparable); "prefix" = pre-fix (==)
          NilPtr,      \* "code" | "zero" (spec mutant: nil pointer rendered as the zero value)
          ZoneKey,     \* "pointer" = code (a Time field carries the *time.Location it was given); "name" = spec mutant (locations interned by name)
          SliceUse,    \* "read" = code (a slice argument is only read); "compact" = spec mutant (no-op members squeezed out in place)
          Emit

W == [w64 |-> 6, w32 |-> 4, w16 |-> 3, w8 |-> 2]
RECURSIVE Pow2(_)
Pow2(n) == IF n = 0 THEN 1 ELSE 2 * Pow2(n - 1)
SMin(b) == -Pow2(b - 1)
SMax(b) == Pow2(b - 1) - 1
UMax(b) == Pow2(b) - 1
\* two's complement reinterpretation of x in b bits
ToSigned(x, b) == LET m == x % Pow2(b) IN IF m >= Pow2(b - 1) THEN m - Pow2(b) ELSE m
ToUnsigned(x, b) == x % Pow2(b)

\* ---- integer-slot constructors -------------------------------------------
\* name, width key, signedness, encoder method
IntCtors == {
  [n |-> "Int64", w |-> "w64", s |-> TRUE, m |-> "AddInt64"], [n |-> "Int", w |-> "w64", s |-> TRUE, m |-> "AddInt64"],
  [n |-> "Int32", w |-> "w32", s |-> TRUE, m |-> "AddInt32"], [n |-> "Int16", w |-> "w16", s |-> TRUE, m |-> "AddInt16"],
  [n |-> "Int8", w |-> "w8", s |-> TRUE, m |-> "AddInt8"],
  [n |-> "Uint64", w |-> "w64", s |-> FALSE, m |-> "AddUint64"], [n |-> "Uint", w |-> "w64", s |-> FALSE, m |-> "AddUint64"],
  [n |-> "Uint32", w |-> "w32", s |-> FALSE, m |-> "AddUint32"], [n |-> "Uint16", w |-> "w16", s |-> FALSE, m |-> "AddUint16"],
  [n |-> "Uint8", w |-> "w8", s |-> FALSE, m |-> "AddUint8"], [n |-> "Uintptr", w |-> "w64", s |-> FALSE, m |-> "AddUintptr"],
  [n |-> "Duration", w |-> "w64", s |-> TRUE, m |-> "AddDuration"],
  [n |-> "Float64", w |-> "w64", s |-> FALSE, m |-> "AddFloat64"],   \* value = its bit pattern
  [n |-> "Float32", w |-> "w32", s |-> FALSE, m |-> "AddFloat32"],
  [n |-> "Bool", w |-> "w8", s |-> FALSE, m |-> "AddBool"] }
Range(c) == IF c.n = "Bool" THEN {0, 1} ELSE IF c.s THEN SMin(W[c.w])..SMax(W[c.w]) ELSE 0..UMax(W[c.w])
\* Pack: the value converted to int64 (the slot): Go's int64(v) - sign-extends signed, zero-extends unsigned, reinterprets 64-bit unsigned
Slot(c, v) == IF c.s THEN v ELSE ToSigned(v, W.w64)
\* Unpack: Go's T(f.Integer)
TruncBits(c) == IF Trunc32 = "as16" /\ c.w = "w32" THEN W.w16 ELSE W[c.w]
Unslot(c, x) == IF c.n = "Bool" THEN (IF x = 1 THEN 1 ELSE 0)
                ELSE IF c.s THEN ToSigned(x, TruncBits(c))
                ELSE IF c.w = "w64" /\ U64Path = "signed" THEN x
                ELSE ToUnsigned(x, TruncBits(c))
RoundTrip == \A c \in IntCtors : \A v \in Range(c) : Unslot(c, Slot(c, v)) = v

\* ---- time ------------------------------------------------------------------
Instants == (SMin(W.w64) - 3)..(SMax(W.w64) + 3)      \* a few instants outside the representable nanosecond range
InRange(t) == IF TimeRange = "code" THEN t >= SMin(W.w64) /\ t <= SMax(W.w64) ELSE t >= SMin(W.w64) /\ t <= SMax(W.w64) + 1
PackTime(t) == IF InRange(t) THEN [type |-> "TimeType", slot |-> ToSigned(t, W.w64), full |-> 0]
               ELSE [type |-> "TimeFullType", slot |-> 0, full |-> t]
UnpackTime(f) == IF f.type = "TimeType" THEN f.slot ELSE f.full
TimeExact == \A t \in Instants : UnpackTime(PackTime(t)) = t
\* the zone travels with the instant. Zones are identified by their rules: two zones may share a name (every
\* numeric offset parsed by time.Parse is unnamed; abbreviations such as EST are ambiguous). z1 is any zone a
\* Time field was built for earlier in the process.
Zones == {[name |-> n, off |-> o] : n \in {"", "EST"}, o \in {-5, 2, 10}}
ZoneDelivered(z1, z2) == IF ZoneKey = "pointer" \/ z1.name # z2.name THEN z2 ELSE z1
ZoneExact == \A z1, z2 \in Zones : ZoneDelivered(z1, z2).off = z2.off
\* a slice handed to a constructor stays the caller's: Dict / Any([]Field) deliver the members that are not
\* no-ops and leave the list as it was ("x" marks a no-op member such as Skip or Error(nil))
Lists == UNION {[1..n -> {"x", "a", "b"}] : n \in 0..3}
Squeeze(l) == SelectSeq(l, LAMBDA m : m # "x")
AfterCall(l) == IF SliceUse = "read" THEN l
                ELSE LET k == Squeeze(l) IN [i \in 1..Len(l) |-> IF i <= Len(k) THEN k[i] ELSE l[i]]
CallerSliceIntact == \A l \in Lists : AfterCall(l) = l

\* ---- nil handling -----------------------------------------------------------
PtrCtors == {"Boolp", "Complex128p", "Complex64p", "Float64p", "Float32p", "Intp", "Int64p", "Int32p", "Int16p", "Int8p", "Stringp",
             "Uintp", "Uint64p", "Uint32p", "Uint16p", "Uint8p", "Uintptrp", "Timep", "Durationp"}
PtrDeliver(isNil) == IF isNil THEN (IF NilPtr = "code" THEN "AddReflected(nil)" ELSE "zero value") ELSE "value of the base constructor"
NilIsNull == PtrDeliver(TRUE) = "AddReflected(nil)"

\* ---- zap.Any ------------------------------------------------------------------
\* a dynamic type is characterised by the interfaces it implements and, if none of the marshalers, its concrete kind
Ifaces == SUBSET {"obj", "arr", "err", "str"}
AnyPick(I, concrete) ==
  IF AnyOrder = "code"
  THEN IF "obj" \in I THEN "Object" ELSE IF "arr" \in I THEN "Array"
       ELSE IF concrete # "other" THEN concrete
       ELSE IF "err" \in I THEN "NamedError" ELSE IF "str" \in I THEN "Stringer" ELSE "Reflect"
  ELSE IF "err" \in I THEN "NamedError" ELSE IF "obj" \in I THEN "Object" ELSE IF "arr" \in I THEN "Array"
       ELSE IF concrete # "other" THEN concrete ELSE IF "str" \in I THEN "Stringer" ELSE "Reflect"
\* documented: marshalers win, then the supported concrete types, then error, then Stringer, else reflection
AnyDoc(I, concrete) == IF "obj" \in I THEN "Object" ELSE IF "arr" \in I THEN "Array" ELSE IF concrete # "other" THEN concrete
                       ELSE IF "err" \in I THEN "NamedError" ELSE IF "str" \in I THEN "Stringer" ELSE "Reflect"
Concretes == {"other", "Duration", "Time", "Binary", "Errors"}   \* named concrete types that also implement Stringer / are slices
AnyAgrees == \A I \in Ifaces : \A k \in Concretes : AnyPick(I, k) = AnyDoc(I, k)

\* ---- Field.Equals ---------------------------------------------------------------
\* payload classes of an interface-carrying field built twice from equal inputs
Payloads == {"comparable", "uncomparable", "pointer"}
EqTypes == {"Stringer", "Inline", "Object", "Array", "Error", "Reflect", "Binary", "String", "Int64", "Float64", "Time", "TimeFull", "Duration", "Namespace", "Skip"}
UsesIface(t) == t \in {"Stringer", "Inline", "Object", "Array", "Error", "Reflect", "TimeFull"}
EqualsResult(t, p) ==
  IF ~UsesIface(t) THEN "true"
  ELSE IF t \in {"Object", "Array", "Error", "Reflect"} \/ (EqualsImpl = "deep" /\ t \in {"Stringer", "Inline"}) THEN "true"    \* reflect.DeepEqual
  ELSE IF p = "uncomparable" THEN "panic" ELSE "true"                                                                        \* ==
\* a time.Time payload is always comparable; user-supplied Stringers / marshalers / errors / reflected values may be anything
PayloadsOf(t) == IF t = "TimeFull" \/ ~UsesIface(t) THEN {"comparable"} ELSE Payloads
EqualsTotal == \A t \in EqTypes : \A p \in PayloadsOf(t) : EqualsResult(t, p) = "true"

VARIABLE done
Init == done = FALSE
Next == done = FALSE /\ done' = TRUE
Spec == Init /\ [][Next]_done

Rows == [ints |-> {[ctor |-> c.n, method |-> c.m] : c \in IntCtors}, ptrs |-> PtrCtors,
         anyTable |-> {[ifaces |-> I, concrete |-> k, ctor |-> AnyDoc(I, k)] : I \in Ifaces, k \in Concretes},
         equals |-> UNION {{[type |-> t, payload |-> p, result |-> EqualsResult(t, p)] : p \in PayloadsOf(t)} : t \in EqTypes}]
EmitBeh == IF Emit /\ done THEN PrintT("@@BEH " \o ToJson(Rows)) ELSE TRUE
=============================================================================
