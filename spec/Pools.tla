-------------------------------- MODULE Pools --------------------------------
(***************************************************************************)
(* Pooled objects behind one log call (zapcore/json_encoder.go: _jsonPool, *)
(* clone / putJSONEncoder / resetReflectBuf; buffer/pool.go; entry.go:     *)
(* _cePool, getCheckedEntry / putCheckedEntry; core.go: ioCore.Write).     *)
(*                                                                         *)
(* Objects have identity.  A pool is a LIFO list of object ids; Get takes  *)
(* the most recently put object or allocates a fresh one (a GC or another  *)
(* P may have emptied the pool); Put appends.  One log call is the script  *)
(*   GetCE  GetEnc  GetBuf  [GetRBuf]  Encode  PutEnc  SinkWrite  FreeBuf  *)
(*   [Hook]  PutCE                                                         *)
(* where PutEnc frees the reflection buffer (if the call used one) and     *)
(* clears the encoder's references, the sink reads the bytes before the    *)
(* buffer is freed, and the after-write hook (Panic / Fatal / custom)      *)
(* reads the CheckedEntry before it is returned.  Several goroutines run   *)
(* such scripts step by step.                                              *)
(*                                                                         *)
(* C08 / C04: no object is held by two calls or held while pooled or       *)
(* pooled twice; the sink sees exactly the bytes its own call encoded; the *)
(* hook sees its own entry.                                                *)
(***************************************************************************)
EXTENDS Integers, Sequences, FiniteSets, TLC, Json

CONSTANTS Procs, MaxOps, MaxOps2, KindSet, MaxObjs, MaxGC, ProjOn,
          SinkOrder,   \* "write-then-free" = code; "free-then-write" = spec mutant
          RBufClear,   \* "clear" = code (putJSONEncoder nils reflectBuf after freeing it); "keep" = spec mutant
          HookOrder,   \* "hook-then-put" = code; "put-then-hook" = spec mutant
          EntryOrder,  \* "write-then-put" = code (the checked entry goes back to its pool after its cores were written); "put-then-write" = spec mutant
          Emit

Kinds == {"plain", "reflect", "hook", "reflect-hook"}     \* does the call use a reflection buffer / an after-write hook
VARIABLES pools,   \* [ce, enc, buf] -> sequence of object ids
          nobj,    \* objects allocated so far
          data,    \* buffer id -> <<proc, opno>> whose bytes it holds (or <<0,0>>)
          ceOf,    \* checked-entry id -> <<proc, opno>> it describes
          encR,    \* encoder id -> its reflectBuf reference (0 = nil)
          gcs,     \* garbage collections so far (a GC empties every pool)
          pc, kind, opno, held,   \* per process: step, kind of the current call, call counter, [ce, enc, buf, rbuf] it holds
          stream,  \* what the (lock-protected) sink received, in order: the <<proc, opno>> whose bytes each line carried
          bad, sched,
          proj     \* the schedule projected onto the steps a harness can force from outside: <<proc, "encode" | "sink">>
vars == <<pools, nobj, data, ceOf, encR, gcs, pc, kind, opno, held, stream, bad, sched, proj>>

None == [ce |-> 0, enc |-> 0, buf |-> 0, rbuf |-> 0]
Init == /\ pools = [ce |-> <<>>, enc |-> <<>>, buf |-> <<>>] /\ nobj = 0
        /\ data = [i \in 1..MaxObjs |-> <<0, 0>>] /\ ceOf = [i \in 1..MaxObjs |-> <<0, 0>>] /\ encR = [i \in 1..MaxObjs |-> 0]
        /\ pc = [p \in Procs |-> "idle"] /\ kind = [p \in Procs |-> "plain"] /\ opno = [p \in Procs |-> 0]
        /\ held = [p \in Procs |-> None] /\ bad = "" /\ sched = <<>> /\ gcs = 0 /\ stream = <<>> /\ proj = <<>>

Rec(p, a) == sched' = Append(sched, <<p, a>>)
HeldBy(o, slot) == {p \in Procs : held[p][slot] = o}
\* every reference some call currently holds to buffer o (as line buffer or reflection buffer)
BufHolders(o) == {p \in Procs : held[p].buf = o \/ held[p].rbuf = o}
InPool(pl, o) == \E i \in 1..Len(pools[pl]) : pools[pl][i] = o

\* Get from a pool: reuse the last put object, or allocate
GetReuse(pl) == Len(pools[pl]) > 0
OpsOf(p) == IF p = 1 THEN MaxOps ELSE MaxOps2
Start(p, k) == /\ pc[p] = "idle" /\ opno[p] < OpsOf(p)
               /\ kind' = [kind EXCEPT ![p] = k] /\ opno' = [opno EXCEPT ![p] = @ + 1] /\ pc' = [pc EXCEPT ![p] = "getce"]
               /\ UNCHANGED <<pools, nobj, data, ceOf, encR, held, bad>> /\ Rec(p, "start:" \o k)
Me(p) == <<p, opno[p]>>
\* generic Get step: slot, pool, next pc
Get(p, from, slot, pl, next, fresh) ==
  /\ pc[p] = from
  /\ fresh = ~GetReuse(pl)
  /\ IF fresh
     THEN /\ nobj < MaxObjs /\ nobj' = nobj + 1 /\ UNCHANGED pools
          /\ held' = [held EXCEPT ![p][slot] = nobj + 1]
     ELSE /\ pools' = [pools EXCEPT ![pl] = SubSeq(@, 1, Len(@) - 1)] /\ UNCHANGED nobj
          /\ held' = [held EXCEPT ![p][slot] = pools[pl][Len(pools[pl])]]
  /\ pc' = [pc EXCEPT ![p] = next]
GetCE(p, fresh) == /\ Get(p, "getce", "ce", "ce", IF EntryOrder = "write-then-put" THEN "getenc" ELSE "earlyput", fresh)
                   /\ ceOf' = [ceOf EXCEPT ![held'[p].ce] = Me(p)]           \* reset + Entry = ent
                   /\ UNCHANGED <<data, encR, kind, opno, bad>> /\ Rec(p, IF fresh THEN "getce:new" ELSE "getce")
\* mutant order: the entry is handed back before the loop over its cores; the call keeps using its (stale) reference
EarlyPut(p) == /\ pc[p] = "earlyput" /\ pools' = [pools EXCEPT !.ce = Append(@, held[p].ce)]
               /\ pc' = [pc EXCEPT ![p] = "getenc"]
               /\ UNCHANGED <<nobj, data, ceOf, encR, kind, opno, held, bad>> /\ Rec(p, "earlyput")
GetEnc(p, fresh) == /\ Get(p, "getenc", "enc", "enc", "getbuf", fresh)
                    /\ UNCHANGED <<data, ceOf, encR, kind, opno, bad>> /\ Rec(p, IF fresh THEN "getenc:new" ELSE "getenc")
GetBuf(p, fresh) == /\ Get(p, "getbuf", "buf", "buf", IF kind[p] \in {"reflect", "reflect-hook"} THEN "getrbuf" ELSE "encode", fresh)
                    /\ data' = [data EXCEPT ![held'[p].buf] = <<0, 0>>]        \* Reset
                    /\ UNCHANGED <<ceOf, encR, kind, opno, bad>> /\ Rec(p, IF fresh THEN "getbuf:new" ELSE "getbuf")
\* resetReflectBuf: a stale reference left in the pooled encoder is reused as is
GetRBuf(p, fresh) ==
  /\ pc[p] = "getrbuf"
  /\ IF encR[held[p].enc] # 0
     THEN /\ held' = [held EXCEPT ![p].rbuf = encR[held[p].enc]] /\ pc' = [pc EXCEPT ![p] = "encode"]
          /\ UNCHANGED <<pools, nobj>> /\ ~fresh
     ELSE Get(p, "getrbuf", "rbuf", "buf", "encode", fresh)
  /\ encR' = [encR EXCEPT ![held[p].enc] = held'[p].rbuf]
  /\ UNCHANGED <<data, ceOf, kind, opno, bad>> /\ Rec(p, IF fresh THEN "getrbuf:new" ELSE "getrbuf")
Encode(p) == /\ pc[p] = "encode" /\ pc' = [pc EXCEPT ![p] = "putenc"]
             /\ data' = [data EXCEPT ![held[p].buf] = Me(p)]
             /\ UNCHANGED <<pools, nobj, ceOf, encR, kind, opno, held, bad>> /\ Rec(p, "encode")
PutEnc(p) == /\ pc[p] = "putenc"
             /\ pools' = [pools EXCEPT !.enc = Append(@, held[p].enc),
                                       !.buf = IF held[p].rbuf # 0 THEN Append(@, held[p].rbuf) ELSE @]
             /\ encR' = IF RBufClear = "clear" THEN [encR EXCEPT ![held[p].enc] = 0] ELSE encR
             /\ held' = [held EXCEPT ![p].enc = 0, ![p].rbuf = 0]
             /\ pc' = [pc EXCEPT ![p] = IF SinkOrder = "write-then-free" THEN "sink" ELSE "free"]
             /\ UNCHANGED <<nobj, data, ceOf, kind, opno, bad>> /\ Rec(p, "putenc")
Sink(p) == /\ pc[p] = "sink"
           /\ stream' = Append(stream, data[held[p].buf])
           /\ bad' = IF bad = "" /\ data[held[p].buf] # Me(p) /\ held[p].buf # 0 THEN "sink saw foreign bytes"
                     ELSE IF bad = "" /\ ceOf[held[p].ce] # Me(p) THEN "entry written through another call's checked entry (its cores)" ELSE bad
           /\ pc' = [pc EXCEPT ![p] = IF SinkOrder = "write-then-free" THEN "free" ELSE (IF kind[p] \in {"hook", "reflect-hook"} /\ HookOrder = "hook-then-put" THEN "hook" ELSE "putce")]
           /\ UNCHANGED <<pools, nobj, data, ceOf, encR, kind, opno, held>> /\ Rec(p, "sink")
\* in the mutant order the buffer is freed but the stale reference is still used by the sink step
Free(p) == /\ pc[p] = "free"
           /\ pools' = [pools EXCEPT !.buf = Append(@, held[p].buf)]
           /\ IF SinkOrder = "write-then-free"
              THEN /\ held' = [held EXCEPT ![p].buf = 0]
                   /\ pc' = [pc EXCEPT ![p] = IF kind[p] \in {"hook", "reflect-hook"} /\ HookOrder = "hook-then-put" THEN "hook" ELSE "putce"]
              ELSE /\ UNCHANGED held /\ pc' = [pc EXCEPT ![p] = "sink"]
           /\ UNCHANGED <<nobj, data, ceOf, encR, kind, opno, bad>> /\ Rec(p, "free")
Hook(p) == /\ pc[p] = "hook"
           /\ bad' = IF bad = "" /\ ceOf[held[p].ce] # Me(p) THEN "hook saw a foreign entry" ELSE bad
           /\ pc' = [pc EXCEPT ![p] = IF HookOrder = "hook-then-put" THEN "putce" ELSE "idle"]
           /\ held' = IF HookOrder = "hook-then-put" THEN held ELSE [held EXCEPT ![p] = None]
           /\ UNCHANGED <<pools, nobj, data, ceOf, encR, kind, opno>> /\ Rec(p, "hook")
PutCE(p) == /\ pc[p] = "putce"
            /\ pools' = IF EntryOrder = "write-then-put" THEN [pools EXCEPT !.ce = Append(@, held[p].ce)] ELSE pools
            /\ IF HookOrder = "put-then-hook" /\ kind[p] \in {"hook", "reflect-hook"}
               THEN /\ pc' = [pc EXCEPT ![p] = "hook"] /\ held' = [held EXCEPT ![p].buf = 0]     \* ce reference kept for the hook
               ELSE /\ pc' = [pc EXCEPT ![p] = "idle"] /\ held' = [held EXCEPT ![p] = None]
            /\ UNCHANGED <<nobj, data, ceOf, encR, kind, opno, bad>> /\ Rec(p, "putce")

\* a garbage collection empties the pools (objects in use are unaffected)
GC == /\ gcs < MaxGC /\ gcs' = gcs + 1 /\ pools' = [ce |-> <<>>, enc |-> <<>>, buf |-> <<>>]
      /\ UNCHANGED <<nobj, data, ceOf, encR, pc, kind, opno, held, bad>> /\ sched' = Append(sched, <<0, "gc">>)
NextStep == \/ GC /\ UNCHANGED stream
        \/ /\ UNCHANGED gcs
           /\ \E p \in Procs :
               \/ Sink(p)
               \/ /\ UNCHANGED stream
                  /\ \/ \E k \in KindSet : Start(p, k)
                     \/ \E f \in BOOLEAN : GetCE(p, f) \/ GetEnc(p, f) \/ GetBuf(p, f) \/ GetRBuf(p, f)
                     \/ Encode(p) \/ PutEnc(p) \/ Free(p) \/ Hook(p) \/ PutCE(p) \/ EarlyPut(p)
Next == /\ NextStep
        /\ proj' = IF Len(sched') > Len(sched) /\ sched'[Len(sched')][2] \in {"encode", "sink"} /\ ProjOn
                   THEN Append(proj, sched'[Len(sched')]) ELSE proj
Spec == Init /\ [][Next]_vars
View == <<pools, nobj, data, ceOf, encR, gcs, pc, kind, opno, held, stream, bad>>

\* ---- C08 / C04 ------------------------------------------------------------
NoForeignData == bad = ""
\* a buffer is never referenced by two calls, nor referenced while it sits in the pool, nor pooled twice
Exclusive == /\ \A o \in 1..nobj : Cardinality(BufHolders(o)) <= 1
             /\ \A o \in 1..nobj : \A pl \in {"ce", "enc", "buf"} :
                  Cardinality({i \in 1..Len(pools[pl]) : pools[pl][i] = o}) <= 1
             /\ \A o \in 1..nobj : (InPool("buf", o) /\ SinkOrder = "write-then-free") => BufHolders(o) = {}
             /\ \A o \in 1..nobj : Cardinality(HeldBy(o, "enc")) <= 1 /\ (InPool("enc", o) => HeldBy(o, "enc") = {})
\* C04: the sink holds one intact line per completed sink write: never a line twice, never a foreign or empty one,
\* each goroutine's lines in the order it logged them; when everything has finished, every call exactly once
StreamSound == /\ \A i, j \in 1..Len(stream) : i < j => stream[i] # stream[j]
               /\ \A i \in 1..Len(stream) : stream[i][1] \in Procs /\ stream[i][2] >= 1 /\ stream[i][2] <= opno[stream[i][1]]
               /\ \A i, j \in 1..Len(stream) : (i < j /\ stream[i][1] = stream[j][1]) => stream[i][2] < stream[j][2]
StreamComplete == (\A p \in Procs : pc[p] = "idle") => \A p \in Procs : \A k \in 1..opno[p] : \E i \in 1..Len(stream) : stream[i] = <<p, k>>
AllIdle == \A p \in Procs : pc[p] = "idle" /\ opno[p] = OpsOf(p)
EmitBeh == IF Emit /\ AllIdle THEN PrintT("@@BEH " \o ToJson([sched |-> IF ProjOn THEN proj ELSE sched])) ELSE TRUE
ProjView == <<View, proj>>
=============================================================================
