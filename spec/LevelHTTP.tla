----------------------------- MODULE LevelHTTP -----------------------------
(***************************************************************************)
(* Level text parsing (zapcore/level.go: UnmarshalText) and AtomicLevel's  *)
(* HTTP handler (http_handler.go: serveHTTP, decodePutRequest,             *)
(* decodePutURL, decodePutJSON), one action per request, following the     *)
(* code's decision sequence: method switch -> content-type switch ->       *)
(* decode -> SetLevel only after a successful decode -> encode response.   *)
(***************************************************************************)
EXTENDS Integers, Sequences, TLC, Json

CONSTANTS Levels,        \* the valid levels modelled (a subset of the seven)
          MaxReqs,
          SetBeforeCheck, \* FALSE = code; TRUE = spec mutant (SetLevel before the decode error is examined)
          QueryFirst,     \* FALSE = code (body wins over query); TRUE = spec mutant
          Emit

\* ---- text classes and what they parse to ("bad" = rejected)
\* exact: "debug"; capital: "DEBUG"; mixed: "dEbUg"; alias: "warning" (only meaningful for warn);
\* empty: "" (reads as info); padded: " debug"; garbage: "verbose"; printed-invalid: "Level(42)"
TextKinds == {"exact", "capital", "mixed", "empty", "padded", "garbage", "printed-invalid"}
Texts == {[kind |-> k, lvl |-> l] : k \in {"exact", "capital", "mixed", "padded"}, l \in Levels}
         \cup {[kind |-> k, lvl |-> "info"] : k \in {"empty", "garbage", "printed-invalid"}}
Parse(t) == CASE t.kind \in {"exact", "capital", "mixed"} -> t.lvl
              [] t.kind = "empty" -> "info"
              [] OTHER -> "bad"

Methods == {"GET", "PUT", "POST", "DELETE", "HEAD", "PATCH"}
CTypes == {"form", "json", "other", "none", "form-with-charset"}
\* body classes
\*  none | form(t): "level=<text>" | formOther: "lvl=debug" | formMalformed: "level=%zz"
\*  json(t): {"level":"<text>"} | jsonNull: {"level":null} | jsonMissing: {} | jsonNumber: {"level":1}
\*  jsonSyntax: {"level": | jsonNotObject: "debug"
\*  jsonCutShort: the body breaks off with a read error inside the document (always a malformed request)
\*  jsonThenError(t): a complete {"level":"<text>"} document, then the connection fails. The request may be
\*     honoured (the document was complete) or rejected (the body could not be read): both are allowed, but
\*     nothing else is - in particular the NEXT request must not be affected.
Bodies == {[k |-> "none", t |-> [kind |-> "empty", lvl |-> "info"]]}
          \cup {[k |-> bk, t |-> t] : bk \in {"form", "json", "jsonThenError"}, t \in Texts}
          \cup {[k |-> bk, t |-> [kind |-> "empty", lvl |-> "info"]] :
                   bk \in {"formOther", "formMalformed", "jsonNull", "jsonMissing", "jsonNumber", "jsonSyntax", "jsonNotObject", "jsonCutShort"}}
Queries == {[k |-> "none", t |-> [kind |-> "empty", lvl |-> "info"]]} \cup {[k |-> "level", t |-> t] : t \in Texts}
Requests == [m : Methods, ct : CTypes, body : Bodies, q : Queries]

VARIABLES level, h, nreq
vars == <<level, h, nreq>>
Init == level \in Levels /\ h = <<>> /\ nreq = 0

\* r.FormValue("level"): the body (when it parses as a form) wins over the query
FormValue(r) ==
  LET fromBody == IF r.body.k = "form" THEN <<TRUE, r.body.t>> ELSE <<FALSE, r.body.t>>
      fromQuery == IF r.q.k = "level" THEN <<TRUE, r.q.t>> ELSE <<FALSE, r.q.t>>
  IN IF QueryFirst THEN (IF fromQuery[1] THEN fromQuery ELSE fromBody)
     ELSE (IF fromBody[1] THEN fromBody ELSE fromQuery)

\* result of decodePutRequest: <<ok, level>>
Decode(r) ==
  IF r.ct = "form"
  THEN LET fv == FormValue(r) IN
       IF ~fv[1] \/ fv[2].kind = "empty" THEN <<FALSE, "bad">>            \* "must specify logging level"
       ELSE IF Parse(fv[2]) = "bad" THEN <<FALSE, "bad">> ELSE <<TRUE, Parse(fv[2])>>
  ELSE \* every other content type: JSON
       IF r.body.k \in {"json", "jsonThenError"} /\ Parse(r.body.t) # "bad" THEN <<TRUE, Parse(r.body.t)>>
       ELSE <<FALSE, "bad">>
\* the outcomes the handler may choose between (one, except after a read error behind a complete document)
Decodes(r) == IF r.ct # "form" /\ r.body.k = "jsonThenError" THEN {Decode(r), <<FALSE, "bad">>} ELSE {Decode(r)}

Serve ==
  /\ nreq < MaxReqs
  /\ \E r \in Requests : \E d \in Decodes(r) :
       LET dd == d
           newLevel == IF r.m = "PUT" /\ (d[1] \/ (SetBeforeCheck /\ d[2] # "bad")) THEN d[2]
                       ELSE IF r.m = "PUT" /\ SetBeforeCheck /\ ~d[1] THEN "debug" ELSE level
           status == CASE r.m = "GET" -> 200
                       [] r.m = "PUT" -> IF d[1] THEN 200 ELSE 400
                       [] OTHER -> 405
       IN /\ level' = IF newLevel \in Levels THEN newLevel ELSE level
          /\ h' = Append(h, [req |-> r, status |-> status, before |-> level, after |-> level',
                             reported |-> IF status = 200 THEN level' ELSE "none"])
  /\ nreq' = nreq + 1
Spec == Init /\ [][Serve]_vars

\* ---- C20: what a request may do
\* the valid level a request names, if any - stated from the documentation, not from Decode:
\* form content type: "level" from the body, else from the query; anything else: a JSON object {"level": "<text>"}
RefText(r) == IF r.ct = "form"
              THEN (IF r.body.k = "form" THEN <<TRUE, r.body.t>>
                    ELSE IF r.q.k = "level" THEN <<TRUE, r.q.t>> ELSE <<FALSE, r.q.t>>)
              ELSE (IF r.body.k \in {"json", "jsonThenError"} THEN <<TRUE, r.body.t>> ELSE <<FALSE, r.body.t>>)
Names(r) == IF r.m # "PUT" \/ ~RefText(r)[1] THEN "bad"
            ELSE IF r.ct = "form" /\ RefText(r)[2].kind = "empty" THEN "bad"    \* level= with no value
            ELSE Parse(RefText(r)[2])
Last == h[Len(h)]
\* a request whose body failed behind a complete document may be honoured or refused
MayRefuse(r) == r.ct # "form" /\ r.body.k = "jsonThenError"
ChangeOnlyByValidPut == Len(h) > 0 =>
    /\ (Last.after # Last.before => Last.req.m = "PUT" /\ Names(Last.req) = Last.after)
    /\ (Last.req.m = "PUT" /\ Names(Last.req) # "bad" /\ ~MayRefuse(Last.req) => Last.after = Names(Last.req) /\ Last.status = 200)
    /\ (Last.req.m = "PUT" /\ Names(Last.req) # "bad" /\ MayRefuse(Last.req) =>
            \/ Last.after = Names(Last.req) /\ Last.status = 200
            \/ Last.after = Last.before /\ Last.status >= 400 /\ Last.status < 500)
ErrorsAre4xx == Len(h) > 0 =>
    /\ (Last.req.m \notin {"GET", "PUT"} => Last.status >= 400 /\ Last.status < 500 /\ Last.after = Last.before)
    /\ (Last.req.m = "PUT" /\ Names(Last.req) = "bad" => Last.status >= 400 /\ Last.status < 500 /\ Last.after = Last.before)
ReportsLevelInForce == Len(h) > 0 => (Last.status = 200 => Last.reported = Last.after)

View == <<level, nreq, IF Len(h) > 0 THEN Last ELSE 0>>
EmitBeh == IF Emit /\ nreq = MaxReqs THEN PrintT("@@BEH " \o ToJson(h)) ELSE TRUE
=============================================================================
