---------------------------- MODULE BWSTrace ----------------------------
(***************************************************************************)
(* Trace validation for BufferedWriteSyncer: decides whether an event log  *)
(* recorded from the real code (verif hooks, emitted while s.mu is held,   *)
(* plus the recording sink's own events) is a behaviour of BWS.tla.  Every *)
(* BWS invariant is evaluated in every state of the matched behaviour.     *)
(*                                                                         *)
(* One hook event = one critical section, so "Lock" and the body effect    *)
(* are composed by hand (TLC has no action composition).  The sink's       *)
(* Write/Sync calls are logged before the body event of the critical       *)
(* section that made them; they are collected in `pend` and must equal, in *)
(* number, order and length, what the spec action appends to `sink`.       *)
(***************************************************************************)
EXTENDS BWS

Trace == ndJsonDeserialize("trace.ndjson")

VARIABLES l,     \* next trace line
          pend   \* lengths of sink calls seen since the last body event (-1 = Sync)

tvars == <<vars, l, pend>>

TraceInit == Init /\ l = 1 /\ pend = <<>> /\ TLCSet(1, 0)

Ev == Trace[l]
IsEvent(e) == l <= Len(Trace) /\ Trace[l].ev = e /\ l' = l + 1

ItemLen(it) == IF it.t = "s" THEN -1 ELSE Len(it.d)
NewItems == SubSeq(sink', Len(sink) + 1, Len(sink'))
SinkMatches == /\ Len(NewItems) = Len(pend)
               /\ \A i \in 1..Len(pend) : ItemLen(NewItems[i]) = pend[i]

TStart ==
  /\ IsEvent("start") /\ Ev.p \in Clients
  /\ Start(Ev.p)
  /\ pc'[Ev.p] = (CASE Ev.op = "W" -> "w_lock" [] Ev.op = "Y" -> "y_lock" [] OTHER -> "s_lock")
  /\ (Ev.op = "W" => Len(cur'[Ev.p]) = Ev.n)
  /\ UNCHANGED pend

TSink ==
  /\ \/ IsEvent("sink.w") /\ pend' = Append(pend, Ev.n)
     \/ IsEvent("sink.s") /\ pend' = Append(pend, -1)
  /\ UNCHANGED vars

TWBody ==
  /\ IsEvent("bws.w.body") /\ Ev.p \in Clients
  /\ pc[Ev.p] = "w_lock" /\ mu = None
  /\ WBodyEff(Ev.p)
  /\ Len(buf') = Ev.b            \* logged Buffered()
  /\ SinkMatches /\ pend' = <<>>

TYBody ==
  /\ IsEvent("bws.y.body")
  /\ mu = None
  /\ \/ Ev.p \in Clients /\ pc[Ev.p] = "y_lock" /\ YBodyEff(Ev.p)
     \/ Ev.p \in Clients /\ pc[Ev.p] = "s_sync_lock" /\ SSyncBodyEff(Ev.p)
     \/ Ev.p = LOOP /\ loopPc = "l_lock" /\ LoopBodyEff
        /\ UNCHANGED <<inited, stopped, tickerStopped, tickCh, stopClosed, doneClosed, panicked, loopMark, pc, nops, cur,
                       accepted, ticks, callMark, ret>> /\ h' = h
  /\ SinkMatches /\ pend' = <<>>

TSBody ==
  /\ IsEvent("bws.s.body") /\ Ev.p \in Clients
  /\ pc[Ev.p] = "s_lock" /\ mu = None
  /\ SBodyEff(Ev.p)
  /\ pend = <<>> /\ UNCHANGED pend

TSWoke ==
  /\ IsEvent("bws.s.woke") /\ Ev.p \in Clients
  /\ SWait(Ev.p) /\ UNCHANGED pend

\* the ticker is unlogged: a tick is delivered and consumed in one step
TLoopTick ==
  /\ IsEvent("bws.l.tick")
  \* initialize() starts the loop inside the first Write's critical section, so the loop can take a
  \* tick before that Write's (end-of-section) event is logged; it cannot do anything with it before
  \* the Write releases mu.
  /\ (loopPc = "select" \/ (loopPc = "notstarted" /\ \E p \in Clients : pc[p] = "w_lock"))
  /\ loopPc' = "l_lock" /\ loopMark' = Len(accepted) /\ loopAck' = FALSE
  /\ UNCHANGED <<mu, inited, stopped, tickerStopped, buf, sink, tickCh, stopClosed, doneClosed, panicked, pc, nops, cur,
                 accepted, ticks, callMark, ret, h, pend>>

TLoopStop == IsEvent("bws.l.stop") /\ LoopStop /\ UNCHANGED pend

\* separator between concatenated traces: back to the initial state
TReset ==
  /\ IsEvent("reset")
  /\ mu' = None /\ inited' = FALSE /\ stopped' = FALSE /\ tickerStopped' = FALSE
  /\ buf' = <<>> /\ sink' = <<>> /\ tickCh' = 0 /\ stopClosed' = FALSE /\ doneClosed' = FALSE
  /\ panicked' = FALSE
  /\ loopPc' = "notstarted" /\ loopMark' = 0 /\ loopAck' = FALSE
  /\ pc' = [p \in Clients |-> "idle"]
  /\ nops' = [p \in Clients |-> 0]
  /\ cur' = [p \in Clients |-> <<>>]
  /\ accepted' = <<>> /\ ticks' = 0
  /\ callMark' = [p \in Clients |-> 0]
  /\ ret' = [p \in Clients |-> "none"]
  /\ h' = <<>> /\ pend' = <<>>

TraceNext == TStart \/ TSink \/ TWBody \/ TYBody \/ TSBody \/ TSWoke \/ TLoopTick \/ TLoopStop \/ TReset
TraceSpec == TraceInit /\ [][TraceNext]_tvars

\* acceptance: the whole trace was consumed (high-water mark of l; -workers 1)
HighWater == TLCSet(1, IF TLCGet(1) > l THEN TLCGet(1) ELSE l)
TraceAccepted == IF TLCGet(1) = Len(Trace) + 1 THEN TRUE
                 ELSE PrintT("@@REJECT line " \o ToString(TLCGet(1)) \o " of " \o ToString(Len(Trace))) /\ FALSE
=========================================================================
