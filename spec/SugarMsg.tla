------------------------------ MODULE SugarMsg ------------------------------
(***************************************************************************)
(* Message construction of the SugaredLogger print / printf / println      *)
(* families (sugar.go: getMessage, getMessageln) as a case analysis.       *)
(*   Code path (getMessage):  no args -> template verbatim;                *)
(*                            template # "" -> Sprintf;                    *)
(*                            one string arg -> that string; else Sprint.  *)
(*   print family calls it with template "", printf with the template.     *)
(* Reference (C14): print = Sprint(args); printf = Sprintf(template, args) *)
(* (template verbatim when there are no args); println = Sprintln minus    *)
(* the final newline.                                                      *)
(***************************************************************************)
EXTENDS Integers, Sequences, TLC, Json

CONSTANTS MaxArgs
Families == {"print", "printf", "println"}
Templates == {"empty", "plain", "one-verb", "two-verbs", "percent-literal", "trailing-newline"}
\* "nilptr-stringer" / "nilptr-err": typed nil pointers whose method would dereference the receiver (fmt prints "<nil>");
\* "fmt-stringer": a Stringer that also implements fmt.Formatter (fmt uses Format, not String)
ArgClasses == {"str", "str-with-verb", "str-trailing-nl", "int", "err", "nil", "stringer", "nilptr-stringer", "nilptr-err", "fmt-stringer"}
ArgLists == UNION {[1..n -> ArgClasses] : n \in 0..MaxArgs}

VARIABLES fam, tmpl, args, rule, want
vars == <<fam, tmpl, args, rule, want>>
Init == /\ fam \in Families /\ args \in ArgLists
        /\ tmpl \in (IF fam = "printf" THEN Templates ELSE {"empty"})
        /\ rule = "none" /\ want = "none"

CodeRule == IF fam = "println" THEN "sprintln-minus-newline"
            ELSE IF Len(args) = 0 THEN "template"
            ELSE IF tmpl # "empty" THEN "sprintf"
            ELSE IF Len(args) = 1 /\ args[1] \in {"str", "str-with-verb", "str-trailing-nl"} THEN "the-string"
            ELSE "sprint"
RefRule  == IF fam = "println" THEN "sprintln-minus-newline"
            ELSE IF fam = "print" THEN "sprint"
            ELSE IF Len(args) = 0 THEN "template" ELSE "sprintf"
Build == rule = "none" /\ rule' = CodeRule /\ want' = RefRule /\ UNCHANGED <<fam, tmpl, args>>
Spec == Init /\ [][Build]_vars

\* Sprint of exactly one string operand is that string
Same(a, b) == a = b \/ (a = "the-string" /\ b = "sprint")
              \/ (a = "template" /\ b = "sprint" /\ tmpl = "empty" /\ Len(args) = 0)   \* Sprint() = ""
\* the one class where the code knowingly deviates (recorded finding): printf with an empty template and arguments
KnownDeviation == fam = "printf" /\ tmpl = "empty" /\ Len(args) > 0
MessageRule == rule # "none" => (Same(rule, want) \/ KnownDeviation)
EmitBeh == IF rule # "none"
           THEN PrintT("@@BEH " \o ToJson([fam |-> fam, tmpl |-> tmpl, args |-> args, want |-> want, known |-> KnownDeviation]))
           ELSE TRUE
=============================================================================
