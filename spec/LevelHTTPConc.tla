--------------------------- MODULE LevelHTTPConc ---------------------------
(***************************************************************************)
(* Overlapping requests on AtomicLevel's HTTP handler (http_handler.go).   *)
(*                                                                         *)
(* LevelHTTP.tla decides what ONE request does.  A PUT, however, reads its *)
(* body before it decides, and a body arrives when the client sends it:    *)
(* requests overlap, and the application may call SetLevel at any time.    *)
(* One request = two steps:                                                *)
(*   Start(r)  : the handler is entered and blocks reading the body        *)
(*   Finish(r) : the body has arrived; decode; SetLevel(l) if it names a   *)
(*               valid level, otherwise answer 4xx and touch nothing       *)
(* AppSet(l)   : SetLevel from the application (or a complete, valid PUT)  *)
(* The handler keeps no state between the two steps (RejectRule "leave"):  *)
(* a rejected request cannot change the level, whatever happened while it  *)
(* was waiting.  RejectRule = "restore" is the spec mutant in which a      *)
(* rejected request writes back the level it saw when it started.          *)
(***************************************************************************)
EXTENDS Integers, Sequences, FiniteSets, TLC, Json

CONSTANTS Levels, Reqs, MaxAppSets,
          RejectRule,   \* "leave" = code; "restore" = spec mutant
          Emit

Kinds == {[valid |-> TRUE, lvl |-> l] : l \in Levels} \cup {[valid |-> FALSE, lvl |-> "none"]}
VARIABLES level, st, kind, snap, nsets, h, lastRejectedChanged
vars == <<level, st, kind, snap, nsets, h, lastRejectedChanged>>
NoHist == <<level, st, kind, snap, nsets, lastRejectedChanged>>

Init == /\ level \in Levels /\ st = [r \in Reqs |-> "idle"] /\ kind = [r \in Reqs |-> [valid |-> FALSE, lvl |-> "none"]]
        /\ snap = [r \in Reqs |-> "none"] /\ nsets = 0 /\ h = <<>> /\ lastRejectedChanged = FALSE

Rec(a, r, l) == h' = IF Emit THEN Append(h, [a |-> a, r |-> r, lvl |-> l, after |-> level']) ELSE h

Start(r) == /\ st[r] = "idle" /\ \E k \in Kinds : kind' = [kind EXCEPT ![r] = k]
            /\ st' = [st EXCEPT ![r] = "reading"] /\ snap' = [snap EXCEPT ![r] = level]
            /\ UNCHANGED <<level, nsets>> /\ lastRejectedChanged' = FALSE
            /\ Rec("Start", r, kind'[r].lvl)
Finish(r) == /\ st[r] = "reading" /\ st' = [st EXCEPT ![r] = "done"]
             /\ level' = IF kind[r].valid THEN kind[r].lvl
                         ELSE IF RejectRule = "restore" THEN snap[r] ELSE level
             /\ lastRejectedChanged' = (~kind[r].valid /\ level' # level)
             /\ UNCHANGED <<kind, snap, nsets>>
             /\ Rec("Finish", r, kind[r].lvl)
AppSet == /\ nsets < MaxAppSets /\ \E l \in Levels \ {level} : level' = l /\ Rec("AppSet", 0, l)
          /\ nsets' = nsets + 1 /\ lastRejectedChanged' = FALSE /\ UNCHANGED <<st, kind, snap>>
Next == (\E r \in Reqs : Start(r) \/ Finish(r)) \/ AppSet
Spec == Init /\ [][Next]_vars

\* C20: the handler changes the level only on a PUT that names a valid level
RejectedNeverChanges == ~lastRejectedChanged
AllDone == \A r \in Reqs : st[r] = "done"
EmitBeh == IF Emit /\ AllDone THEN PrintT("@@BEH " \o ToJson([h |-> h])) ELSE TRUE
=============================================================================
