------------------------------ MODULE Terminal ------------------------------
(***************************************************************************)
(* What one logging call at DPanic / Panic / Fatal level does, step by     *)
(* step (logger.go: Logger.check, terminalHookOverride; sugar.go: log /    *)
(* logln; zapgrpc: printer.Println; zapcore/entry.go: CheckedEntry.Write;  *)
(* zapcore/core.go: ioCore.Write; buffered_write_syncer.go).               *)
(*                                                                         *)
(*   PreCheck   the front end's own level test (exempt from DPanic up)     *)
(*   Check      the core composition registers its accepting IO cores      *)
(*   Attach     the terminal action is attached whether or not any core    *)
(*              accepted; a nil / WriteThenNoop override means the default *)
(*   Encode(i), SinkWrite(i), SyncSink(i)   per accepting core, in order;  *)
(*              a buffered sink holds the bytes until its Sync             *)
(*   RunHook    the terminal action: control is lost (panic / exit) or a   *)
(*              custom action runs                                         *)
(*                                                                         *)
(* C06: the action always runs for Panic and Fatal (DPanic exactly in      *)
(* development), and when it runs every accepting core has the entry and   *)
(* every IO core's sink has been synced with nothing left in a buffer.     *)
(***************************************************************************)
EXTENDS Integers, Sequences, FiniteSets, TLC, Json

CONSTANTS SyncRule,     \* "aboveError" = code; "never" = spec mutant
          AttachRule,   \* "always" = code; "willWrite" = spec mutant (terminal only when some core accepted)
          OverrideRule, \* "default" = code (nil / no-op override -> default action); "raw" = spec mutant
          GrpcGuard,    \* "exempt" = code (Fatalln ignores the level guard from DPanic up); "plain" = spec mutant (pre-fix)
          WriteLoop,    \* "all" = code (every accepting core is written whatever earlier ones returned); "break" = spec mutant
          SugarGuard,   \* "exempt" = code; "plain" = spec mutant (pre-check without the DPanic exemption)
          Emit

DPanic == 3
Panic == 4
Fatal == 5
Lvls == {DPanic, Panic, Fatal}
FrontEnds == {"logger", "logger.Log", "check", "sugar", "sugarf", "sugarw", "sugarln", "sugar.Logw", "stdlog", "grpc", "grpcf", "grpcln"}
HookCfgs == {"unset", "nil", "noop", "custom"}
\* core compositions (abstract): sequence of IO leaves <<accepts this level?, buffered sink?>> plus a flag: Check reaches nothing
\* "bws-stopped": the buffered sink was used and then Stop()ped before this call (shutdown path: no flush loop any
\* more, Write still buffers, only Sync moves the bytes on).  "tee-fail-*": the first branch's sink fails its Write.
\* "tee-on-sampledout": an accepting core followed by a core whose sampler drops the entry (the first must keep it).
\* bws-multi: the buffered sink sits in a multi-syncer next to a writer that reports a smaller count without an error
\* (an adapter that trims the line ending): the count is nobody's business here, the entry is synced all the same
Cores == {"nop", "off", "on", "bws", "bws-stopped", "bws-multi", "tee-on-on", "tee-off-on", "tee-on-bws", "tee-fail-on", "tee-fail-bws",
          "tee-on-sampledout", "sampled-out", "hooked-on", "inc-off"}
Fails(c, i) == c \in {"tee-fail-on", "tee-fail-bws"} /\ i = 1
LeavesOf(c) == CASE c = "nop" -> <<>>
                 [] c = "off" -> << [acc |-> FALSE, bws |-> FALSE] >>
                 [] c = "on"  -> << [acc |-> TRUE, bws |-> FALSE] >>
                 [] c \in {"bws", "bws-stopped", "bws-multi"} -> << [acc |-> TRUE, bws |-> TRUE] >>
                 [] c = "tee-fail-on"  -> << [acc |-> TRUE, bws |-> FALSE], [acc |-> TRUE, bws |-> FALSE] >>
                 [] c = "tee-fail-bws" -> << [acc |-> TRUE, bws |-> FALSE], [acc |-> TRUE, bws |-> TRUE] >>
                 [] c = "tee-on-on"  -> << [acc |-> TRUE, bws |-> FALSE], [acc |-> TRUE, bws |-> FALSE] >>
                 [] c = "tee-on-sampledout" -> << [acc |-> TRUE, bws |-> FALSE], [acc |-> FALSE, bws |-> FALSE] >>
                 [] c = "tee-off-on" -> << [acc |-> FALSE, bws |-> FALSE], [acc |-> TRUE, bws |-> FALSE] >>
                 [] c = "tee-on-bws" -> << [acc |-> TRUE, bws |-> FALSE], [acc |-> TRUE, bws |-> TRUE] >>
                 [] c = "sampled-out" -> << [acc |-> FALSE, bws |-> FALSE] >>   \* enabled, but the sampler drops it
                 [] c = "hooked-on" -> << [acc |-> TRUE, bws |-> FALSE] >>
                 [] c = "inc-off" -> << [acc |-> FALSE, bws |-> FALSE] >>
\* core.Enabled(lvl): the sampled-out composition reports the level enabled
EnabledOf(c) == c \in {"sampled-out", "tee-on-sampledout"} \/ \E i \in 1..Len(LeavesOf(c)) : LeavesOf(c)[i].acc

VARIABLES fe, lvl, dev, hookcfg, core, msg, \* the case (constant during a behaviour); msg: "text" | "empty"
          pc, accepting, cur, after,
          encoded, inSink, inBuf, synced,  \* per leaf
          ran, snap                        \* terminal action that ran; sink state when it ran
vars == <<fe, lvl, dev, hookcfg, core, msg, pc, accepting, cur, after, encoded, inSink, inBuf, synced, ran, snap>>

FeOK == (fe \in {"grpc", "grpcf", "grpcln"} => lvl = Fatal)
Init == /\ fe \in FrontEnds /\ lvl \in Lvls /\ dev \in BOOLEAN /\ hookcfg \in HookCfgs /\ core \in Cores
        /\ msg \in {"text", "empty"} /\ (msg = "empty" => core \in {"on", "off", "nop"})
        /\ FeOK
        /\ pc = "precheck" /\ accepting = <<>> /\ cur = 1 /\ after = "none"
        /\ encoded = [i \in 1..Len(LeavesOf(core)) |-> FALSE]
        /\ inSink = [i \in 1..Len(LeavesOf(core)) |-> FALSE]
        /\ inBuf = [i \in 1..Len(LeavesOf(core)) |-> FALSE]
        /\ synced = [i \in 1..Len(LeavesOf(core)) |-> FALSE]
        /\ ran = "none" /\ snap = <<>>

CaseUnch == UNCHANGED <<fe, lvl, dev, hookcfg, core, msg>>
\* front ends with a level guard of their own
Guarded == \/ (fe \in {"sugar", "sugarf", "sugarw", "sugarln", "sugar.Logw"} /\ SugarGuard = "plain")
           \/ (fe = "grpcln" /\ GrpcGuard = "plain")
PreCheck == /\ pc = "precheck"
            /\ pc' = IF Guarded /\ ~EnabledOf(core) THEN "done" ELSE "check"
            /\ CaseUnch /\ UNCHANGED <<accepting, cur, after, encoded, inSink, inBuf, synced, ran, snap>>
Check == /\ pc = "check"
         /\ accepting' = SelectSeq([i \in 1..Len(LeavesOf(core)) |-> i], LAMBDA i : LeavesOf(core)[i].acc)
         /\ pc' = "attach"
         /\ CaseUnch /\ UNCHANGED <<cur, after, encoded, inSink, inBuf, synced, ran, snap>>
Default == IF lvl = Fatal THEN "exit1" ELSE "panic"
Override == IF hookcfg = "custom" THEN "custom"
            ELSE IF hookcfg \in {"nil", "noop"} /\ OverrideRule = "raw" THEN "none"
            ELSE Default
Wanted == lvl \in {Panic, Fatal} \/ (lvl = DPanic /\ dev)
Attach == /\ pc = "attach"
          /\ after' = IF Wanted /\ (AttachRule = "always" \/ Len(accepting) > 0) THEN Override ELSE "none"
          /\ pc' = IF Len(accepting) = 0 /\ after' = "none" THEN "done"       \* nil CheckedEntry
                   ELSE IF Len(accepting) = 0 THEN "hook" ELSE "encode"
          /\ CaseUnch /\ UNCHANGED <<accepting, cur, encoded, inSink, inBuf, synced, ran, snap>>
Leaf == accepting[cur]
Encode == /\ pc = "encode" /\ encoded' = [encoded EXCEPT ![Leaf] = TRUE] /\ pc' = "sinkwrite"
          /\ CaseUnch /\ UNCHANGED <<accepting, cur, after, inSink, inBuf, synced, ran, snap>>
\* a failing sink: ioCore.Write returns the error without syncing; CheckedEntry.Write goes on with the next core
\* (WriteLoop = "break" is the spec mutant that stops at the first error)
SinkWrite == /\ pc = "sinkwrite"
             /\ IF Fails(core, Leaf)
                THEN /\ UNCHANGED <<inSink, inBuf>>
                     /\ IF WriteLoop = "break" THEN pc' = "hook" /\ cur' = cur
                        ELSE IF cur < Len(accepting) THEN cur' = cur + 1 /\ pc' = "encode" ELSE cur' = cur /\ pc' = "hook"
                ELSE /\ IF LeavesOf(core)[Leaf].bws
                        THEN inBuf' = [inBuf EXCEPT ![Leaf] = TRUE] /\ UNCHANGED inSink
                        ELSE inSink' = [inSink EXCEPT ![Leaf] = TRUE] /\ UNCHANGED inBuf
                     /\ pc' = "sync" /\ cur' = cur
             /\ CaseUnch /\ UNCHANGED <<accepting, after, encoded, synced, ran, snap>>
\* ioCore.Write: if ent.Level > ErrorLevel { c.Sync() }; a buffered sink flushes, then syncs the real sink
SyncSink == /\ pc = "sync"
            /\ IF SyncRule = "aboveError"
               THEN /\ inSink' = [inSink EXCEPT ![Leaf] = inSink[Leaf] \/ inBuf[Leaf]]
                    /\ inBuf' = [inBuf EXCEPT ![Leaf] = FALSE]
                    /\ synced' = [synced EXCEPT ![Leaf] = TRUE]
               ELSE UNCHANGED <<inSink, inBuf, synced>>
            /\ IF cur < Len(accepting) THEN cur' = cur + 1 /\ pc' = "encode" ELSE cur' = cur /\ pc' = "hook"
            /\ CaseUnch /\ UNCHANGED <<accepting, after, encoded, ran, snap>>
RunHook == /\ pc = "hook" /\ ran' = after /\ pc' = "done"
           /\ snap' = [i \in 1..Len(LeavesOf(core)) |-> [inSink |-> inSink[i], inBuf |-> inBuf[i], synced |-> synced[i]]]
           /\ CaseUnch /\ UNCHANGED <<accepting, cur, after, encoded, inSink, inBuf, synced>>
Next == PreCheck \/ Check \/ Attach \/ Encode \/ SinkWrite \/ SyncSink \/ RunHook
Spec == Init /\ [][Next]_vars

\* ---- C06 -----------------------------------------------------------------
Expected == IF ~Wanted THEN "none" ELSE IF hookcfg = "custom" THEN "custom" ELSE Default
TerminalAlways == pc = "done" => ran = Expected
\* when control is lost, every accepting core has the entry, synced, nothing buffered
FlushedBefore == ran # "none" => \A i \in 1..Len(LeavesOf(core)) :
                    (LeavesOf(core)[i].acc /\ ~Fails(core, i)) => snap[i].inSink /\ snap[i].synced /\ ~snap[i].inBuf
\* and nothing is written to a core that did not accept
OnlyAccepting == \A i \in 1..Len(LeavesOf(core)) : (inSink[i] \/ inBuf[i]) => LeavesOf(core)[i].acc

EmitBeh == IF Emit /\ pc = "done"
           THEN PrintT("@@BEH " \o ToJson([fe |-> fe, lvl |-> lvl, dev |-> dev, hook |-> hookcfg, core |-> core, msg |-> msg,
                                            ran |-> ran, leaves |-> [i \in 1..Len(LeavesOf(core)) |-> [acc |-> LeavesOf(core)[i].acc, bws |-> LeavesOf(core)[i].bws, fail |-> Fails(core, i)]],
                                            final |-> [i \in 1..Len(LeavesOf(core)) |-> [inSink |-> inSink[i], inBuf |-> inBuf[i], synced |-> synced[i]]]]))
           ELSE TRUE
=============================================================================
