---------------------------- MODULE SlogHandler ----------------------------
(***************************************************************************)
(* exp/zapslog.Handler: WithGroup / WithAttrs / Handle.                    *)
(*                                                                         *)
(* Implementation side: a handler is (core context = list of fields        *)
(* already given to core.With, groups = names of groups opened by          *)
(* WithGroup whose namespace has not been emitted yet).  WithGroup("")     *)
(* returns the receiver; WithGroup(g) copies the slice and appends;        *)
(* WithAttrs / Handle convert the attributes one by one and emit the       *)
(* pending namespaces just before the first attribute that does not        *)
(* convert to Skip; WithAttrs then forgets the pending groups if it        *)
(* emitted them.  The groups slice is a Go slice (backing array, len,      *)
(* cap), so that a derivation that appends in place instead of copying is  *)
(* expressible (spec mutant GroupCopy = "append").                         *)
(*                                                                         *)
(* Reference (slog.Handler contract, C18): the attributes of every         *)
(* WithAttrs call and of the record nest under the groups open at that     *)
(* point of the derivation path; a group appears only if some attribute    *)
(* with output follows it; "" opens no group.  Handlers form a tree:       *)
(* every handler's output is a function of its own path only.              *)
(*                                                                         *)
(* Attribute classes: E emits (typed leaf, named group with members,       *)
(* LogValuer resolving to one), I inline group with members (emits its     *)
(* members in place), S nothing (empty Attr, group without attrs, inline   *)
(* group without attrs, LogValuer resolving to an empty group).            *)
(***************************************************************************)
EXTENDS Integers, Sequences, FiniteSets, TLC, Json

CONSTANTS MaxHandlers, MaxLogs, MaxAttrs, MaxAttrsDerive, Names,
          GroupCopy,   \* "copy" = code; "append" = spec mutant (append to the shared slice)
          EmptyName,   \* "receiver" = code; "open" = spec mutant (pre-fix: "" opens a group)
          ClearRule,   \* "ifadded" = code; "always" = spec mutant (WithAttrs always forgets pending groups);
                       \* "anyfield" = spec mutant (forgets them when any field, even Skip, was produced)
          NsBefore,    \* "nonskip" = code; "any" = spec mutant (namespaces emitted before an attribute that converts to Skip)
          Emit

Classes == {"E", "I", "S"}
AttrLists == UNION {[1..n -> Classes] : n \in 0..MaxAttrs}
DeriveLists == UNION {[1..n -> Classes] : n \in 0..MaxAttrsDerive}
Steps == {[op |-> "group", name |-> n, attrs |-> <<>>] : n \in Names \cup {""}}
         \cup {[op |-> "attrs", name |-> "", attrs |-> a] : a \in AttrLists}

VARIABLES hs,      \* sequence of handlers: [ctx, arr, len, cap, path]
          arrays,  \* backing arrays of the groups slices: sequence of sequences of names
          logs, out, hist
vars == <<hs, arrays, logs, out, hist>>

Init == /\ hs = << [ctx |-> <<>>, arr |-> 0, len |-> 0, cap |-> 0, path |-> <<>>] >>
        /\ arrays = <<>> /\ logs = 0 /\ out = [ok |-> TRUE, got |-> <<>>, want |-> <<>>, h |-> 0] /\ hist = <<>>

Groups(h) == IF h.len = 0 THEN <<>> ELSE SubSeq(arrays[h.arr], 1, h.len)
Ns(g) == [t |-> "ns", v |-> g]
At(c, tag) == [t |-> c, v |-> tag]
NsList(gs) == [i \in 1..Len(gs) |-> Ns(gs[i])]

\* the conversion loop shared by WithAttrs and Handle: returns <<fields, addedNamespace>>
RECURSIVE Conv(_, _, _, _, _, _)
Conv(attrs, i, gs, acc, added, tag) ==
  IF i > Len(attrs) THEN <<acc, added>>
  ELSE LET emits == attrs[i] # "S" \/ NsBefore = "any"
           doNs == ~added /\ Len(gs) > 0 /\ emits
           acc1 == IF doNs THEN acc \o NsList(gs) ELSE acc
       IN Conv(attrs, i + 1, gs, Append(acc1, At(attrs[i], tag)), added \/ doNs, tag)
----
WithGroup(i, name) ==
  LET h == hs[i] IN
  /\ Len(hs) < MaxHandlers
  /\ IF name = "" /\ EmptyName = "receiver"
     THEN /\ hs' = Append(hs, [h EXCEPT !.path = Append(@, [op |-> "group", name |-> name, attrs |-> <<>>])])
          /\ UNCHANGED arrays
     ELSE IF GroupCopy = "append" /\ h.len < h.cap
     THEN \* append in place: the cell after len is overwritten in the shared backing array
          /\ arrays' = [arrays EXCEPT ![h.arr] = [k \in 1..h.cap |-> IF k = h.len + 1 THEN name ELSE @[k]]]
          /\ hs' = Append(hs, [h EXCEPT !.len = h.len + 1, !.path = Append(@, [op |-> "group", name |-> name, attrs |-> <<>>])])
     ELSE \* fresh backing array (make + copy; or append growing: capacity doubles)
          LET newcap == IF GroupCopy = "append" THEN (IF h.cap = 0 THEN 1 ELSE 2 * h.cap) ELSE h.len + 1
              cells == [k \in 1..newcap |-> IF k <= h.len THEN Groups(h)[k] ELSE IF k = h.len + 1 THEN name ELSE "-"]
          IN /\ arrays' = Append(arrays, cells)
             /\ hs' = Append(hs, [h EXCEPT !.arr = Len(arrays) + 1, !.len = h.len + 1, !.cap = newcap,
                                             !.path = Append(@, [op |-> "group", name |-> name, attrs |-> <<>>])])
  /\ UNCHANGED <<logs, out>> /\ hist' = Append(hist, [op |-> "group", h |-> i, name |-> name, attrs |-> <<>>, want |-> <<>>])

WithAttrs(i, attrs) ==
  LET h == hs[i]
      r == Conv(attrs, 1, Groups(h), <<>>, FALSE, Len(hs) + 1)
      clear == CASE ClearRule = "ifadded" -> r[2]
                 [] ClearRule = "always" -> TRUE
                 [] ClearRule = "anyfield" -> Len(r[1]) > 0
  IN /\ Len(hs) < MaxHandlers
     /\ hs' = Append(hs, [ctx |-> h.ctx \o r[1], arr |-> IF clear THEN 0 ELSE h.arr, len |-> IF clear THEN 0 ELSE h.len,
                          cap |-> IF clear THEN 0 ELSE h.cap, path |-> Append(h.path, [op |-> "attrs", name |-> "", attrs |-> attrs])])
     /\ UNCHANGED <<arrays, logs, out>> /\ hist' = Append(hist, [op |-> "attrs", h |-> i, name |-> "", attrs |-> attrs, want |-> <<>>])

\* ---- reference: the entry a handler with this path must produce for this record ----
\* walks the path; pending = groups opened and not yet shown; a group is shown just before the first output under it
\* the reference uses the documented rule (namespace only before an attribute with output); tags are positions,
\* so compare after dropping tags and attributes without output
Visible(fs) == SelectSeq([i \in 1..Len(fs) |-> [t |-> fs[i].t, v |-> IF fs[i].t = "ns" THEN fs[i].v ELSE 0]], LAMBDA f : f.t # "S")
RECURSIVE RefC(_, _, _, _, _)
RefC(attrs, gs, i, acc, added) == IF i > Len(attrs) THEN <<acc, added>>
                                  ELSE LET doNs == ~added /\ Len(gs) > 0 /\ attrs[i] # "S"
                                       IN RefC(attrs, gs, i + 1, Append(IF doNs THEN acc \o NsList(gs) ELSE acc, At(attrs[i], 0)), added \/ doNs)
RefConv(attrs, gs) == RefC(attrs, gs, 1, <<>>, FALSE)
RECURSIVE Ref(_, _, _, _, _)
Ref(path, k, pending, acc, rec) ==
  IF k > Len(path) THEN acc \o RefConv(rec, pending)[1]
  ELSE LET s == path[k] IN
       IF s.op = "group" THEN Ref(path, k + 1, IF s.name = "" THEN pending ELSE Append(pending, s.name), acc, rec)
       ELSE LET r == RefConv(s.attrs, pending) IN Ref(path, k + 1, IF r[2] THEN <<>> ELSE pending, acc \o r[1], rec)

Pretty(fs) == [i \in 1..Len(fs) |-> IF fs[i].t = "ns" THEN "ns:" \o fs[i].v ELSE fs[i].t]
Log(i, rec) ==
  LET h == hs[i]
      r == Conv(rec, 1, Groups(h), <<>>, FALSE, 0)
      got == h.ctx \o r[1]
  IN /\ logs < MaxLogs
     /\ logs' = logs + 1
     /\ out' = [ok |-> Visible(got) = Visible(Ref(h.path, 1, <<>>, <<>>, rec)), got |-> Visible(got), want |-> Visible(Ref(h.path, 1, <<>>, <<>>, rec)), h |-> i]
     /\ UNCHANGED <<hs, arrays>> /\ hist' = Append(hist, [op |-> "log", h |-> i, name |-> "", attrs |-> rec, want |-> Pretty(Visible(Ref(h.path, 1, <<>>, <<>>, rec)))])

Next == \/ \E i \in 1..Len(hs) : \E n \in Names \cup {""} : WithGroup(i, n)
        \/ \E i \in 1..Len(hs) : \E a \in DeriveLists : WithAttrs(i, a)
        \/ \E i \in 1..Len(hs) : \E a \in AttrLists : Log(i, a)
Spec == Init /\ [][Next]_vars
View == <<hs, arrays, logs, out>>

\* C18: every entry, from whichever handler of the tree and whatever was derived or logged before, is the
\* contract's entry for that handler's own path
Contract == out.ok

\* level mapping (slog level -> zap level), a total monotone step function
ZapLevel(l) == IF l >= 8 THEN 2 ELSE IF l >= 4 THEN 1 ELSE IF l >= 0 THEN 0 ELSE -1
Monotone == \A a, b \in -20..20 : a <= b => ZapLevel(a) <= ZapLevel(b)

\* behaviours for replay: the operations, the predicted visible fields of the logged entry, and for every handler
\* of the tree the prediction for a probe record with one emitting attribute (isolation is re-checked at the end)
EmitBeh == IF Emit /\ logs = MaxLogs
           THEN PrintT("@@BEH " \o ToJson([hist |-> hist, want |-> Pretty(out.want),
                                            probe |-> [i \in 1..Len(hs) |-> Pretty(Visible(Ref(hs[i].path, 1, <<>>, <<>>, <<"E">>)))]]))
           ELSE TRUE
ASSUME PrintT("@@LEVELMAP " \o ToJson([i \in 1..41 |-> ZapLevel(i - 21)]))
=============================================================================
