------------------------------- MODULE Sugar -------------------------------
(***************************************************************************)
(* SugaredLogger argument handling (sugar.go).                             *)
(*                                                                         *)
(* sweetenFields: a cursor sweeps the loosely-typed argument list; one     *)
(* action per branch of the loop body, in the code's order of tests:       *)
(*   TakeField   args[i] is a zap.Field             -> pass through, i+1   *)
(*   TakeError   args[i] is an error                -> first: field        *)
(*                                                     "error"; later ones *)
(*                                                     reported; i+1       *)
(*   Dangling    i is the last index                -> reported; stop      *)
(*   TakePair    key args[i] is a string            -> Any(key, args[i+1]) *)
(*   BadPair     key is not a string                -> collected; i+2      *)
(*   Finish      i = len: report collected bad pairs in one entry          *)
(* Argument classes: F field, E error, S string, X other value, Z nil.     *)
(*                                                                         *)
(* Messages: getMessage / getMessageln as a case table over (method family,*)
(* template class, argument classes).                                      *)
(***************************************************************************)
EXTENDS Integers, Sequences, FiniteSets, TLC, Json, SequencesExt

CONSTANTS MaxArgs, Classes,
          ErrorSkip,      \* 1 = code; 2 = spec mutant (i += 2 after a bare error)
          DanglingTest,   \* "last" = code (i == len-1); "len" = spec mutant (never fires)
          Emit

VARIABLES args, i, fields, invalid, seenError, diags, pc
vars == <<args, i, fields, invalid, seenError, diags, pc>>

ArgLists == UNION {[1..n -> Classes] : n \in 0..MaxArgs}

Init == /\ args \in ArgLists /\ i = 1 /\ fields = <<>> /\ invalid = <<>> /\ seenError = FALSE
        /\ diags = <<>> /\ pc = "loop"

InLoop == pc = "loop" /\ i <= Len(args)
TakeField == /\ InLoop /\ args[i] = "F"
             /\ fields' = Append(fields, [k |-> "field", a |-> i, b |-> 0]) /\ i' = i + 1
             /\ UNCHANGED <<args, invalid, seenError, diags, pc>>
TakeError == /\ InLoop /\ args[i] = "E"
             /\ IF ~seenError
                THEN /\ fields' = Append(fields, [k |-> "error", a |-> i, b |-> 0]) /\ seenError' = TRUE
                     /\ UNCHANGED diags
                ELSE /\ diags' = Append(diags, [k |-> "multi", a |-> <<i>>]) /\ UNCHANGED <<fields, seenError>>
             /\ i' = i + ErrorSkip
             /\ UNCHANGED <<args, invalid, pc>>
IsLast == IF DanglingTest = "last" THEN i = Len(args) ELSE i = Len(args) + 1
Dangling == /\ InLoop /\ args[i] \notin {"F", "E"} /\ IsLast
            /\ diags' = Append(diags, [k |-> "odd", a |-> <<i>>]) /\ pc' = "finish"
            /\ UNCHANGED <<args, i, fields, invalid, seenError>>
TakePair == /\ InLoop /\ args[i] = "S" /\ ~IsLast /\ i < Len(args)
            /\ fields' = Append(fields, [k |-> "pair", a |-> i, b |-> i + 1]) /\ i' = i + 2
            /\ UNCHANGED <<args, invalid, seenError, diags, pc>>
BadPair == /\ InLoop /\ args[i] \in {"X", "Z"} /\ ~IsLast /\ i < Len(args)
           /\ invalid' = Append(invalid, i) /\ i' = i + 2
           /\ UNCHANGED <<args, fields, seenError, diags, pc>>
\* args[i+1] with i the last index: index out of range
Crash == /\ InLoop /\ args[i] \notin {"F", "E"} /\ ~IsLast /\ i = Len(args) /\ pc' = "panic"
         /\ UNCHANGED <<args, i, fields, invalid, seenError, diags>>
LoopEnd == /\ pc = "loop" /\ i > Len(args) /\ pc' = "finish"
           /\ UNCHANGED <<args, i, fields, invalid, seenError, diags>>
Finish == /\ pc = "finish" /\ pc' = "done"
          /\ diags' = IF Len(invalid) > 0 THEN Append(diags, [k |-> "nonstring", a |-> invalid]) ELSE diags
          /\ UNCHANGED <<args, i, fields, invalid, seenError>>
Next == Crash \/ TakeField \/ TakeError \/ Dangling \/ TakePair \/ BadPair \/ LoopEnd \/ Finish
Spec == Init /\ [][Next]_vars

\* ---- reference (C14): a declarative account of every argument position
\* Covered(j): argument j is accounted for - as a field, or in a diagnostic entry
Covered(j) == \/ \E x \in 1..Len(fields) : fields[x].a = j \/ fields[x].b = j
              \/ \E d \in 1..Len(diags) :
                    \/ (diags[d].k \in {"multi", "odd"} /\ diags[d].a[1] = j)
                    \/ (diags[d].k = "nonstring" /\ \E y \in 1..Len(diags[d].a) : diags[d].a[y] = j \/ diags[d].a[y] + 1 = j)
NothingVanishes == pc = "done" => \A j \in 1..Len(args) : Covered(j)
\* fields keep argument order; typed fields pass through; only the first bare error becomes "error"
InOrder == \A x, y \in 1..Len(fields) : x < y => fields[x].a < fields[y].a
Shapes == \A x \in 1..Len(fields) :
            /\ fields[x].k = "field" => args[fields[x].a] = "F"
            /\ fields[x].k = "error" => /\ args[fields[x].a] = "E"
                                       /\ \A y \in 1..Len(fields) : fields[y].k = "error" => y = x      \* only one
                                       /\ \A d \in 1..Len(diags) : diags[d].k = "multi" => diags[d].a[1] > fields[x].a
            /\ fields[x].k = "pair" => args[fields[x].a] = "S"
\* a well-formed list (only fields, at most one bare error, string-keyed pairs) produces no diagnostics
RECURSIVE WellFormed(_, _, _)
WellFormed(a, j, seenE) ==
  IF j > Len(a) THEN TRUE
  ELSE IF a[j] = "F" THEN WellFormed(a, j + 1, seenE)
  ELSE IF a[j] = "E" THEN ~seenE /\ WellFormed(a, j + 1, TRUE)
  ELSE IF a[j] = "S" /\ j < Len(a) THEN WellFormed(a, j + 2, seenE)
  ELSE FALSE
NoPanic == pc # "panic"
QuietWhenWellFormed == pc = "done" => (WellFormed(args, 1, FALSE) <=> Len(diags) = 0)

EmitBeh == IF Emit /\ pc = "done"
           THEN PrintT("@@BEH " \o ToJson([args |-> args, fields |-> fields, diags |-> diags]))
           ELSE TRUE
=============================================================================
