------------------------------ MODULE JsonEnc ------------------------------
(***************************************************************************)
(* The JSON encoder of zapcore (json_encoder.go, field.go: Field.AddTo,    *)
(* error.go: encodeError) at the level of JSON tokens.                     *)
(*                                                                         *)
(* Implementation side (what the code does): the buffer is a token         *)
(* sequence; whether a comma is written is decided from the LAST token     *)
(* only (addElementSeparator); namespaces are a counter (openNamespaces)   *)
(* that AppendObject saves, zeroes and restores; With() clones the buffer  *)
(* and the counter; EncodeEntry starts a fresh buffer with '{', writes the *)
(* metadata in code order with the no-op fallbacks, splices the context    *)
(* after a separator, adds the call-site fields, closes the namespaces,    *)
(* adds the stack, '}' and the line ending.  Marshaler failures take the   *)
(* code's error paths: the closing bracket is still written, Field.AddTo   *)
(* adds "<key>Error" in the enclosing object, array elements propagate the *)
(* error to the array field.                                               *)
(*                                                                         *)
(* Reference side (what C01 / C02 / C10 promise): a structural printer     *)
(* (ref, rstack) that knows the tree: commas between siblings, one closing *)
(* brace per open container.  Refines == buf = ref in every state.         *)
(*                                                                         *)
(* Tokens: [t, id, sub]; t in { "{" "}" "[" "]" ":" "," " " "k" "v" "nl" },*)
(* id = the call that produced a key/value (101..107 = entry metadata),    *)
(* sub = which key/value of that call ("", "Error", "Verbose", "Causes",   *)
(* "ek"/"c1"/"c2" for the cause objects, "enc"/"fallback" for values       *)
(* written by a configured sub-encoder or by the no-op fallback).          *)
(*                                                                         *)
(* Call alphabet (object context): S one key/value (any scalar, time,      *)
(* duration, reflected, Stringer, plain error) | V error with verbose form *)
(* | Z nothing (Skip, nil error) | E failing leaf (reflection error,       *)
(* panicking Stringer/error: only "<key>Error") | G error group (key,      *)
(* keyCauses array of objects) | N namespace | O object | A array |        *)
(* I inline; array context: S element | E failing element | O | A;         *)
(* End(ok/err) closes the innermost O/A/I.                                  *)
(***************************************************************************)
EXTENDS Integers, Sequences, FiniteSets, TLC, Json, SequencesExt

CONSTANTS MaxCalls, MaxDepth, MaxCuts,
          Spaced,       \* FALSE json encoder, TRUE console context (", " and ": ")
          CfgSet,       \* "few" | "keys" | "parts" | "matrix"
          Alphabet,     \* subset of {"S","V","Z","E","G","N","O","A","I"}
          SepSet,       \* "code" | "nocolon" (spec mutant: ':' no longer suppresses the comma)
          ObjNS,        \* "code" | "noclose" (AppendObject does not close inner namespaces) | "norestore"
          ErrClose,     \* "code" | "skip" (closing bracket not written when the marshaler fails)
          CtxSep,       \* "code" | "skip" (no separator before the spliced context)
          Fallback,     \* "code" | "skip" (no-op sub-encoder leaves the key without a value)
          ErrField,     \* "code" | "drop" (Field.AddTo does not add <key>Error)
          Emit

T(t) == [t |-> t, id |-> 0, sub |-> ""]
K(id, sub) == [t |-> "k", id |-> id, sub |-> sub]
V(id, sub) == [t |-> "v", id |-> id, sub |-> sub]
Braces(n) == [i \in 1..n |-> T("}")]

\* ---- encoder configurations ----------------------------------------------
Bool3 == {"nil", "noop", "str"}
CfgRec(lk, tk, nk, ck, fk, mk, sk, el, et, en, ec, tz, nm, cd, st, le) ==
  [lk |-> lk, tk |-> tk, nk |-> nk, ck |-> ck, fk |-> fk, mk |-> mk, sk |-> sk,
   el |-> el, et |-> et, en |-> en, ec |-> ec, tz |-> tz, nm |-> nm, cd |-> cd, st |-> st, le |-> le]
Std == CfgRec(TRUE, TRUE, TRUE, TRUE, TRUE, TRUE, TRUE, "str", "str", "str", "str", FALSE, TRUE, TRUE, TRUE, "default")
Cfgs ==
  CASE CfgSet = "nometa" ->
        {CfgRec(FALSE, FALSE, FALSE, FALSE, FALSE, FALSE, FALSE, "nil", "nil", "nil", "nil", FALSE, TRUE, TRUE, TRUE, "default")}
    [] CfgSet = "two" ->
        {Std, CfgRec(FALSE, FALSE, FALSE, FALSE, FALSE, FALSE, FALSE, "nil", "nil", "nil", "nil", FALSE, TRUE, TRUE, TRUE, "default")}
    [] CfgSet = "few" ->
        {Std,
         CfgRec(FALSE, FALSE, FALSE, FALSE, FALSE, FALSE, FALSE, "nil", "nil", "nil", "nil", FALSE, TRUE, TRUE, TRUE, "default"),
         CfgRec(TRUE, TRUE, TRUE, TRUE, TRUE, TRUE, TRUE, "noop", "noop", "noop", "noop", FALSE, TRUE, TRUE, TRUE, "custom")}
    [] CfgSet = "keys" ->
        {CfgRec(lk, tk, nk, ck, fk, mk, sk, el, et, en, ec, FALSE, TRUE, TRUE, TRUE, "default") :
           lk \in BOOLEAN, tk \in BOOLEAN, nk \in BOOLEAN, ck \in BOOLEAN, fk \in BOOLEAN, mk \in BOOLEAN, sk \in BOOLEAN,
           el \in Bool3, et \in Bool3, en \in Bool3, ec \in Bool3}
    [] CfgSet = "parts" ->
        {CfgRec(TRUE, TRUE, TRUE, TRUE, TRUE, mk, TRUE, el, "str", "str", ec, tz, nm, cd, st, le) :
           mk \in BOOLEAN, el \in Bool3, ec \in Bool3, tz \in BOOLEAN, nm \in BOOLEAN, cd \in BOOLEAN, st \in BOOLEAN,
           le \in {"default", "custom", "skip"}}
    [] CfgSet = "matrix" ->
        {CfgRec(lk, tk, nk, ck, fk, mk, sk, el, et, en, ec, tz, nm, cd, st, le) :
           lk \in BOOLEAN, tk \in BOOLEAN, nk \in BOOLEAN, ck \in BOOLEAN, fk \in BOOLEAN, mk \in BOOLEAN, sk \in BOOLEAN,
           el \in Bool3, et \in Bool3, en \in Bool3, ec \in Bool3,
           tz \in BOOLEAN, nm \in BOOLEAN, cd \in BOOLEAN, st \in BOOLEAN, le \in {"default", "custom", "skip"}}

VARIABLES cfg, phase, buf, ns, stack, calls, cuts, prog,   \* implementation side + history
          ref, rstack                                      \* reference side
vars == <<cfg, phase, buf, ns, stack, calls, cuts, prog, ref, rstack>>

\* ---- implementation-side primitives ---------------------------------------
NoSep == IF SepSet = "code" THEN {"{", "[", ":", ",", " "} ELSE {"{", "[", ",", " "}
Sep(b) == IF Len(b) = 0 \/ Last(b).t \in NoSep THEN b
          ELSE IF Spaced THEN b \o <<T(","), T(" ")>> ELSE Append(b, T(","))
AddKey(b, id, sub) == IF Spaced THEN Sep(b) \o <<K(id, sub), T(":"), T(" ")>> ELSE Sep(b) \o <<K(id, sub), T(":")>>
AppendVal(b, id, sub) == Append(Sep(b), V(id, sub))
AddKV(b, id, ks, vs) == AppendVal(AddKey(b, id, ks), id, vs)
ErrKV(b, id) == IF ErrField = "code" THEN AddKV(b, id, "Error", "Error") ELSE b
Cause(b, id, c) == Append(AddKV(Append(Sep(b), T("{")), id, "ek", c), T("}"))   \* AppendObject(errArrayElem)
Group(b, id) == Append(Cause(Cause(Append(Sep(AddKey(AddKV(b, id, "", ""), id, "Causes")), T("[")), id, "c1"), id, "c2"), T("]"))

Ctx == IF stack = <<>> THEN "obj" ELSE IF Last(stack).k = "arr" THEN "arr" ELSE "obj"
Frame(k, id) == [k |-> k, saved |-> ns, err |-> FALSE, id |-> id, ctx |-> Ctx]

\* ---- reference-side primitives ---------------------------------------------
RTop == CHOOSE i \in 1..Len(rstack) : rstack[i].k # "inl" /\ \A j \in (i + 1)..Len(rstack) : rstack[j].k = "inl"
RBump(rs) == [rs EXCEPT ![RTop].n = @ + 1]
RComma(r) == IF rstack[RTop].n = 0 THEN r ELSE IF Spaced THEN r \o <<T(","), T(" ")>> ELSE Append(r, T(","))
RKey(r, id, sub) == IF Spaced THEN RComma(r) \o <<K(id, sub), T(":"), T(" ")>> ELSE RComma(r) \o <<K(id, sub), T(":")>>
RCtx == IF rstack[RTop].k = "arr" THEN "arr" ELSE "obj"
\* n key/value pairs in a row in the current object
RECURSIVE RPairs(_, _, _)
RPairs(r, ps, first) ==
  IF ps = <<>> THEN r
  ELSE LET c == IF first THEN RComma(r) ELSE IF Spaced THEN r \o <<T(","), T(" ")>> ELSE Append(r, T(","))
           kv == IF Spaced THEN <<K(ps[1][1], ps[1][2]), T(":"), T(" "), V(ps[1][1], ps[1][3])>>
                 ELSE <<K(ps[1][1], ps[1][2]), T(":"), V(ps[1][1], ps[1][3])>>
       IN RPairs(c \o kv, Tail(ps), FALSE)
RAddPairs(ps) == /\ ref' = RPairs(ref, ps, TRUE)
                 /\ rstack' = [rstack EXCEPT ![RTop].n = @ + Len(ps)]
CauseObj(id, c) == IF Spaced THEN <<T("{"), K(id, "ek"), T(":"), T(" "), V(id, c), T("}")>>
                   ELSE <<T("{"), K(id, "ek"), T(":"), V(id, c), T("}")>>
CommaTok == IF Spaced THEN <<T(","), T(" ")>> ELSE <<T(",")>>

\* ---- initial state ---------------------------------------------------------
Init == /\ cfg \in Cfgs /\ phase = "ctx" /\ buf = <<>> /\ ns = 0 /\ stack = <<>> /\ calls = 0 /\ cuts = 0
        /\ prog = <<>> /\ ref = <<>> /\ rstack = << [k |-> "root", n |-> 0] >>

Can == phase \in {"ctx", "entry"} /\ calls < MaxCalls
Id == calls + 1
Step(op) == /\ calls' = calls + 1 /\ prog' = Append(prog, op) /\ UNCHANGED <<cfg, phase, cuts>>
ImplUnch == UNCHANGED <<ns, stack>>

\* ---- object-context calls ---------------------------------------------------
OpS == /\ Can /\ Ctx = "obj" /\ "S" \in Alphabet
       /\ buf' = AddKV(buf, Id, "", "") /\ ImplUnch
       /\ RAddPairs(<< <<Id, "", "">> >>) /\ Step("S")
OpV == /\ Can /\ Ctx = "obj" /\ "V" \in Alphabet
       /\ buf' = AddKV(AddKV(buf, Id, "", ""), Id, "Verbose", "Verbose") /\ ImplUnch
       /\ RAddPairs(<< <<Id, "", "">>, <<Id, "Verbose", "Verbose">> >>) /\ Step("V")
OpZ == /\ Can /\ Ctx = "obj" /\ "Z" \in Alphabet
       /\ UNCHANGED <<buf, ns, stack, ref, rstack>> /\ Step("Z")
OpE == /\ Can /\ Ctx = "obj" /\ "E" \in Alphabet
       /\ buf' = ErrKV(buf, Id) /\ ImplUnch
       /\ RAddPairs(<< <<Id, "Error", "Error">> >>) /\ Step("E")
OpG2 == /\ Can /\ Ctx = "obj" /\ "G" \in Alphabet
        /\ buf' = Group(buf, Id) /\ ImplUnch
        /\ LET r1 == RPairs(ref, << <<Id, "", "">> >>, TRUE)
               r2 == IF Spaced THEN r1 \o CommaTok \o <<K(Id, "Causes"), T(":"), T(" ")>> ELSE r1 \o CommaTok \o <<K(Id, "Causes"), T(":")>>
           IN ref' = r2 \o <<T("[")>> \o CauseObj(Id, "c1") \o CommaTok \o CauseObj(Id, "c2") \o <<T("]")>>
        /\ rstack' = [rstack EXCEPT ![RTop].n = @ + 2]
        /\ Step("G")
OpN == /\ Can /\ Ctx = "obj" /\ "N" \in Alphabet
       /\ buf' = Append(AddKey(buf, Id, ""), T("{")) /\ ns' = ns + 1 /\ UNCHANGED stack
       /\ ref' = Append(RKey(ref, Id, ""), T("{"))
       /\ rstack' = Append(RBump(rstack), [k |-> "ns", n |-> 0])
       /\ Step("N")
OpO == /\ Can /\ Ctx = "obj" /\ "O" \in Alphabet /\ Len(stack) < MaxDepth
       /\ buf' = Append(Sep(AddKey(buf, Id, "")), T("{"))
       /\ stack' = Append(stack, Frame("obj", Id)) /\ ns' = 0
       /\ ref' = Append(RKey(ref, Id, ""), T("{"))
       /\ rstack' = Append(RBump(rstack), [k |-> "obj", n |-> 0])
       /\ Step("O")
OpA == /\ Can /\ Ctx = "obj" /\ "A" \in Alphabet /\ Len(stack) < MaxDepth
       /\ buf' = Append(Sep(AddKey(buf, Id, "")), T("["))
       /\ stack' = Append(stack, Frame("arr", Id)) /\ UNCHANGED ns
       /\ ref' = Append(RKey(ref, Id, ""), T("["))
       /\ rstack' = Append(RBump(rstack), [k |-> "arr", n |-> 0])
       /\ Step("A")
OpI == /\ Can /\ Ctx = "obj" /\ "I" \in Alphabet /\ Len(stack) < MaxDepth
       /\ stack' = Append(stack, Frame("inl", Id)) /\ UNCHANGED <<buf, ns, ref>>
       /\ rstack' = Append(rstack, [k |-> "inl", n |-> 0])
       /\ Step("I")
\* ---- array-context calls ----------------------------------------------------
ArrS == /\ Can /\ Ctx = "arr" /\ "S" \in Alphabet
        /\ buf' = AppendVal(buf, Id, "") /\ ImplUnch
        /\ ref' = Append(RComma(ref), V(Id, "")) /\ rstack' = RBump(rstack)
        /\ Step("S")
ArrE == /\ Can /\ Ctx = "arr" /\ "E" \in Alphabet
        /\ stack' = [stack EXCEPT ![Len(stack)].err = TRUE] /\ UNCHANGED <<buf, ns, ref, rstack>>
        /\ Step("E")
ArrO == /\ Can /\ Ctx = "arr" /\ "O" \in Alphabet /\ Len(stack) < MaxDepth
        /\ buf' = Append(Sep(buf), T("{"))
        /\ stack' = Append(stack, Frame("obj", Id)) /\ ns' = 0
        /\ ref' = Append(RComma(ref), T("{"))
        /\ rstack' = Append(RBump(rstack), [k |-> "obj", n |-> 0])
        /\ Step("O")
ArrA == /\ Can /\ Ctx = "arr" /\ "A" \in Alphabet /\ Len(stack) < MaxDepth
        /\ buf' = Append(Sep(buf), T("["))
        /\ stack' = Append(stack, Frame("arr", Id)) /\ UNCHANGED ns
        /\ ref' = Append(RComma(ref), T("["))
        /\ rstack' = Append(RBump(rstack), [k |-> "arr", n |-> 0])
        /\ Step("A")

\* ---- End: the innermost marshaler returns (nil or an error) -------------------
\* reference: pop the frame together with the namespaces opened inside it
RECURSIVE PopTo(_, _)
PopTo(rs, r) == IF Last(rs).k = "ns" THEN PopTo(Front(rs), Append(r, T("}"))) ELSE <<rs, r>>
End(e) ==
  /\ phase \in {"ctx", "entry"} /\ stack # <<>>
  /\ LET f == Last(stack)
         err == e \/ f.err
         closeTok == IF ErrClose = "skip" /\ err THEN <<>> ELSE IF f.k = "obj" THEN <<T("}")>> ELSE IF f.k = "arr" THEN <<T("]")>> ELSE <<>>
         b1 == CASE f.k = "obj" -> buf \o closeTok \o (IF ObjNS = "noclose" THEN <<>> ELSE Braces(ns))
                 [] f.k = "arr" -> buf \o closeTok
                 [] f.k = "inl" -> buf
         report == err /\ f.ctx = "obj"
         popped == IF f.k = "inl" THEN <<rstack, ref>> ELSE PopTo(rstack, ref)
         \* an inline field adds no nesting: its frame goes, namespaces opened inside it stay open
         lastInl == CHOOSE i \in 1..Len(rstack) : rstack[i].k = "inl" /\ \A j \in (i + 1)..Len(rstack) : rstack[j].k # "inl"
         rs1 == IF f.k = "inl" THEN SubSeq(rstack, 1, lastInl - 1) \o SubSeq(rstack, lastInl + 1, Len(rstack)) ELSE Front(popped[1])
         r1 == IF f.k = "obj" THEN Append(popped[2], T("}")) ELSE IF f.k = "arr" THEN Append(popped[2], T("]")) ELSE popped[2]
     IN /\ buf' = IF report THEN ErrKV(b1, f.id) ELSE b1
        /\ ns' = IF f.k = "obj" /\ ObjNS # "norestore" THEN f.saved ELSE IF f.k = "obj" THEN 0 ELSE ns
        /\ stack' = IF err /\ f.ctx = "arr" /\ Len(stack) > 1
                    THEN [Front(stack) EXCEPT ![Len(stack) - 1].err = TRUE] ELSE Front(stack)
        /\ IF report
           THEN LET top == CHOOSE i \in 1..Len(rs1) : rs1[i].k # "inl" /\ \A j \in (i + 1)..Len(rs1) : rs1[j].k = "inl"
                    c == IF rs1[top].n = 0 THEN r1 ELSE r1 \o CommaTok
                    kv == IF Spaced THEN <<K(f.id, "Error"), T(":"), T(" "), V(f.id, "Error")>> ELSE <<K(f.id, "Error"), T(":"), V(f.id, "Error")>>
                IN ref' = c \o kv /\ rstack' = [rs1 EXCEPT ![top].n = @ + 1]
           ELSE ref' = r1 /\ rstack' = rs1
        /\ prog' = Append(prog, IF e THEN "Xe" ELSE "X")
        /\ UNCHANGED <<cfg, phase, calls, cuts>>

\* ---- With boundary: the context encoder is cloned (buffer and counter copied) ---
Cut == /\ phase = "ctx" /\ stack = <<>> /\ cuts < MaxCuts /\ prog # <<>> /\ Last(prog) # "|"
       /\ cuts' = cuts + 1 /\ prog' = Append(prog, "|")
       /\ UNCHANGED <<cfg, phase, buf, ns, stack, calls, ref, rstack>>

\* ---- EncodeEntry: metadata, then the context ---------------------------------
FbVal(b, id, e) == IF e = "noop" \/ e = "nil"
                   THEN (IF Fallback = "code" THEN AppendVal(b, id, "fallback") ELSE b)
                   ELSE AppendVal(b, id, "enc")
MLevel(b) == IF cfg.lk /\ cfg.el # "nil" THEN FbVal(AddKey(b, 101, ""), 101, cfg.el) ELSE b
MTime(b) == IF cfg.tk /\ ~cfg.tz THEN FbVal(AddKey(b, 102, ""), 102, cfg.et) ELSE b
MName(b) == IF cfg.nm /\ cfg.nk THEN FbVal(AddKey(b, 103, ""), 103, IF cfg.en = "nil" THEN "str" ELSE cfg.en) ELSE b
MCaller(b) == IF ~cfg.cd THEN b
              ELSE LET b1 == IF cfg.ck /\ cfg.ec # "nil" THEN FbVal(AddKey(b, 104, ""), 104, cfg.ec) ELSE b
                   IN IF cfg.fk THEN AddKV(b1, 105, "", "") ELSE b1
MMsg(b) == IF cfg.mk THEN AddKV(b, 106, "", "") ELSE b
Meta == MMsg(MCaller(MName(MTime(MLevel(<<T("{")>>)))))
\* reference: which metadata pairs the documentation promises, in order
MetaPairs == (IF cfg.lk /\ cfg.el # "nil" THEN << <<101, "", IF cfg.el = "noop" THEN "fallback" ELSE "enc">> >> ELSE <<>>)
          \o (IF cfg.tk /\ ~cfg.tz THEN << <<102, "", IF cfg.et \in {"nil", "noop"} THEN "fallback" ELSE "enc">> >> ELSE <<>>)
          \o (IF cfg.nk /\ cfg.nm THEN << <<103, "", IF cfg.en = "noop" THEN "fallback" ELSE "enc">> >> ELSE <<>>)
          \o (IF cfg.cd /\ cfg.ck /\ cfg.ec # "nil" THEN << <<104, "", IF cfg.ec = "noop" THEN "fallback" ELSE "enc">> >> ELSE <<>>)
          \o (IF cfg.cd /\ cfg.fk THEN << <<105, "", "">> >> ELSE <<>>)
          \o (IF cfg.mk THEN << <<106, "", "">> >> ELSE <<>>)
RECURSIVE MetaRef(_, _)
MetaRef(r, i) == IF i > Len(MetaPairs) THEN r
                 ELSE MetaRef((IF i = 1 THEN r ELSE r \o CommaTok)
                              \o (IF Spaced THEN <<K(MetaPairs[i][1], ""), T(":"), T(" "), V(MetaPairs[i][1], MetaPairs[i][3])>>
                                  ELSE <<K(MetaPairs[i][1], ""), T(":"), V(MetaPairs[i][1], MetaPairs[i][3])>>), i + 1)
BeginEntry ==
  /\ phase = "ctx" /\ stack = <<>>
  /\ phase' = "entry"
  /\ buf' = IF Len(buf) > 0 THEN (IF CtxSep = "code" THEN Sep(Meta) ELSE Meta) \o buf ELSE Meta
  /\ ref' = MetaRef(<<T("{")>>, 1) \o (IF Len(MetaPairs) > 0 /\ Len(ref) > 0 THEN CommaTok ELSE <<>>) \o ref
  /\ rstack' = [rstack EXCEPT ![1].n = @ + Len(MetaPairs)]
  /\ prog' = Append(prog, "#")
  /\ UNCHANGED <<cfg, ns, stack, calls, cuts>>

Finish ==
  /\ phase = "entry" /\ stack = <<>>
  /\ phase' = "done"
  /\ LET b1 == buf \o Braces(ns)
         b2 == IF cfg.st /\ cfg.sk THEN AddKV(b1, 107, "", "") ELSE b1
         ending == IF cfg.le = "skip" THEN <<>> ELSE << [t |-> "nl", id |-> 0, sub |-> cfg.le] >>
         popped == PopTo(rstack, ref)
         hadAny == popped[1][1].n > 0
         r2 == IF cfg.st /\ cfg.sk
               THEN (IF hadAny THEN popped[2] \o CommaTok ELSE popped[2])
                    \o (IF Spaced THEN <<K(107, ""), T(":"), T(" "), V(107, "")>> ELSE <<K(107, ""), T(":"), V(107, "")>>)
               ELSE popped[2]
     IN /\ buf' = Append(b2, T("}")) \o ending
        /\ ref' = Append(r2, T("}")) \o ending
        /\ rstack' = << [k |-> "root", n |-> 0] >>
  /\ ns' = 0
  /\ UNCHANGED <<cfg, stack, calls, cuts, prog>>

Next == OpS \/ OpV \/ OpZ \/ OpE \/ OpG2 \/ OpN \/ OpO \/ OpA \/ OpI \/ ArrS \/ ArrE \/ ArrO \/ ArrA
        \/ End(FALSE) \/ End(TRUE) \/ Cut \/ BeginEntry \/ Finish
Spec == Init /\ [][Next]_vars
View == <<cfg, phase, buf, ns, stack, calls, cuts, ref, rstack>>

\* ---- C01: a pushdown recogniser for one JSON value over the token alphabet ------
RStep(s, t) ==
  LET st == s[1]
      exp == s[2]
      after(st2) == IF Len(st2) = 0 THEN <<st2, "end">> ELSE <<st2, "commaOrEnd">>
  IN CASE t.t = " " -> s
       [] exp = "end" /\ t.t = "nl" -> <<st, "eol">>
       [] exp \in {"val", "valOrEnd"} /\ t.t = "v" -> after(st)
       [] exp \in {"val", "valOrEnd"} /\ t.t = "{" -> <<Append(st, "o"), "keyOrEnd">>
       [] exp \in {"val", "valOrEnd"} /\ t.t = "[" -> <<Append(st, "a"), "valOrEnd">>
       [] exp = "valOrEnd" /\ t.t = "]" /\ Len(st) > 0 /\ Last(st) = "a" -> after(Front(st))
       [] exp \in {"keyOrEnd", "key"} /\ t.t = "k" -> <<st, "colon">>
       [] exp = "keyOrEnd" /\ t.t = "}" /\ Len(st) > 0 /\ Last(st) = "o" -> after(Front(st))
       [] exp = "colon" /\ t.t = ":" -> <<st, "val">>
       [] exp = "commaOrEnd" /\ t.t = "," -> <<st, IF Last(st) = "o" THEN "key" ELSE "val">>
       [] exp = "commaOrEnd" /\ t.t = "}" /\ Last(st) = "o" -> after(Front(st))
       [] exp = "commaOrEnd" /\ t.t = "]" /\ Last(st) = "a" -> after(Front(st))
       [] OTHER -> <<st, "bad">>
Run(b) == FoldLeft(RStep, <<<<>>, "val">>, b)
\* the line under construction is always a prefix of a JSON value (the context buffer lacks its opening brace)
ValidPrefix == Run(IF phase = "ctx" THEN <<T("{")>> \o buf ELSE buf)[2] # "bad"
\* exactly one object, then exactly the configured line ending
WellFormed == phase = "done" => Run(buf) = <<<<>>, IF cfg.le = "skip" THEN "end" ELSE "eol">>
\* C02 / C10: the bytes are exactly what the structural printer produces for the logged tree
Refines == buf = ref
\* C10: every failing marshaler is reported by a "<key>Error" pair
Errs(s) == Cardinality({i \in 1..Len(s) : s[i].t = "k" /\ s[i].sub = "Error"})

\* compact rendering of a token list: "{ k3 : v3 , k3.Error : v3.Error } nl.default"
TokOne(t) == IF t.t \in {"k", "v"} THEN t.t \o ToString(t.id) \o (IF t.sub = "" THEN "" ELSE "." \o t.sub)
             ELSE IF t.t = "nl" THEN "nl." \o t.sub ELSE IF t.t = " " THEN "_" ELSE t.t
TokStr(b) == FoldLeft(LAMBDA acc, t : IF acc = "" THEN TokOne(t) ELSE acc \o " " \o TokOne(t), "", b)
EmitBeh == IF Emit /\ phase = "done"
           THEN PrintT("@@BEH " \o ToJson([cfg |-> cfg, prog |-> prog, toks |-> TokStr(buf)]))
           ELSE TRUE
=============================================================================
