------------------------------ MODULE Observer ------------------------------
(***************************************************************************)
(* zaptest/observer: ObservedLogs.add / TakeAll / All                      *)
(* (zaptest/observer/observer.go).  An observer core is a sink like any    *)
(* other (a tee branch in tests, the sink of C04 / C09 scenarios): loggers *)
(* append under the mutex, a consumer drains with TakeAll.                 *)
(*                                                                         *)
(*   add(e)   : lock; logs = append(logs, e); unlock                       *)
(*   TakeAll  : lock; out = logs; logs = nil; unlock; return out           *)
(* TakeAll is ONE critical section and gives its storage away (logs = nil):*)
(* every entry is handed out exactly once, and a batch that was handed out *)
(* never changes again.  Spec mutants: Take = "two-step" (copy under the   *)
(* read lock, truncate under a later write lock) loses entries; Take =     *)
(* "alias" (logs = logs[:0]) keeps the storage, so later adds overwrite    *)
(* the batch the caller holds.                                             *)
(***************************************************************************)
EXTENDS Integers, Sequences, FiniteSets, TLC

CONSTANTS Producers, PerProducer, MaxTakes,
          Take          \* "atomic" = code; "two-step" | "alias" = spec mutants

VARIABLES len,        \* length of the observer's slice
          sent,       \* entries each producer has added so far
          batches,    \* what TakeAll returned: sequences of [from, to] views into a backing array generation
          gen,        \* generation of the backing array (a fresh one after logs = nil)
          arrays,     \* generation -> contents (so that aliasing is visible)
          pcT, snapLen, takes
vars == <<len, sent, batches, gen, arrays, pcT, snapLen, takes>>
Cap == Cardinality(Producers) * PerProducer

Init == /\ len = 0 /\ sent = [p \in Producers |-> 0]
        /\ batches = <<>> /\ gen = 1 /\ arrays = <<[i \in 1..Cap |-> <<>>]>> /\ pcT = "idle" /\ snapLen = 0 /\ takes = 0

Cur == arrays[gen]
Add(p) == /\ sent[p] < PerProducer /\ sent' = [sent EXCEPT ![p] = @ + 1]
          /\ arrays' = [arrays EXCEPT ![gen] = [Cur EXCEPT ![len + 1] = <<p, sent[p] + 1>>]]
          /\ len' = len + 1
          /\ UNCHANGED <<batches, gen, pcT, snapLen, takes>>

\* TakeAll in one critical section
TakeAtomic == /\ Take \in {"atomic", "alias"} /\ pcT = "idle" /\ takes < MaxTakes /\ takes' = takes + 1
              /\ batches' = Append(batches, [g |-> gen, n |-> len])
              /\ len' = 0
              /\ IF Take = "atomic"
                 THEN gen' = gen + 1 /\ arrays' = Append(arrays, [i \in 1..Cap |-> <<>>])   \* logs = nil: new storage next time
                 ELSE UNCHANGED <<gen, arrays>>                                          \* logs = logs[:0]: same storage
              /\ UNCHANGED <<sent, pcT, snapLen>>
\* TakeAll in two critical sections
TakeCopy == /\ Take = "two-step" /\ pcT = "idle" /\ takes < MaxTakes /\ takes' = takes + 1
            /\ snapLen' = len /\ pcT' = "truncate"
            /\ batches' = Append(batches, [g |-> gen, n |-> len])
            /\ UNCHANGED <<len, sent, gen, arrays>>
TakeTruncate == /\ pcT = "truncate" /\ pcT' = "idle" /\ len' = 0 /\ gen' = gen + 1
                /\ arrays' = Append(arrays, [i \in 1..Cap |-> <<>>])
                /\ UNCHANGED <<sent, batches, snapLen, takes>>
Next == (\E p \in Producers : Add(p)) \/ TakeAtomic \/ TakeCopy \/ TakeTruncate
Spec == Init /\ [][Next]_vars

\* what the consumer sees when it reads its batches now
Contents(b) == [i \in 1..b.n |-> arrays[b.g][i]]
RECURSIVE Flat(_)
Flat(bs) == IF bs = <<>> THEN <<>> ELSE Contents(Head(bs)) \o Flat(Tail(bs))
Everything == Flat(batches) \o [i \in 1..len |-> Cur[i]]
Of(p, s) == SelectSeq(s, LAMBDA e : e[1] = p)
\* every entry is handed out (or still held) exactly once, each producer's entries in its own order
ExactlyOnce == pcT = "idle" => \A p \in Producers : Of(p, Everything) = [i \in 1..sent[p] |-> <<p, i>>]
=============================================================================
