----------------------------- MODULE Sampler -----------------------------
(***************************************************************************)
(* zapcore sampler (zapcore/sampler.go).                                   *)
(*                                                                         *)
(* sampler.Check(ent):                                                     *)
(*   if !Enabled(level)            -> return (no budget, no hook)          *)
(*   if level in [_minLevel,_maxLevel]:                                    *)
(*        c = counts[level][fnv32a(msg) % 4096]                            *)
(*        n = c.IncCheckReset(ent.Time, tick)                              *)
(*        if n > first && (thereafter == 0 || (n-first)%thereafter != 0)   *)
(*              hook(LogDropped); return                                   *)
(*        hook(LogSampled)                                                 *)
(*   return Core.Check(ent, ce)          (out-of-range: passes unsampled)  *)
(*                                                                         *)
(* IncCheckReset is three atomics: Load(resetAt); then either Add(counter) *)
(* or Store(counter,1), CAS(resetAt) and, if the CAS lost, Add(counter).   *)
(* Each goroutine g runs its entries one after the other; the atomics of   *)
(* different goroutines interleave freely.  With one goroutine this is the *)
(* sequential sampler.  Counter cells are shared by With-derived cores     *)
(* (SharedCounts), by messages whose hashes collide (Bucket) and never by  *)
(* different levels.                                                       *)
(***************************************************************************)
EXTENDS Integers, Sequences, FiniteSets, TLC, Json

CONSTANTS G,            \* goroutines
          E,            \* entries per goroutine
          N, M, Tick,   \* first, thereafter, tick
          Times,        \* timestamps an entry may carry (not required to be monotone)
          Levels,       \* subset of {"on", "on2", "off", "oor"}: two enabled levels, a disabled one, out of range
          Msgs,         \* subset of {"a", "a2", "b", "c", "d"}: a and a2 collide; c and d sit in buckets next to a's (independent)
          Cores,        \* subset of {"root", "child"}: child = root.With(...)
          InitResetAt,  \* 0 normally; large for the "already open window" configs
          SharedCounts, \* TRUE = code (With shares counters); FALSE = spec mutant
          WindowCmp,    \* "gt" = code (resetAt > tn); "ge" = spec mutant
          ModRule,      \* "code" : (n-first)%thereafter != 0 drops ; "one" : spec mutant ... == 1 keeps
          InitMin,      \* the wrapped core's minimum level when the history starts: "off" < "on" < "on2" < "none"
          LevelRead,    \* "check" = code (the wrapped core's level is read on every Check); "construct" = spec mutant
          MaxToggles,   \* how often the wrapped core's level may be changed at run time (AtomicLevel.SetLevel)
          Emit

Bucket(m) == IF m = "a2" THEN "a" ELSE m
Cell(core, lvl, m) == <<IF SharedCounts THEN "root" ELSE core, lvl, Bucket(m)>>
Cells == {Cell(c, l, m) : c \in Cores, l \in Levels \ {"oor"}, m \in Msgs}
\* The wrapped core's LevelEnabler is consulted on every Check (sampler.Enabled is the embedded core's), never
\* cached: the level names are ordered, "oor" lies above every threshold.
Rank(l) == CASE l = "off" -> 0 [] l = "on" -> 1 [] l = "on2" -> 2 [] l = "none" -> 3 [] OTHER -> 9
MinLevels == (Levels \ {"oor"}) \cup {"none"}

VARIABLES resetAt, counter,      \* per cell
          pc, ent, ra, n, k,     \* per goroutine: program counter, current entry, loaded resetAt, count, entries started
          win,                   \* per cell: timestamps of the counted entries, in the order they were counted (ghost)
          dec, hooks, fwd,       \* sets of <<g, k, ...>> observations
          resets,                \* number of times a window was (re)opened after Init
          minLvl, toggles,       \* the wrapped core's current minimum level; level changes so far
          skipped,               \* <<g, k>> of the entries that arrived while their level was disabled (ghost)
          h
vars == <<resetAt, counter, pc, ent, ra, n, k, win, dec, hooks, fwd, resets, minLvl, toggles, skipped, h>>
NoHist == <<resetAt, counter, pc, ent, ra, n, k, win, dec, hooks, fwd, resets, minLvl, toggles, skipped>>
Enabled(l) == Rank(l) >= Rank(minLvl)
SeenEnabled(l) == IF LevelRead = "check" THEN Enabled(l) ELSE Rank(l) >= Rank(InitMin)

NoEnt == [core |-> "root", lvl |-> "on", msg |-> "a", t |-> 0]
Init == /\ resetAt = [c \in Cells |-> InitResetAt] /\ counter = [c \in Cells |-> 0]
        /\ pc = [g \in G |-> "idle"] /\ ent = [g \in G |-> NoEnt] /\ ra = [g \in G |-> 0]
        /\ n = [g \in G |-> 0] /\ k = [g \in G |-> 0]
        /\ win = [c \in Cells |-> <<>>]
        /\ dec = {} /\ hooks = {} /\ fwd = {} /\ resets = 0 /\ h = <<>>
        /\ minLvl = InitMin /\ toggles = 0 /\ skipped = {}

Rec(g, a) == h' = IF Emit THEN Append(h, [g |-> g, a |-> a, e |-> ent[g], k |-> k[g]]) ELSE h
RecStart(g) == h' = IF Emit THEN Append(h, [g |-> g, a |-> "Start", e |-> ent'[g], k |-> k'[g]]) ELSE h
C(g) == Cell(ent[g].core, ent[g].lvl, ent[g].msg)

\* Check entered: level pre-check and range test
Start(g) ==
  /\ pc[g] = "idle" /\ k[g] < E
  /\ \E c \in Cores, l \in Levels, m \in Msgs, t \in Times :
       ent' = [ent EXCEPT ![g] = [core |-> c, lvl |-> l, msg |-> m, t |-> t]]
  /\ k' = [k EXCEPT ![g] = @ + 1]
  /\ pc' = [pc EXCEPT ![g] = CASE ~SeenEnabled(ent'[g].lvl) -> "idle"    \* disabled: nothing happens
                               [] ent'[g].lvl = "oor" -> "fwd"       \* out of range: straight to the wrapped core
                               [] OTHER -> "load"]
  /\ skipped' = IF Enabled(ent'[g].lvl) THEN skipped ELSE skipped \cup {<<g, k'[g]>>}
  /\ RecStart(g)
  /\ UNCHANGED <<resetAt, counter, ra, n, win, dec, hooks, fwd, resets, minLvl, toggles>>

\* the application changes the wrapped core's level at run time
SetMin(m) ==
  /\ toggles < MaxToggles /\ m \in MinLevels \ {minLvl}
  /\ minLvl' = m /\ toggles' = toggles + 1
  /\ h' = IF Emit THEN Append(h, [g |-> "env", a |-> "SetMin", e |-> [NoEnt EXCEPT !.lvl = m], k |-> 0]) ELSE h
  /\ UNCHANGED <<resetAt, counter, pc, ent, ra, n, k, win, dec, hooks, fwd, resets, skipped>>

InWindow(r, t) == IF WindowCmp = "gt" THEN r > t ELSE r >= t
Load(g) ==
  /\ pc[g] = "load" /\ ra' = [ra EXCEPT ![g] = resetAt[C(g)]]
  /\ pc' = [pc EXCEPT ![g] = IF InWindow(resetAt[C(g)], ent[g].t) THEN "fastadd" ELSE "store"]
  /\ Rec(g, "Load")
  /\ UNCHANGED <<resetAt, counter, ent, n, k, win, dec, hooks, fwd, resets, minLvl, toggles, skipped>>
Add(g) ==
  /\ pc[g] \in {"fastadd", "slowadd"}
  /\ counter' = [counter EXCEPT ![C(g)] = @ + 1] /\ n' = [n EXCEPT ![g] = counter[C(g)] + 1]
  /\ win' = [win EXCEPT ![C(g)] = Append(@, ent[g].t)]
  /\ pc' = [pc EXCEPT ![g] = "decide"]
  /\ Rec(g, "Add")
  /\ UNCHANGED <<resetAt, ent, ra, k, dec, hooks, fwd, resets, minLvl, toggles, skipped>>
Store(g) ==
  /\ pc[g] = "store" /\ counter' = [counter EXCEPT ![C(g)] = 1] /\ pc' = [pc EXCEPT ![g] = "cas"]
  /\ Rec(g, "Store")
  /\ UNCHANGED <<resetAt, ent, ra, n, k, win, dec, hooks, fwd, resets, minLvl, toggles, skipped>>
Cas(g) ==
  /\ pc[g] = "cas"
  /\ IF resetAt[C(g)] = ra[g]
     THEN /\ resetAt' = [resetAt EXCEPT ![C(g)] = ent[g].t + Tick]
          /\ n' = [n EXCEPT ![g] = 1] /\ pc' = [pc EXCEPT ![g] = "decide"]
          /\ win' = [win EXCEPT ![C(g)] = Append(@, ent[g].t)] /\ resets' = resets + 1   \* a new window opens
     ELSE /\ UNCHANGED <<resetAt, n, win, resets, minLvl, toggles, skipped>> /\ pc' = [pc EXCEPT ![g] = "slowadd"]
  /\ Rec(g, "Cas")
  /\ UNCHANGED <<counter, ent, ra, k, dec, hooks, fwd, minLvl, toggles, skipped>>

Sampled(x) == IF ModRule = "code" THEN ~(x > N /\ (M = 0 \/ (x - N) % M # 0))
              ELSE ~(x > N /\ (M = 0 \/ (x - N) % M # 1 % M))
Decide(g) ==
  /\ pc[g] = "decide" /\ dec' = dec \cup {<<g, k[g], Sampled(n[g])>>}
  /\ pc' = [pc EXCEPT ![g] = "hook"] /\ Rec(g, "Decide")
  /\ UNCHANGED <<resetAt, counter, ent, ra, n, k, win, hooks, fwd, resets, minLvl, toggles, skipped>>
Hook(g) ==
  /\ pc[g] = "hook" /\ hooks' = hooks \cup {<<g, k[g], Sampled(n[g])>>}
  /\ pc' = [pc EXCEPT ![g] = IF Sampled(n[g]) THEN "fwd" ELSE "idle"]
  /\ Rec(g, "Hook")
  /\ UNCHANGED <<resetAt, counter, ent, ra, n, k, win, dec, fwd, resets, minLvl, toggles, skipped>>
Fwd(g) ==
  /\ pc[g] = "fwd" /\ fwd' = fwd \cup {<<g, k[g]>>} /\ pc' = [pc EXCEPT ![g] = "idle"]
  /\ Rec(g, "Fwd")
  /\ UNCHANGED <<resetAt, counter, ent, ra, n, k, win, dec, hooks, resets, minLvl, toggles, skipped>>

Next == (\E m \in MinLevels : SetMin(m)) \/ \E g \in G : Start(g) \/ Load(g) \/ Add(g) \/ Store(g) \/ Cas(g) \/ Decide(g) \/ Hook(g) \/ Fwd(g)
Spec == Init /\ [][Next]_vars

Quiet == \A g \in G : pc[g] = "idle"
AllDone == Quiet /\ \A g \in G : k[g] = E

\* ---- C11
\* reference admission rule for the x-th entry of a window
Admit(x) == x <= N \/ (M > 0 /\ (x - N) % M = 0)
\* per-entry accounting, under any interleaving: one decision, one hook call carrying it,
\* forwarded iff sampled (out-of-range entries are forwarded undecided)
Accounting == Quiet =>
   /\ hooks = dec
   /\ \A d1, d2 \in dec : (d1[1] = d2[1] /\ d1[2] = d2[2]) => d1 = d2
   /\ \A d \in dec : d[3] <=> <<d[1], d[2]>> \in fwd
\* entries at a level that was disabled when they arrived are invisible: no decision, no hook, no forward, and
\* (since win only grows in Add/Cas) no place in any window
DisabledUntouched ==
   /\ \A d \in dec \cup hooks : <<d[1], d[2]>> \notin skipped
   /\ fwd \cap skipped = {}
\* sequential histories (one goroutine): the decision for every entry is the reference rule applied to
\* its position in its window
\* reference window position of the last entry of ts, from timestamps alone: a window is opened by the
\* first entry stamped at or after the end of the previous one and lasts Tick
RECURSIVE RefPos(_, _, _, _)
RefPos(ts, i, wend, pos) ==
  IF i > Len(ts) THEN pos
  ELSE IF ts[i] >= wend THEN RefPos(ts, i + 1, ts[i] + Tick, 1)
       ELSE RefPos(ts, i + 1, wend, pos + 1)
SeqExact == (Cardinality(G) = 1) =>
   \A g \in G : pc[g] = "decide" =>
      LET x == RefPos(win[C(g)], 1, InitResetAt, 0) IN n[g] = x /\ (Sampled(n[g]) <=> Admit(x))
\* concurrent: while nobody reopens the window, the admitted count is exact
OpenWindowExact == (Quiet /\ resets = 0) =>
   \A c \in Cells : Cardinality({d \in dec : d[3]}) = Cardinality({i \in 1..Cardinality(dec) : Admit(i)})
                    \/ Cardinality(Cells) > 1

EmitBeh == IF Emit /\ AllDone
           THEN PrintT("@@BEH " \o ToJson([h |-> h, dec |-> dec, fwd |-> fwd, resets |-> resets]))
           ELSE TRUE
==========================================================================
