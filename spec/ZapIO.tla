------------------------------ MODULE ZapIO ------------------------------
(***************************************************************************)
(* zapio.Writer (zapio/writer.go): an io.Writer that logs the newline-     *)
(* delimited lines of the byte stream written to it.                       *)
(*                                                                         *)
(* Implementation-shaped: Write is WriteBegin (level pre-check), then one  *)
(* WriteLine action per iteration of the `for len(bs) > 0` loop (the three *)
(* branches of writeLine: no newline -> buffer; fast path; buffered path   *)
(* with flush(allowEmpty)), then WriteEnd (return n).  Sync/Close are      *)
(* flush(false).  The level of the wrapped logger may be switched between  *)
(* calls (SetEnabled); `log` drops the message when the level is disabled. *)
(*                                                                         *)
(* Reference (what C17 promises): Lines(consumed) where `consumed` is the  *)
(* stream with "S" marks at Sync/Close.                                    *)
(***************************************************************************)
EXTENDS Integers, Sequences, TLC, Json, SequencesExt

CONSTANTS MaxLen,     \* bound on total stream length
          MaxOps,     \* bound on number of API calls in a behaviour
          MaxToggles, \* bound on SetEnabled calls (0: level always enabled)
          Alphabet, NL,
          FastPathGuard, \* TRUE = code (`buff.Len() == 0` guards the fast path); FALSE = mutant
          ResetOnFlush,  \* TRUE = code; FALSE = mutant: buffer kept after flush
          Emit           \* TRUE: generator config prints complete behaviours

VARIABLES buff,     \* w.buff contents
          logged,   \* messages that reached the logger (observer core)
          enabled,  \* is w.Level enabled on the logger's core right now
          pc,       \* "idle" | "loop" (inside Write) | "closed"
          rem,      \* remaining bytes of the current Write
          curN,     \* len(bs) of the current Write
          consumed, \* reference stream: all bytes accepted while enabled + "S" marks
          everOff,  \* was the level ever disabled (reference only defined when FALSE)
          toggles,
          h         \* history of completed API calls with predicted observables
vars == <<buff, logged, enabled, pc, rem, curN, consumed, everOff, toggles, h>>

Init == /\ buff = <<>> /\ logged = <<>> /\ enabled = TRUE /\ pc = "idle"
        /\ rem = <<>> /\ curN = 0 /\ consumed = <<>> /\ everOff = FALSE /\ toggles = 0
        /\ h = <<>>

Chunks == UNION {[1..n -> Alphabet] : n \in 0..MaxLen}

Log(lg, m) == IF enabled THEN Append(lg, m) ELSE lg   \* w.log: Check returns nil when disabled

IndexNL(bs) == IF \E i \in 1..Len(bs) : bs[i] = NL
               THEN CHOOSE i \in 1..Len(bs) : bs[i] = NL /\ \A j \in 1..(i-1) : bs[j] # NL
               ELSE 0

Rec(op, c, n, lg, en) == [op |-> op, c |-> c, n |-> n, logged |-> lg, en |-> en]

\* ---- Write(bs)
WriteBegin ==
  /\ pc = "idle" /\ Len(h) < MaxOps
  /\ \E c \in Chunks :
       /\ Len(SelectSeq(consumed, LAMBDA x : x \notin {"S", "D"})) + Len(c) <= MaxLen
       /\ IF ~enabled \/ Len(c) = 0
          THEN \* level pre-check fails (bytes dropped, n = len) or the loop body never runs
               /\ h' = Append(h, Rec("W", c, Len(c), logged, enabled))
               /\ consumed' = IF enabled THEN consumed \o c ELSE consumed
               /\ UNCHANGED <<pc, rem, curN>>
          ELSE /\ pc' = "loop" /\ rem' = c /\ curN' = Len(c)
               /\ consumed' = consumed \o c
               /\ UNCHANGED h
  /\ UNCHANGED <<buff, logged, enabled, everOff, toggles>>

\* one iteration of `for len(bs) > 0 { bs = w.writeLine(bs) }`
WriteLine ==
  /\ pc = "loop" /\ Len(rem) > 0
  /\ LET idx == IndexNL(rem) IN
     IF idx = 0
     THEN /\ buff' = buff \o rem /\ rem' = <<>> /\ UNCHANGED logged          \* buffer everything
     ELSE LET line == SubSeq(rem, 1, idx - 1)
              rest == SubSeq(rem, idx + 1, Len(rem))
          IN /\ rem' = rest
             /\ IF Len(buff) = 0 \/ ~FastPathGuard
                THEN /\ logged' = Log(logged, line) /\ UNCHANGED buff        \* fast path
                ELSE /\ logged' = Log(logged, buff \o line)                  \* flush(allowEmpty)
                     /\ buff' = IF ResetOnFlush THEN <<>> ELSE buff \o line
  /\ UNCHANGED <<enabled, pc, curN, consumed, everOff, toggles, h>>

WriteEnd ==
  /\ pc = "loop" /\ Len(rem) = 0
  /\ pc' = "idle"
  /\ UNCHANGED <<buff, logged, enabled, rem, curN, consumed, everOff, toggles>>
  /\ h' = Append(h, Rec("W", SubSeq(consumed, Len(consumed) - curN + 1, Len(consumed)), curN, logged, enabled))

\* ---- Sync / Close: flush(false)
SyncOrClose(cl) ==
  /\ pc = "idle"
  /\ logged' = IF Len(buff) > 0 THEN Log(logged, buff) ELSE logged
  /\ buff' = <<>>
  /\ consumed' = Append(consumed, IF enabled THEN "S" ELSE "D")   \* a flush while the level is disabled discards
  /\ pc' = IF cl THEN "closed" ELSE "idle"
  /\ UNCHANGED <<enabled, rem, curN, everOff, toggles>>
  /\ h' = Append(h, Rec(IF cl THEN "C" ELSE "S", <<>>, 0, logged', enabled))

SetEnabled ==
  /\ pc = "idle" /\ toggles < MaxToggles /\ Len(h) < MaxOps
  /\ enabled' = ~enabled /\ toggles' = toggles + 1 /\ everOff' = TRUE
  /\ UNCHANGED <<buff, logged, pc, rem, curN, consumed>>
  /\ h' = Append(h, Rec("E", <<>>, 0, logged, enabled'))

Next == WriteBegin \/ WriteLine \/ WriteEnd
        \/ (Len(h) < MaxOps /\ SyncOrClose(FALSE)) \/ SyncOrClose(TRUE)
        \/ SetEnabled
Spec == Init /\ [][Next]_vars

\* ---- reference: the lines of the stream ("S" marks are split points)
RECURSIVE Lines(_, _, _)
Lines(s, cur, acc) ==
  IF Len(s) = 0 THEN <<acc, cur>>
  ELSE IF Head(s) = NL  THEN Lines(Tail(s), <<>>, Append(acc, cur))
  ELSE IF Head(s) = "S" THEN Lines(Tail(s), <<>>, IF Len(cur) > 0 THEN Append(acc, cur) ELSE acc)
  ELSE IF Head(s) = "D" THEN Lines(Tail(s), <<>>, acc)
  ELSE Lines(Tail(s), Append(cur, Head(s)), acc)

\* C17: between API calls the logged messages are exactly the complete lines so far and
\* the buffer holds exactly the unterminated tail.
\* With level changes the stream is what was written while the level was enabled (bytes written while it is
\* disabled are consumed and dropped, a flush while disabled discards the pending fragment): nothing is ever
\* logged while disabled, and what is logged are exactly the lines of that stream.
LinesExact == (pc # "loop") =>
                 LET r == Lines(consumed, <<>>, <<>>) IN logged = r[1] /\ buff = r[2]
\* nothing is logged while the level is disabled
QuietWhenDisabled == [][~enabled => logged' = logged]_vars
\* logged only ever grows by appending (no reorder / rewrite)
AppendOnly == [][IsPrefix(logged, logged')]_vars
\* every Write reports all bytes
AllConsumed == \A i \in 1..Len(h) : h[i].op = "W" => h[i].n = Len(h[i].c)
NoHist == <<buff, logged, enabled, pc, rem, curN, consumed, everOff, toggles, Len(h)>>

EmitBeh == IF Emit /\ pc = "closed" THEN PrintT("@@BEH " \o ToJson(h)) ELSE TRUE
===========================================================================
