----------------------------- MODULE LoggerTree -----------------------------
(***************************************************************************)
(* Derived loggers and their contexts (logger.go: With, WithLazy, Named,   *)
(* WithOptions(Fields); zapcore/core.go ioCore.With; lazy_with.go;         *)
(* zaptest/observer: contextObserver.With / Write).                        *)
(*                                                                         *)
(* Implementation side: a logger is (core, name segments); several loggers *)
(* may share one core object (Named, Sugar/Desugar).  A core's context is  *)
(* a Go slice / buffer (backing array, len, cap): With builds the child's  *)
(* context from the parent's by copying (ioCore: Clone of the buffer;      *)
(* observer: append to a capacity-clamped slice), never in place.  A lazy  *)
(* core keeps (parent core, fields) and materialises - recursively forcing *)
(* its lazy ancestors - at the first enabled Check or the first With       *)
(* through it.  The observer's Write copies context + call-site fields     *)
(* into a fresh slice that the recorded entry owns.  Field values are read *)
(* from a mutable cell when the field is evaluated.                        *)
(*                                                                         *)
(* Reference (C07): an entry carries exactly the fields of the cores on    *)
(* its logger's own derivation path, in order, then its call-site fields,  *)
(* under its own name path; eager fields show the cell value at            *)
(* derivation, lazy ones the value at first use; recorded entries never    *)
(* change afterwards.                                                      *)
(***************************************************************************)
EXTENDS Integers, Sequences, FiniteSets, TLC, Json

CONSTANTS MaxCores, MaxLoggers, MaxLogs, MaxMut, MaxSteps, FieldCounts, Segs,
          WithCopy,   \* "clamp" = code (append to the capacity-clamped slice: always a new array, with Go's growth);
                      \* "append" = spec mutant (context appended in place when capacity allows)
          WriteCopy,  \* "copy" = code; "append" = spec mutant (observer Write appends call-site fields to the context slice)
          LazyWith,   \* "init" = code; "skip" = spec mutant (With through a lazy core does not materialise it)
          LazyCheck,  \* "enabled" = code; "always" = spec mutant (a disabled entry materialises the lazy core)
          Emit

VARIABLES cores, loggers, arrays, cell, muts, entries, ev, hist
vars == <<cores, loggers, arrays, cell, muts, entries, ev, hist>>

Empty == [a |-> 0, n |-> 0, c |-> 0]
Contents(arrs, sl) == IF sl.a = 0 THEN <<>> ELSE SubSeq(arrs[sl.a], 1, sl.n)
El(k, i, v) == [c |-> k, i |-> i, v |-> v]
Pad == El(0, 0, 0)

\* Go's append: <<arrays', slice'>>
AppendTo(arrs, sl, elems, mode) ==
  IF mode \in {"copy", "clamp"} \/ sl.a = 0 \/ sl.n + Len(elems) > sl.c
  THEN LET need == sl.n + Len(elems)
           \* "copy": make(len) exactly; "clamp": append to s[:n:n] - Go grows to max(2*n, need); "append": max(2*cap, need)
           newcap == IF mode = "copy" THEN need
                     ELSE IF mode = "clamp" THEN (IF 2 * sl.n > need THEN 2 * sl.n ELSE need)
                     ELSE (IF 2 * sl.c > need THEN 2 * sl.c ELSE need)
           cur == Contents(arrs, sl) \o elems
           arr == [k \in 1..newcap |-> IF k <= Len(cur) THEN cur[k] ELSE Pad]
       IN <<Append(arrs, arr), [a |-> Len(arrs) + 1, n |-> Len(cur), c |-> newcap]>>
  ELSE <<[arrs EXCEPT ![sl.a] = [k \in 1..sl.c |-> IF k > sl.n /\ k <= sl.n + Len(elems) THEN elems[k - sl.n] ELSE @[k]]],
         [a |-> sl.a, n |-> sl.n + Len(elems), c |-> sl.c]>>

Own(k, nf) == [i \in 1..nf |-> El(k, i, cell)]
\* materialise core k and its lazy ancestors: <<cores', arrays'>>
RECURSIVE Force(_, _, _)
Force(cs, arrs, k) ==
  IF k = 0 \/ cs[k].mat THEN <<cs, arrs>>
  ELSE LET r == Force(cs, arrs, cs[k].par)
           psl == IF cs[k].par = 0 THEN Empty ELSE r[1][cs[k].par].sl
           ap == AppendTo(r[2], psl, Own(k, cs[k].nf), WithCopy)
       IN <<[r[1] EXCEPT ![k].mat = TRUE, ![k].sl = ap[2]], ap[1]>>
\* reference side: which cores get evaluated by a use of core k (value = the cell now)
RECURSIVE EvalNow(_, _)
EvalNow(e, k) == IF k = 0 \/ e[k] # -1 THEN e ELSE [EvalNow(e, cores[k].par) EXCEPT ![k] = cell]
RECURSIVE RefCtx(_, _, _)
RefCtx(cs, e, k) == IF k = 0 THEN <<>> ELSE RefCtx(cs, e, cs[k].par) \o [i \in 1..cs[k].nf |-> El(k, i, e[k])]

Init == /\ cores = <<>> /\ loggers = << [core |-> 0, names |-> <<>>] >> /\ arrays = <<>> /\ cell = 0 /\ muts = 0
        /\ entries = <<>> /\ ev = <<>> /\ hist = <<>>

H(op, l, n, s) == hist' = Append(hist, [op |-> op, l |-> l, n |-> n, s |-> s])
With(l, nf) ==
  /\ Len(cores) < MaxCores /\ Len(loggers) < MaxLoggers
  /\ LET p == loggers[l].core
         k == Len(cores) + 1
         r == IF LazyWith = "init" THEN Force(cores, arrays, p) ELSE <<cores, arrays>>
         \* the spec mutant builds on whatever the parent has materialised so far
         psl == IF p = 0 THEN Empty ELSE IF r[1][p].mat THEN r[1][p].sl ELSE (IF r[1][p].par = 0 THEN Empty ELSE r[1][r[1][p].par].sl)
         ap == AppendTo(r[2], psl, Own(k, nf), WithCopy)
     IN /\ cores' = Append(r[1], [par |-> p, nf |-> nf, lazy |-> FALSE, mat |-> TRUE, sl |-> ap[2]])
        /\ arrays' = ap[1]
        /\ ev' = Append(EvalNow(ev, p), cell)
        /\ loggers' = Append(loggers, [core |-> k, names |-> loggers[l].names])
  /\ UNCHANGED <<cell, muts, entries>> /\ H("With", l, nf, "")
WithLazy(l, nf) ==
  /\ Len(cores) < MaxCores /\ Len(loggers) < MaxLoggers
  /\ cores' = Append(cores, [par |-> loggers[l].core, nf |-> nf, lazy |-> TRUE, mat |-> FALSE, sl |-> Empty])
  /\ ev' = Append(ev, -1)
  /\ loggers' = Append(loggers, [core |-> Len(cores) + 1, names |-> loggers[l].names])
  /\ UNCHANGED <<arrays, cell, muts, entries>> /\ H("WithLazy", l, nf, "")
Named(l, s) ==
  /\ Len(loggers) < MaxLoggers
  /\ loggers' = Append(loggers, [core |-> loggers[l].core, names |-> IF s = "" THEN loggers[l].names ELSE Append(loggers[l].names, s)])
  /\ UNCHANGED <<cores, arrays, cell, muts, entries, ev>> /\ H("Named", l, 0, s)
Mutate == /\ muts < MaxMut /\ muts' = muts + 1 /\ cell' = cell + 1
          /\ UNCHANGED <<cores, loggers, arrays, entries, ev>> /\ H("Mutate", 0, 0, "")
Log(l, nf, enabled) ==
  /\ Len(entries) < MaxLogs
  /\ LET p == loggers[l].core
         r == IF enabled \/ LazyCheck = "always" THEN Force(cores, arrays, p) ELSE <<cores, arrays>>
     IN IF enabled
        THEN LET sl == IF p = 0 THEN Empty ELSE r[1][p].sl
                 call == [i \in 1..nf |-> El(-Len(entries) - 1, i, cell)]
                 ap == AppendTo(r[2], sl, call, WriteCopy)
                 e1 == EvalNow(ev, p)
             IN /\ cores' = r[1] /\ arrays' = ap[1] /\ ev' = e1
                /\ entries' = Append(entries, [sl |-> ap[2], want |-> RefCtx(r[1], e1, p) \o call, names |-> loggers[l].names])
        ELSE /\ cores' = r[1] /\ arrays' = r[2] /\ UNCHANGED <<ev, entries>>
  /\ UNCHANGED <<loggers, cell, muts>> /\ H(IF enabled THEN "Log" ELSE "LogDisabled", l, nf, "")

Next == /\ Len(hist) < MaxSteps
        /\ \/ \E l \in 1..Len(loggers) : \E nf \in FieldCounts : With(l, nf) \/ WithLazy(l, nf)
           \/ \E l \in 1..Len(loggers) : \E s \in Segs \cup {""} : Named(l, s)
           \/ Mutate
           \/ \E l \in 1..Len(loggers) : \E nf \in {0, 1} : \E en \in BOOLEAN : Log(l, nf, en)
Spec == Init /\ [][Next]_vars
View == <<cores, loggers, arrays, cell, muts, entries, ev>>

\* C07: every recorded entry is, and stays, exactly its own path's context + its call-site fields
Exact == \A i \in 1..Len(entries) : Contents(arrays, entries[i].sl) = entries[i].want

EmitBeh == IF Emit /\ Len(entries) > 0 /\ (Len(hist) = MaxSteps \/ Len(entries) = MaxLogs) /\ hist[Len(hist)].op = "Log"
           THEN PrintT("@@BEH " \o ToJson([hist |-> hist,
                        entries |-> [i \in 1..Len(entries) |-> [names |-> entries[i].names,
                                       fields |-> [j \in 1..Len(entries[i].want) |-> <<entries[i].want[j].c, entries[i].want[j].i, entries[i].want[j].v>>]]]]))
           ELSE TRUE
=============================================================================
