--------------------------- MODULE ConsoleOverlap ---------------------------
(***************************************************************************)
(* Two EncodeEntry calls overlapping on ONE console encoder (the IO core   *)
(* holds no lock while encoding, so entries logged from several goroutines *)
(* through one logger are encoded concurrently by the same encoder value). *)
(* Each call collects its metadata columns through the user-suppliable     *)
(* sub-encoders (time, level, name, caller) into a scratch slice taken     *)
(* from a pool for that call, joins them into its own line buffer and      *)
(* returns the scratch slice.                                              *)
(* Scratch = "per-call" is the code; "per-encoder" is the spec mutant (one *)
(* scratch slice stored in the encoder and reset after use).               *)
(* C16 / C04: each line consists of exactly its own entry's columns.       *)
(***************************************************************************)
EXTENDS Integers, Sequences, FiniteSets, TLC, Json

CONSTANTS Procs, Scratch, Emit
Cols == <<"time", "level", "name", "caller">>
VARIABLES pc, own, shared, line, sched
vars == <<pc, own, shared, line, sched>>
Init == /\ pc = [p \in Procs |-> 1] /\ own = [p \in Procs |-> <<>>] /\ shared = <<>>
        /\ line = [p \in Procs |-> <<>>] /\ sched = <<>>
Col(p) == /\ pc[p] <= Len(Cols)
          /\ IF Scratch = "per-call" THEN own' = [own EXCEPT ![p] = Append(@, <<p, Cols[pc[p]]>>)] /\ UNCHANGED shared
             ELSE shared' = Append(shared, <<p, Cols[pc[p]]>>) /\ UNCHANGED own
          /\ pc' = [pc EXCEPT ![p] = @ + 1] /\ UNCHANGED line /\ sched' = Append(sched, <<p, Cols[pc[p]]>>)
Join(p) == /\ pc[p] = Len(Cols) + 1
           /\ line' = [line EXCEPT ![p] = IF Scratch = "per-call" THEN own[p] ELSE shared]
           /\ shared' = IF Scratch = "per-call" THEN shared ELSE <<>>
           /\ pc' = [pc EXCEPT ![p] = @ + 1] /\ UNCHANGED own /\ sched' = Append(sched, <<p, "join">>)
Next == \E p \in Procs : Col(p) \/ Join(p)
Spec == Init /\ [][Next]_vars
Done(p) == pc[p] = Len(Cols) + 2
OwnColumns == \A p \in Procs : Done(p) => line[p] = [i \in 1..Len(Cols) |-> <<p, Cols[i]>>]
EmitBeh == IF Emit /\ \A p \in Procs : Done(p) THEN PrintT("@@BEH " \o ToJson([sched |-> sched])) ELSE TRUE
=============================================================================
