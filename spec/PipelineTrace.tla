--------------------------- MODULE PipelineTrace ---------------------------
(***************************************************************************)
(* Trace specification for concurrent logging through a shared core        *)
(* (C04).  A recorded run is a sequence of events, totally ordered by one  *)
(* process-wide atomic counter:                                            *)
(*   start(g, i)   goroutine g is about to make its i-th log call          *)
(*   line(s, g, i, ok)  sink s received a line that decodes to entry i of  *)
(*                 goroutine g (ok = the line is intact: checksum, length, *)
(*                 exactly one line per sink write for synchronous sinks)  *)
(*   end(g, i)     the call has returned                                   *)
(*   reset         next recorded run                                       *)
(* Synchronous sinks (lock-protected) receive the line while the call is   *)
(* in progress; a buffered sink may deliver it later, in whole lines.      *)
(* The run is a behaviour of this spec iff every sink gets every accepted  *)
(* entry exactly once, intact, each goroutine's entries in its own order.  *)
(***************************************************************************)
EXTENDS Integers, Sequences, FiniteSets, TLC, Json

CONSTANTS G, S, SyncSinks      \* goroutine ids, sink ids, the sinks that are written during the call
Trace == ndJsonDeserialize("trace.ndjson")

VARIABLES l, active, done, last
\* active[g] = call in progress (0 = none); done[g] = calls completed; last[s][g] = highest entry of g seen by sink s
vars == <<l, active, done, last>>

Init == /\ l = 1 /\ active = [g \in G |-> 0] /\ done = [g \in G |-> 0]
        /\ last = [s \in S |-> [g \in G |-> 0]] /\ TLCSet(1, 0)
Ev == Trace[l]
IsEvent(e) == l <= Len(Trace) /\ Trace[l].e = e /\ l' = l + 1

TStart == /\ IsEvent("start") /\ Ev.g \in G /\ active[Ev.g] = 0 /\ Ev.i = done[Ev.g] + 1
          /\ active' = [active EXCEPT ![Ev.g] = Ev.i] /\ UNCHANGED <<done, last>>
\* a line: intact, the next entry of that goroutine at that sink (exactly once, in order), and not from the future;
\* a synchronous sink sees it while the call is in progress
TLine == /\ IsEvent("line") /\ Ev.g \in G /\ Ev.s \in S /\ Ev.ok
         /\ Ev.i = last[Ev.s][Ev.g] + 1
         /\ (Ev.i <= done[Ev.g] \/ active[Ev.g] = Ev.i)
         /\ (Ev.s \in SyncSinks => active[Ev.g] = Ev.i)
         /\ last' = [last EXCEPT ![Ev.s][Ev.g] = Ev.i] /\ UNCHANGED <<active, done>>
\* the call returns only after every synchronous sink has the line
TEnd == /\ IsEvent("end") /\ Ev.g \in G /\ active[Ev.g] = Ev.i
        /\ \A s \in SyncSinks : last[s][Ev.g] = Ev.i
        /\ active' = [active EXCEPT ![Ev.g] = 0] /\ done' = [done EXCEPT ![Ev.g] = Ev.i] /\ UNCHANGED last
\* end of a run (after the final Sync / Stop): every sink has every entry
TReset == /\ IsEvent("reset")
          /\ \A g \in G : active[g] = 0
          /\ \A s \in S : \A g \in G : last[s][g] = done[g]
          /\ active' = [g \in G |-> 0] /\ done' = [g \in G |-> 0] /\ last' = [s \in S |-> [g \in G |-> 0]]
Next == TStart \/ TLine \/ TEnd \/ TReset
Spec == Init /\ [][Next]_vars

HighWater == TLCSet(1, IF TLCGet(1) > l THEN TLCGet(1) ELSE l)
TraceAccepted == IF TLCGet(1) = Len(Trace) + 1 THEN TRUE
                 ELSE PrintT("@@REJECT line " \o ToString(TLCGet(1)) \o " of " \o ToString(Len(Trace)) \o ": " \o ToString(Trace[TLCGet(1)])) /\ FALSE
=============================================================================
