----------------------------- MODULE OpenBuild -----------------------------
(***************************************************************************)
(* zap.Open / Config.Build / RedirectStdLogAt / registries                 *)
(* (writer.go, config.go, global.go, sink.go, encoder.go).                 *)
(*                                                                         *)
(* One "call" per behaviour, decomposed into the code's steps:             *)
(*   Open(paths):  OpenStep for each path in order (a failure is recorded  *)
(*                 and the loop continues), then Finish: if any failed,    *)
(*                 close every sink opened by this call and return error.  *)
(*   Build(cfg):   BuildEncoder -> CheckLevel -> Open(outputs) ->          *)
(*                 Open(error outputs) (on failure close the outputs) ->   *)
(*                 logger.                                                 *)
(*   Redirect(lvl): validate level; only then save flags/prefix, clear     *)
(*                 them and replace the output; restore() undoes it.       *)
(* Each sink's fate (opens or fails) is scripted by the behaviour.         *)
(***************************************************************************)
EXTENDS Integers, Sequences, FiniteSets, TLC, Json

CONSTANTS MaxOut, MaxErr,
          CloseOnFail,        \* TRUE = code; FALSE = spec mutant: open() returns without closeAll
          CloseOutOnErrFail,  \* TRUE = code; FALSE = spec mutant: openSinks drops closeOut()
          LevelCheckFirst,    \* TRUE = code (after the fix); FALSE = pre-fix order (spec mutant)
          ValidateBeforeClear,\* TRUE = code (after the fix); FALSE = pre-fix order (spec mutant)
          Emit

Fates == {"ok", "fail"}
CfgFaults == {"none", "unknown-encoding", "empty-encoding", "missing-time-encoder", "missing-level"}
SeqsUpTo(S, n) == UNION {[1..k -> S] : k \in 0..n}

VARIABLES call,      \* "open" | "build" | "redirect"
          outs, errs, \* fates of the output / error-output sinks
          fault,     \* configuration fault (build)
          lvlValid,  \* redirect: is the requested level one std-log redirection supports
          pc, i,
          opened, closed,   \* sets of <<"out"|"err", index>>
          failed,    \* did any OpenStep of the current Open fail
          result,    \* "none" | "ok" | "error"
          std        \* [flags, prefix, out]: "user" (as the caller left them) or "zap"
vars == <<call, outs, errs, fault, lvlValid, pc, i, opened, closed, failed, result, std>>

Init == /\ call \in {"open", "build", "redirect"}
        /\ outs \in SeqsUpTo(Fates, MaxOut) /\ errs \in SeqsUpTo(Fates, MaxErr)
        /\ fault \in CfgFaults /\ lvlValid \in BOOLEAN
        /\ (call = "open" => errs = <<>> /\ fault = "none" /\ lvlValid)
        /\ (call = "build" => lvlValid)
        /\ (call = "redirect" => outs = <<>> /\ errs = <<>> /\ fault = "none")
        /\ pc = CASE call = "open" -> "open-out" [] call = "build" -> "encoder" [] OTHER -> "redirect"
        /\ i = 1 /\ opened = {} /\ closed = {} /\ failed = FALSE /\ result = "none"
        /\ std = [flags |-> "user", prefix |-> "user", out |-> "user"]

Fail == /\ result' = "error" /\ pc' = "done"

\* ---- Config.Build prologue
BuildEncoder == /\ pc = "encoder"
                /\ IF fault \in {"unknown-encoding", "empty-encoding", "missing-time-encoder"}
                   THEN Fail /\ UNCHANGED <<i, opened, closed, failed>>
                   ELSE /\ pc' = IF LevelCheckFirst THEN "level" ELSE "open-out"
                        /\ UNCHANGED <<result, i, opened, closed, failed>>
                /\ UNCHANGED <<call, outs, errs, fault, lvlValid, std>>
CheckLevel == /\ pc = "level"
              /\ IF fault = "missing-level"
                 THEN Fail /\ UNCHANGED <<i, opened, closed, failed>>
                 ELSE /\ pc' = IF LevelCheckFirst THEN "open-out" ELSE "logger"
                      /\ UNCHANGED <<result, i, opened, closed, failed>>
              /\ UNCHANGED <<call, outs, errs, fault, lvlValid, std>>

\* ---- open(paths): one iteration
Which == IF pc = "open-out" THEN "out" ELSE "err"
List == IF pc = "open-out" THEN outs ELSE errs
OpenStep == /\ pc \in {"open-out", "open-err"} /\ i <= Len(List)
            /\ IF List[i] = "ok" THEN opened' = opened \cup {<<Which, i>>} /\ UNCHANGED failed
               ELSE failed' = TRUE /\ UNCHANGED opened
            /\ i' = i + 1
            /\ UNCHANGED <<call, outs, errs, fault, lvlValid, pc, closed, result, std>>
\* end of the loop of one Open
OpenFinish ==
  /\ pc \in {"open-out", "open-err"} /\ i > Len(List)
  /\ IF failed
     THEN /\ closed' = (IF CloseOnFail THEN closed \cup {s \in opened : s[1] = Which} ELSE closed)
                       \cup (IF pc = "open-err" /\ CloseOutOnErrFail THEN {s \in opened : s[1] = "out"} ELSE {})
          /\ Fail /\ UNCHANGED <<i, failed, opened>>
     ELSE /\ IF call = "open" THEN result' = "ok" /\ pc' = "done"
             ELSE IF pc = "open-out" THEN pc' = "open-err" /\ UNCHANGED result
             ELSE /\ pc' = IF LevelCheckFirst THEN "logger" ELSE "level"
                  /\ UNCHANGED result
          /\ i' = 1 /\ UNCHANGED <<closed, failed, opened>>
  /\ UNCHANGED <<call, outs, errs, fault, lvlValid, std>>
MakeLogger == /\ pc = "logger" /\ result' = "ok" /\ pc' = "done"
              /\ UNCHANGED <<call, outs, errs, fault, lvlValid, i, opened, closed, failed, std>>

\* ---- RedirectStdLogAt
Redirect == /\ pc = "redirect"
            /\ IF ValidateBeforeClear
               THEN IF lvlValid THEN std' = [flags |-> "zap", prefix |-> "zap", out |-> "zap"] /\ result' = "ok"
                    ELSE UNCHANGED std /\ result' = "error"
               ELSE IF lvlValid THEN std' = [flags |-> "zap", prefix |-> "zap", out |-> "zap"] /\ result' = "ok"
                    ELSE std' = [std EXCEPT !.flags = "zap", !.prefix = "zap"] /\ result' = "error"
            /\ pc' = "done"
            /\ UNCHANGED <<call, outs, errs, fault, lvlValid, i, opened, closed, failed>>

Next == BuildEncoder \/ CheckLevel \/ OpenStep \/ OpenFinish \/ MakeLogger \/ Redirect
Spec == Init /\ [][Next]_vars

\* ---- C19
AllOrNothing == result = "error" => /\ opened \subseteq closed                 \* everything this call opened is closed
                                    /\ std = [flags |-> "user", prefix |-> "user", out |-> "user"]
SuccessIsComplete == result = "ok" /\ call \in {"open", "build"} =>
                        /\ closed = {}
                        /\ opened = {<<"out", k>> : k \in 1..Len(outs)} \cup {<<"err", k>> : k \in 1..Len(errs)}
ErrorIffFault == pc = "done" =>
   (result = "error" <=> \/ \E k \in 1..Len(outs) : outs[k] = "fail"
                         \/ \E k \in 1..Len(errs) : errs[k] = "fail"
                         \/ fault # "none" \/ ~lvlValid)

EmitBeh == IF Emit /\ pc = "done"
           THEN PrintT("@@BEH " \o ToJson([call |-> call, outs |-> outs, errs |-> errs, fault |-> fault, lvlValid |-> lvlValid,
                                           result |-> result, opened |-> opened, closed |-> closed]))
           ELSE TRUE
=============================================================================
