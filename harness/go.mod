module verif/harness

go 1.21

require (
	go.uber.org/zap v1.27.0
	go.uber.org/zap/exp v0.0.0
)

require (
	go.uber.org/multierr v1.10.0
	gopkg.in/yaml.v3 v3.0.1
)

replace go.uber.org/zap => /repo

replace go.uber.org/zap/exp => /repo/exp
