package main

import (
	"bytes"
	"encoding/base64"
	"encoding/json"
	"errors"
	"fmt"
	"math"
	"math/rand"
	"strconv"
	"strings"
	"time"

	"go.uber.org/multierr"
	"go.uber.org/zap"
	"go.uber.org/zap/zapcore"
)

// Replay of JsonEnc.tla behaviours on the real JSON encoder (shared by C01, C02, C10).

type jeCfg struct {
	Lk bool   `json:"lk"`
	Tk bool   `json:"tk"`
	Nk bool   `json:"nk"`
	Ck bool   `json:"ck"`
	Fk bool   `json:"fk"`
	Mk bool   `json:"mk"`
	Sk bool   `json:"sk"`
	El string `json:"el"`
	Et string `json:"et"`
	En string `json:"en"`
	Ec string `json:"ec"`
	Tz bool   `json:"tz"`
	Nm bool   `json:"nm"`
	Cd bool   `json:"cd"`
	St bool   `json:"st"`
	Le string `json:"le"`
}

type jeBeh struct {
	Cfg  jeCfg    `json:"cfg"`
	Prog []string `json:"prog"`
	Toks string   `json:"toks"`
}

type pnode struct {
	op     string
	id     int
	kids   []*pnode
	endErr bool
	inArr  bool
}

// parseProg splits a program into With-segments and call-site fields.
func parseProg(prog []string) (ctx [][]*pnode, call []*pnode, err error) {
	var cur []*pnode
	var stack []*pnode
	id := 0
	add := func(n *pnode) {
		if len(stack) > 0 {
			p := stack[len(stack)-1]
			n.inArr = p.op == "A"
			p.kids = append(p.kids, n)
		} else {
			cur = append(cur, n)
		}
	}
	entry := false
	for _, op := range prog {
		switch op {
		case "S", "V", "Z", "E", "G", "N":
			id++
			add(&pnode{op: op, id: id})
		case "O", "A", "I":
			id++
			n := &pnode{op: op, id: id}
			add(n)
			stack = append(stack, n)
		case "X", "Xe":
			if len(stack) == 0 {
				return nil, nil, fmt.Errorf("unbalanced End")
			}
			stack[len(stack)-1].endErr = op == "Xe"
			stack = stack[:len(stack)-1]
		case "|":
			ctx = append(ctx, cur)
			cur = nil
		case "#":
			ctx = append(ctx, cur)
			cur = nil
			entry = true
		default:
			return nil, nil, fmt.Errorf("unknown op %q", op)
		}
	}
	if !entry || len(stack) != 0 {
		return nil, nil, fmt.Errorf("incomplete program %v", prog)
	}
	return ctx, cur, nil
}

// ---- concretisation ---------------------------------------------------------

type jeRun struct {
	rng      *rand.Rand
	cfg      jeCfg
	keys     map[int]string                // call id -> key text
	checks   map[string]func([]byte) string // "<id>.<sub>" -> checker of the raw value
	timeEnc  string
	durEnc   string
	faults   int
	hostile  bool
	descr    []string
}

var jeKeyPool = []string{"", "dup", "dup", `q"uote`, `back\slash`, "new\nline", "tab\there", "\x00nul", "uni\u2028sep", "bad\xffutf8", "half\xe2\x82", "ключ", "msg", "level", "a.b", "k{}[]:,", strings.Repeat("long", 90), "\x7fdel", "sp ace"}

func (r *jeRun) key(id int) string {
	if !r.hostile || r.rng.Intn(3) == 0 {
		return fmt.Sprintf("k%d", id)
	}
	return jeKeyPool[r.rng.Intn(len(jeKeyPool))]
}

func init() {
	// long plain strings whose only special byte sits in the last len%8 bytes (block-wise fast paths)
	for k := 1; k <= 7; k++ {
		for _, sp := range []string{"\n", `"`, `\`, "\x01", "\xff"} {
			jeStrPool = append(jeStrPool, strings.Repeat("p", 63+k-len(sp)+1)+sp)
		}
	}
	jeStrPool = append(jeStrPool, strings.Repeat("q", 64)+"\t", strings.Repeat("r", 127)+"\r", strings.Repeat("s", 4095)+`"`)
	// the very first non-ASCII byte value on its own (boundary of "is this byte plain ASCII"), in otherwise plain text
	jeStrPool = append(jeStrPool, "\x80", "lone\x80byte", "price 5\x80", "\x81\xbf", strings.Repeat("z", 70)+"\x80")
	jeKeyPool = append(jeKeyPool, "k\x80", "\x80")
}

var jeStrPool = []string{"", "plain", `quo"te`, `back\slash`, "line\nbreak", "cr\rlf\n", "tab\t", "\x00\x01\x1f", "\x7f", "\u2028\u2029", "bad\xff\xfe", "trunc\xe2\x82", "\xc0\xaf", "\xed\xa0\x80", "emoji😀", "<a&b>", "{\"json\":1}", strings.Repeat("x", 10000), strings.Repeat("é", 700) + "\n", "ends with backslash\\", "  "}

func chkStr(want string) func([]byte) string {
	return func(raw []byte) string {
		got, err := decodeJSONString(raw)
		if err != nil {
			return fmt.Sprintf("expected a JSON string for %q, got %q", trunc(want), head(raw, 80))
		}
		if w := sanitizeUTF8(want); got != w {
			return fmt.Sprintf("string decodes to %q, logged %q", trunc(got), trunc(w))
		}
		return ""
	}
}
func trunc(s string) string {
	if len(s) > 120 {
		return s[:60] + "…" + s[len(s)-40:]
	}
	return s
}
func chkRaw(want string) func([]byte) string {
	return func(raw []byte) string {
		if string(raw) != want {
			return fmt.Sprintf("value %q, expected %q", head(raw, 80), want)
		}
		return ""
	}
}
func chkFloat(f float64, bits int) func([]byte) string {
	return func(raw []byte) string {
		switch {
		case math.IsNaN(f):
			return chkRaw(`"NaN"`)(raw)
		case math.IsInf(f, 1):
			return chkRaw(`"+Inf"`)(raw)
		case math.IsInf(f, -1):
			return chkRaw(`"-Inf"`)(raw)
		}
		g, err := strconv.ParseFloat(string(raw), bits)
		if err != nil {
			return fmt.Sprintf("value %q is not a number (logged %v)", head(raw, 60), f)
		}
		if bits == 32 {
			if math.Float32bits(float32(g)) != math.Float32bits(float32(f)) {
				return fmt.Sprintf("float32 %q does not round-trip to %v", raw, float32(f))
			}
			return ""
		}
		if math.Float64bits(g) != math.Float64bits(f) {
			return fmt.Sprintf("float64 %q does not round-trip to %v (bits %x vs %x)", raw, f, math.Float64bits(g), math.Float64bits(f))
		}
		return ""
	}
}
func fmtF(f float64, bits int) string { return strconv.FormatFloat(f, 'f', -1, bits) }
func chkComplex(c complex128, bits int) func([]byte) string {
	re, im := real(c), imag(c)
	want := fmtF(re, bits)
	if im >= 0 {
		want += "+"
	}
	want += fmtF(im, bits) + "i"
	return chkStr(want)
}
func chkAnyString() func([]byte) string {
	return func(raw []byte) string {
		s, err := decodeJSONString(raw)
		if err != nil || s == "" {
			return fmt.Sprintf("expected a non-empty string describing the failure, got %q", head(raw, 80))
		}
		return ""
	}
}
func chkJSON(v interface{}) func([]byte) string {
	var b bytes.Buffer
	e := json.NewEncoder(&b)
	e.SetEscapeHTML(false)
	if err := e.Encode(v); err != nil {
		panic("HARNESS: reflect member not encodable: " + err.Error())
	}
	want := strings.TrimSuffix(b.String(), "\n")
	return chkRaw(want)
}

var jeRawDocs = []string{
	"{\n  \"a\": 1,\n  \"b\": [1, 2]\n}",
	"[\r\n\t1 ,\t2\r\n]",
	" {\"k\" : \"v with \\n escape\" } \n",
	"\n\n\"text\"\n",
	"{\"nested\":{\"deep\":[{\"x\":null}\n,\ntrue]}}",
	"12",
}

var jeTimes = []time.Time{
	time.Unix(0, 0).UTC(),
	time.Date(2024, 2, 29, 23, 59, 59, 999999999, time.UTC),
	time.Date(1970, 1, 1, 0, 0, 0, 1, time.FixedZone("weird\"zone\\\t", -7*3600-1800)),
	time.Date(2262, 4, 11, 23, 47, 16, 854775807, time.UTC),
	time.Date(1677, 9, 21, 0, 12, 43, 145224192, time.UTC),
	time.Date(2001, 9, 9, 1, 46, 40, 123456789, time.FixedZone("", 5*3600+1800)),
	time.Date(1969, 12, 31, 23, 59, 59, 500000000, time.UTC),
}

var jeTimeEncs = []string{"iso8601", "rfc3339", "rfc3339nano", "epoch", "epochms", "epochns", "layout", "rfc1123"}

const jeLayout = "2006\"01\\02\t15:04:05.000 MST"

func timeEncoder(name string) zapcore.TimeEncoder {
	switch name {
	case "iso8601":
		return zapcore.ISO8601TimeEncoder
	case "rfc3339":
		return zapcore.RFC3339TimeEncoder
	case "rfc3339nano":
		return zapcore.RFC3339NanoTimeEncoder
	case "epoch":
		return zapcore.EpochTimeEncoder
	case "epochms":
		return zapcore.EpochMillisTimeEncoder
	case "epochns":
		return zapcore.EpochNanosTimeEncoder
	case "layout":
		return zapcore.TimeEncoderOfLayout(jeLayout)
	case "rfc1123": // a harmless layout that prints the zone NAME (which the time's Location supplies)
		return zapcore.TimeEncoderOfLayout(time.RFC1123)
	case "noop":
		return func(time.Time, zapcore.PrimitiveArrayEncoder) {}
	}
	return nil
}

// chkTime: representation of t under the named encoder ("nil"/"noop" = integer nanoseconds fallback).
func chkTime(t time.Time, enc string) func([]byte) string {
	switch enc {
	case "iso8601":
		return chkStr(t.Format("2006-01-02T15:04:05.000Z0700"))
	case "rfc3339":
		return chkStr(t.Format(time.RFC3339))
	case "rfc3339nano":
		return chkStr(t.Format(time.RFC3339Nano))
	case "layout":
		return chkStr(t.Format(jeLayout))
	case "rfc1123":
		return chkStr(t.Format(time.RFC1123))
	case "epoch":
		return chkFloat(float64(t.UnixNano())/float64(time.Second), 64)
	case "epochms":
		return chkFloat(float64(t.UnixNano())/float64(time.Millisecond), 64)
	default: // epochns, nil, noop
		return chkRaw(strconv.FormatInt(t.UnixNano(), 10))
	}
}

var jeDurs = []time.Duration{0, 1, -1, time.Millisecond + 500*time.Microsecond, 90 * time.Minute, math.MaxInt64, math.MinInt64, -1500 * time.Millisecond}
var jeDurEncs = []string{"seconds", "nanos", "millis", "string", "nil", "noop"}

func durEncoder(name string) zapcore.DurationEncoder {
	switch name {
	case "seconds":
		return zapcore.SecondsDurationEncoder
	case "nanos":
		return zapcore.NanosDurationEncoder
	case "millis":
		return zapcore.MillisDurationEncoder
	case "string":
		return zapcore.StringDurationEncoder
	case "noop":
		return func(time.Duration, zapcore.PrimitiveArrayEncoder) {}
	}
	return nil
}
func chkDur(d time.Duration, enc string) func([]byte) string {
	switch enc {
	case "seconds":
		return chkFloat(float64(d)/float64(time.Second), 64)
	case "millis":
		return chkRaw(strconv.FormatInt(d.Nanoseconds()/1e6, 10))
	case "string":
		return chkStr(d.String())
	default:
		return chkRaw(strconv.FormatInt(int64(d), 10))
	}
}

type jeStringer struct{ s string }

func (s jeStringer) String() string { return s.s }

type jePtrStringer struct{ s string }

func (s *jePtrStringer) String() string { return s.s } // nil receiver panics

type jePanicStringer struct{}

func (jePanicStringer) String() string { panic("stringer-boom") }

type jePtrErr struct{ s string }

func (e *jePtrErr) Error() string { return e.s } // nil receiver panics

type jePanicErr struct{}

func (jePanicErr) Error() string { panic("error-boom") }

type jeVerboseErr struct{ msg string }

func (e jeVerboseErr) Error() string { return e.msg }
func (e jeVerboseErr) Format(f fmt.State, c rune) {
	if c == 'v' && f.Flag('+') {
		fmt.Fprintf(f, "%s\n\tstack line 1\n\t\"quoted\" line 2", e.msg)
		return
	}
	fmt.Fprint(f, e.msg)
}

type jeGroupErr struct{ errs []error }

func (g jeGroupErr) Error() string   { return "group of " + strconv.Itoa(len(g.errs)) }
func (g jeGroupErr) Errors() []error { return g.errs }

type jeBadJSON struct{}

func (jeBadJSON) MarshalJSON() ([]byte, error) { return nil, errors.New("marshal-json-fails") }

type jeReflected struct {
	A int               `json:"a"`
	B string            `json:"b"`
	C map[string][]byte `json:"c,omitempty"`
}

// scalar returns a field for key with its value checker (object context).
func (r *jeRun) scalar(id int, key string) (zap.Field, string) {
	set := func(sub string, f func([]byte) string) { r.checks[fmt.Sprintf("%d.%s", id, sub)] = f }
	pickS := func() string { return jeStrPool[r.rng.Intn(len(jeStrPool))] }
	i64s := []int64{0, 1, -1, math.MaxInt64, math.MinInt64, 1 << 53, -(1 << 31)}
	u64s := []uint64{0, 1, math.MaxUint64, 1 << 63, math.MaxUint32}
	f64s := []float64{0, math.Copysign(0, -1), 1.5, math.NaN(), math.Inf(1), math.Inf(-1), math.MaxFloat64, math.SmallestNonzeroFloat64, 1e21, 1e-7, 0.1, -123456789.125, 5e-324}
	f32s := []float32{0, float32(math.Copysign(0, -1)), 1.5, float32(math.NaN()), float32(math.Inf(1)), float32(math.Inf(-1)), math.MaxFloat32, math.SmallestNonzeroFloat32, 0.1, 16777216}
	switch r.rng.Intn(34) {
	case 0:
		s := pickS()
		set("", chkStr(s))
		return zap.String(key, s), "String"
	case 1:
		v := i64s[r.rng.Intn(len(i64s))]
		set("", chkRaw(strconv.FormatInt(v, 10)))
		return zap.Int64(key, v), "Int64"
	case 2:
		v := []int32{0, -1, math.MaxInt32, math.MinInt32}[r.rng.Intn(4)]
		set("", chkRaw(strconv.FormatInt(int64(v), 10)))
		return zap.Int32(key, v), "Int32"
	case 3:
		v := []int16{0, -1, math.MaxInt16, math.MinInt16}[r.rng.Intn(4)]
		set("", chkRaw(strconv.FormatInt(int64(v), 10)))
		return zap.Int16(key, v), "Int16"
	case 4:
		v := []int8{0, -1, math.MaxInt8, math.MinInt8}[r.rng.Intn(4)]
		set("", chkRaw(strconv.FormatInt(int64(v), 10)))
		return zap.Int8(key, v), "Int8"
	case 5:
		v := u64s[r.rng.Intn(len(u64s))]
		set("", chkRaw(strconv.FormatUint(v, 10)))
		return zap.Uint64(key, v), "Uint64"
	case 6:
		v := []uint32{0, math.MaxUint32, 1 << 31}[r.rng.Intn(3)]
		set("", chkRaw(strconv.FormatUint(uint64(v), 10)))
		return zap.Uint32(key, v), "Uint32"
	case 7:
		v := []uint16{0, math.MaxUint16, 1 << 15}[r.rng.Intn(3)]
		set("", chkRaw(strconv.FormatUint(uint64(v), 10)))
		return zap.Uint16(key, v), "Uint16"
	case 8:
		v := []uint8{0, math.MaxUint8, 1 << 7}[r.rng.Intn(3)]
		set("", chkRaw(strconv.FormatUint(uint64(v), 10)))
		return zap.Uint8(key, v), "Uint8"
	case 9:
		v := []uintptr{0, math.MaxUint64, 1 << 63}[r.rng.Intn(3)]
		set("", chkRaw(strconv.FormatUint(uint64(v), 10)))
		return zap.Uintptr(key, v), "Uintptr"
	case 10:
		v := f64s[r.rng.Intn(len(f64s))]
		set("", chkFloat(v, 64))
		return zap.Float64(key, v), "Float64"
	case 11:
		v := f32s[r.rng.Intn(len(f32s))]
		set("", chkFloat(float64(v), 32))
		return zap.Float32(key, v), "Float32"
	case 12:
		v := r.rng.Intn(2) == 0
		set("", chkRaw(strconv.FormatBool(v)))
		return zap.Bool(key, v), "Bool"
	case 13:
		v := []byte(pickS())
		set("", func(raw []byte) string {
			s, err := decodeJSONString(raw)
			if err != nil {
				return "binary is not a string"
			}
			d, err := base64.StdEncoding.DecodeString(s)
			if err != nil || !bytes.Equal(d, v) {
				return fmt.Sprintf("base64 %q does not decode to the logged bytes %q", trunc(s), trunc(string(v)))
			}
			return ""
		})
		return zap.Binary(key, v), "Binary"
	case 14:
		v := []byte(pickS())
		set("", chkStr(string(v)))
		return zap.ByteString(key, v), "ByteString"
	case 15:
		v := []complex128{0, complex(1, -2), complex(math.NaN(), math.Inf(1)), complex(-0.5, 0), complex(math.Inf(-1), math.Copysign(0, -1))}[r.rng.Intn(5)]
		set("", chkComplex(v, 64))
		return zap.Complex128(key, v), "Complex128"
	case 16:
		v := []complex64{0, complex(1, -2), complex(float32(math.NaN()), 3), complex(0.1, 0.1)}[r.rng.Intn(4)]
		set("", chkComplex(complex128(v), 32))
		return zap.Complex64(key, v), "Complex64"
	case 17, 18:
		t := jeTimes[r.rng.Intn(len(jeTimes))]
		set("", chkTime(t, r.timeEnc))
		return zap.Time(key, t), "Time"
	case 19, 20:
		d := jeDurs[r.rng.Intn(len(jeDurs))]
		set("", chkDur(d, r.durEnc))
		return zap.Duration(key, d), "Duration"
	case 21:
		v := jeReflected{A: r.rng.Intn(100), B: pickS()}
		if len(v.B) > 200 {
			v.B = v.B[:200]
		}
		if r.rng.Intn(3) == 0 {
			// pre-encoded JSON handed over as is: pretty-printed, with line breaks and odd spacing; the entry must
			// still be one line holding the same value
			raw := json.RawMessage(jeRawDocs[r.rng.Intn(len(jeRawDocs))])
			set("", chkJSON(raw))
			return zap.Reflect(key, raw), "Reflect(json.RawMessage)"
		}
		set("", chkJSON(v))
		return zap.Reflect(key, v), "Reflect(struct)"
	case 22:
		set("", chkRaw("null"))
		return zap.Reflect(key, nil), "Reflect(nil)"
	case 23:
		v := map[string]interface{}{"<html>&": []int{1, 2}, "n": nil}
		set("", chkJSON(v))
		return zap.Any(key, v), "Any(map)"
	case 24:
		s := pickS()
		set("", chkStr(s))
		return zap.Stringer(key, jeStringer{s}), "Stringer"
	case 25:
		set("", chkStr("<nil>"))
		return zap.Stringer(key, (*jePtrStringer)(nil)), "Stringer(nil ptr)"
	case 26:
		s := pickS()
		set("", chkStr(s))
		return zap.NamedError(key, errors.New(s)), "NamedError"
	case 27:
		set("", chkStr("<nil>"))
		return zap.NamedError(key, (*jePtrErr)(nil)), "NamedError(nil ptr)"
	case 28:
		set("", chkRaw("null"))
		return zap.Intp(key, nil), "Intp(nil)"
	case 29:
		v := int64(-42)
		set("", chkRaw("-42"))
		return zap.Int64p(key, &v), "Int64p"
	case 30:
		s := pickS()
		set("", chkStr(s))
		return zap.Any(key, s), "Any(string)"
	case 31:
		v := u64s[r.rng.Intn(len(u64s))]
		set("", chkRaw(strconv.FormatUint(v, 10)))
		return zap.Any(key, v), "Any(uint64)"
	case 32:
		v := uint(math.MaxUint64)
		set("", chkRaw(strconv.FormatUint(uint64(v), 10)))
		return zap.Uint(key, v), "Uint"
	default:
		v := []int{math.MaxInt64, math.MinInt64, 7}[r.rng.Intn(3)]
		set("", chkRaw(strconv.Itoa(v)))
		return zap.Int(key, v), "Int"
	}
}

// element appends one scalar element to an array encoder and registers its checker.
func (r *jeRun) element(id int) func(zapcore.ArrayEncoder) error {
	set := func(f func([]byte) string) { r.checks[fmt.Sprintf("%d.", id)] = f }
	pickS := func() string { return jeStrPool[r.rng.Intn(len(jeStrPool))] }
	switch r.rng.Intn(14) {
	case 0:
		s := pickS()
		set(chkStr(s))
		return func(e zapcore.ArrayEncoder) error { e.AppendString(s); return nil }
	case 1:
		v := []int64{math.MinInt64, math.MaxInt64, 0}[r.rng.Intn(3)]
		set(chkRaw(strconv.FormatInt(v, 10)))
		return func(e zapcore.ArrayEncoder) error { e.AppendInt64(v); return nil }
	case 2:
		v := []uint64{math.MaxUint64, 1 << 63, 0}[r.rng.Intn(3)]
		set(chkRaw(strconv.FormatUint(v, 10)))
		return func(e zapcore.ArrayEncoder) error { e.AppendUint64(v); return nil }
	case 3:
		v := []uint{math.MaxUint64, 1 << 63, 3}[r.rng.Intn(3)]
		set(chkRaw(strconv.FormatUint(uint64(v), 10)))
		return func(e zapcore.ArrayEncoder) error { e.AppendUint(v); return nil }
	case 4:
		v := []float64{math.NaN(), math.Inf(-1), 0.1, math.Copysign(0, -1), 1e300}[r.rng.Intn(5)]
		set(chkFloat(v, 64))
		return func(e zapcore.ArrayEncoder) error { e.AppendFloat64(v); return nil }
	case 5:
		v := []float32{float32(math.NaN()), 0.1, math.MaxFloat32}[r.rng.Intn(3)]
		set(chkFloat(float64(v), 32))
		return func(e zapcore.ArrayEncoder) error { e.AppendFloat32(v); return nil }
	case 6:
		set(chkRaw("true"))
		return func(e zapcore.ArrayEncoder) error { e.AppendBool(true); return nil }
	case 7:
		v := []byte(pickS())
		set(chkStr(string(v)))
		return func(e zapcore.ArrayEncoder) error { e.AppendByteString(v); return nil }
	case 8:
		v := complex(math.Inf(1), -3)
		set(chkComplex(v, 64))
		return func(e zapcore.ArrayEncoder) error { e.AppendComplex128(v); return nil }
	case 9:
		t := jeTimes[r.rng.Intn(len(jeTimes))]
		set(chkTime(t, r.timeEnc))
		return func(e zapcore.ArrayEncoder) error { e.AppendTime(t); return nil }
	case 10:
		d := jeDurs[r.rng.Intn(len(jeDurs))]
		set(chkDur(d, r.durEnc))
		return func(e zapcore.ArrayEncoder) error { e.AppendDuration(d); return nil }
	case 11:
		v := jeReflected{A: 1, B: "<&>"}
		set(chkJSON(v))
		return func(e zapcore.ArrayEncoder) error { return e.AppendReflected(v) }
	case 12:
		v := []uint32{math.MaxUint32, 1 << 31}[r.rng.Intn(2)]
		set(chkRaw(strconv.FormatUint(uint64(v), 10)))
		return func(e zapcore.ArrayEncoder) error { e.AppendUint32(v); return nil }
	default:
		v := []int8{math.MinInt8, math.MaxInt8}[r.rng.Intn(2)]
		set(chkRaw(strconv.FormatInt(int64(v), 10)))
		return func(e zapcore.ArrayEncoder) error { e.AppendInt8(v); return nil }
	}
}

type jeObj struct {
	fields []zap.Field
	err    error
}

func (o jeObj) MarshalLogObject(enc zapcore.ObjectEncoder) error {
	for _, f := range o.fields {
		f.AddTo(enc)
	}
	return o.err
}

type jeArr struct {
	elems []func(zapcore.ArrayEncoder) error
	err   error
}

func (a jeArr) MarshalLogArray(enc zapcore.ArrayEncoder) error {
	var first error
	for _, e := range a.elems {
		if err := e(enc); err != nil && first == nil {
			first = err
		}
	}
	if first != nil {
		return first
	}
	return a.err
}

// field builds the zap.Field for a node in object context and registers expectations.
func (r *jeRun) field(n *pnode) zap.Field {
	key := r.key(n.id)
	r.keys[n.id] = key
	set := func(sub string, f func([]byte) string) { r.checks[fmt.Sprintf("%d.%s", n.id, sub)] = f }
	switch n.op {
	case "S":
		f, what := r.scalar(n.id, key)
		r.keys[n.id] = f.Key
		r.descr = append(r.descr, what)
		return f
	case "V":
		e := jeVerboseErr{msg: jeStrPool[r.rng.Intn(8)]}
		set("", chkStr(e.msg))
		set("Verbose", chkStr(fmt.Sprintf("%+v", e)))
		r.descr = append(r.descr, "NamedError(verbose)")
		return zap.NamedError(key, e)
	case "Z":
		r.descr = append(r.descr, "Skip/nil error")
		switch r.rng.Intn(3) {
		case 0:
			return zap.Skip()
		case 1:
			return zap.NamedError(key, nil)
		}
		return zap.Error(nil)
	case "E":
		r.faults++
		switch r.rng.Intn(6) {
		case 5:
			set("Error", chkAnyString())
			r.descr = append(r.descr, "Reflect(truncated json.RawMessage)")
			return zap.Reflect(key, json.RawMessage([]string{`{"a":`, "{\"a\": [1, 2\n", `nul`, "{\"k\": \"v\"}\n}"}[r.rng.Intn(4)]))
		case 0:
			set("Error", chkAnyString())
			r.descr = append(r.descr, "Reflect(chan)")
			return zap.Reflect(key, make(chan int))
		case 1:
			set("Error", chkAnyString())
			r.descr = append(r.descr, "Reflect(failing MarshalJSON)")
			return zap.Reflect(key, jeBadJSON{})
		case 2:
			set("Error", chkStr("PANIC=stringer-boom"))
			r.descr = append(r.descr, "Stringer(panics)")
			return zap.Stringer(key, jePanicStringer{})
		case 3:
			set("Error", chkStr("PANIC=error-boom"))
			r.descr = append(r.descr, "NamedError(panics)")
			return zap.NamedError(key, jePanicErr{})
		default:
			set("Error", chkAnyString())
			r.descr = append(r.descr, "Any(func)")
			return zap.Any(key, func() {})
		}
	case "G":
		e1, e2 := errors.New("cause one \"q\""), errors.New("cause\ntwo")
		set("c1", chkStr(e1.Error()))
		set("c2", chkStr(e2.Error()))
		var g error
		if r.rng.Intn(2) == 0 {
			g = multierr.Combine(e1, e2)
			r.descr = append(r.descr, "NamedError(multierr)")
		} else {
			g = jeGroupErr{[]error{e1, nil, e2}}
			r.descr = append(r.descr, "NamedError(group with nil member)")
		}
		set("", chkStr(g.Error()))
		return zap.NamedError(key, g)
	case "N":
		r.descr = append(r.descr, "Namespace")
		return zap.Namespace(key)
	case "O":
		var err error
		if n.endErr {
			r.faults++
			err = fmt.Errorf("object-%d-failed \"q\"\n", n.id)
			set("Error", chkStr(err.Error()))
		}
		kids := r.fields(n.kids)
		r.descr = append(r.descr, "Object")
		if !n.endErr && r.rng.Intn(3) == 0 {
			return zap.Dict(key, kids...)
		}
		return zap.Object(key, jeObj{kids, err})
	case "A":
		r.descr = append(r.descr, "Array")
		set("Error", chkAnyString())
		return zap.Array(key, r.array(n))
	case "I":
		var err error
		r.keys[n.id] = ""
		if n.endErr {
			r.faults++
			err = fmt.Errorf("inline-%d-failed", n.id)
			set("Error", chkStr(err.Error()))
		}
		r.descr = append(r.descr, "Inline")
		return zap.Inline(jeObj{r.fields(n.kids), err})
	}
	panic("HARNESS: unknown op " + n.op)
}

func (r *jeRun) fields(ns []*pnode) []zap.Field {
	out := make([]zap.Field, 0, len(ns))
	for _, n := range ns {
		out = append(out, r.field(n))
	}
	return out
}

func (r *jeRun) array(n *pnode) jeArr {
	a := jeArr{}
	if n.endErr {
		r.faults++
		a.err = fmt.Errorf("array-%d-failed", n.id)
	}
	for _, k := range n.kids {
		k := k
		switch k.op {
		case "S":
			a.elems = append(a.elems, r.element(k.id))
		case "E":
			r.faults++
			a.elems = append(a.elems, func(e zapcore.ArrayEncoder) error { return e.AppendReflected(make(chan int)) })
		case "O":
			var err error
			if k.endErr {
				r.faults++
				err = fmt.Errorf("object-%d-failed", k.id)
			}
			o := jeObj{r.fields(k.kids), err}
			a.elems = append(a.elems, func(e zapcore.ArrayEncoder) error { return e.AppendObject(o) })
		case "A":
			inner := r.array(k)
			a.elems = append(a.elems, func(e zapcore.ArrayEncoder) error { return e.AppendArray(inner) })
		default:
			panic("HARNESS: op " + k.op + " in array context")
		}
	}
	return a
}

// ---- entry / config ---------------------------------------------------------

type jeWorld struct {
	cfg    zapcore.EncoderConfig
	ent    zapcore.Entry
	ending string
	meta   map[int]string // metadata id -> key
}

var jeMetaKeys = [][]string{
	{"level", "ts", "logger", "caller", "func", "msg", "stacktrace"},
	{"L", "T", "N", "C", "F", "M", "S"},
	{`le"vel`, "t\\s", "log\nger", "cal\tler", "fu\x00nc", "m\xffsg", "sta\u2028ck"},
	{"x", "x", "x", "x", "x", "x", "x"},
}

func (r *jeRun) world() *jeWorld {
	c := r.cfg
	w := &jeWorld{meta: map[int]string{}}
	names := jeMetaKeys[0]
	if r.hostile {
		names = jeMetaKeys[r.rng.Intn(len(jeMetaKeys))]
	}
	ec := zapcore.EncoderConfig{}
	setKey := func(on bool, id int, dst *string) {
		if on {
			*dst = names[id-101]
			w.meta[id] = names[id-101]
		}
	}
	setKey(c.Lk, 101, &ec.LevelKey)
	setKey(c.Tk, 102, &ec.TimeKey)
	setKey(c.Nk, 103, &ec.NameKey)
	setKey(c.Ck, 104, &ec.CallerKey)
	setKey(c.Fk, 105, &ec.FunctionKey)
	setKey(c.Mk, 106, &ec.MessageKey)
	setKey(c.Sk, 107, &ec.StacktraceKey)
	lvls := []zapcore.Level{zapcore.InfoLevel, zapcore.DebugLevel, zapcore.FatalLevel, zapcore.Level(9), zapcore.Level(-5), zapcore.DPanicLevel}
	w.ent.Level = lvls[r.rng.Intn(len(lvls))]
	lvlEnc := r.rng.Intn(4)
	switch c.El {
	case "noop":
		ec.EncodeLevel = func(zapcore.Level, zapcore.PrimitiveArrayEncoder) {}
		r.checks["101.fallback"] = chkStr(w.ent.Level.String())
	case "str":
		ec.EncodeLevel = []zapcore.LevelEncoder{zapcore.LowercaseLevelEncoder, zapcore.CapitalLevelEncoder, zapcore.LowercaseColorLevelEncoder, zapcore.CapitalColorLevelEncoder}[lvlEnc]
		switch lvlEnc {
		case 0:
			r.checks["101.enc"] = chkStr(w.ent.Level.String())
		case 1:
			r.checks["101.enc"] = chkStr(w.ent.Level.CapitalString())
		default:
			word := w.ent.Level.String()
			if lvlEnc == 3 {
				word = w.ent.Level.CapitalString()
			}
			r.checks["101.enc"] = func(raw []byte) string {
				s, err := decodeJSONString(raw)
				if err != nil || !strings.Contains(s, word) || !strings.HasPrefix(s, "\x1b[") {
					return fmt.Sprintf("colour level %q does not carry %q in an ANSI sequence", head(raw, 60), word)
				}
				return ""
			}
		}
	}
	// time
	if !c.Tz {
		w.ent.Time = jeTimes[r.rng.Intn(len(jeTimes))]
	}
	switch c.Et {
	case "nil":
		r.timeEnc = "nil"
	case "noop":
		r.timeEnc = "noop"
	default:
		r.timeEnc = jeTimeEncs[r.rng.Intn(len(jeTimeEncs))]
	}
	ec.EncodeTime = timeEncoder(r.timeEnc)
	r.checks["102.enc"] = chkTime(w.ent.Time, r.timeEnc)
	r.checks["102.fallback"] = chkTime(w.ent.Time, "nil")
	r.durEnc = jeDurEncs[r.rng.Intn(len(jeDurEncs))]
	ec.EncodeDuration = durEncoder(r.durEnc)
	// name
	if c.Nm {
		w.ent.LoggerName = []string{"svc", "a.b.c", "na\"me\n", "имя"}[r.rng.Intn(4)]
	}
	switch c.En {
	case "noop":
		ec.EncodeName = func(string, zapcore.PrimitiveArrayEncoder) {}
	case "str":
		ec.EncodeName = zapcore.FullNameEncoder
	}
	r.checks["103.enc"] = chkStr(w.ent.LoggerName)
	r.checks["103.fallback"] = chkStr(w.ent.LoggerName)
	// caller
	if c.Cd {
		w.ent.Caller = zapcore.EntryCaller{Defined: true, PC: 1, File: []string{"/src/pkg/file.go", `C:\dir "x"\f.go`, "f\n.go", "nodir.go"}[r.rng.Intn(4)], Line: 42, Function: []string{"pkg.Func", "pkg.(*T).M\"ethod\n", ""}[r.rng.Intn(3)]}
	}
	switch c.Ec {
	case "noop":
		ec.EncodeCaller = func(zapcore.EntryCaller, zapcore.PrimitiveArrayEncoder) {}
		r.checks["104.fallback"] = chkStr(w.ent.Caller.String())
	case "str":
		if r.rng.Intn(2) == 0 {
			ec.EncodeCaller = zapcore.FullCallerEncoder
			r.checks["104.enc"] = chkStr(w.ent.Caller.String())
		} else {
			ec.EncodeCaller = zapcore.ShortCallerEncoder
			r.checks["104.enc"] = chkStr(w.ent.Caller.TrimmedPath())
		}
	}
	r.checks["105."] = chkStr(w.ent.Caller.Function)
	w.ent.Message = jeStrPool[r.rng.Intn(len(jeStrPool))]
	r.checks["106."] = chkStr(w.ent.Message)
	if c.St {
		w.ent.Stack = "main.f\n\t/src/main.go:10 +0x1\n\"q\"\\"
	}
	r.checks["107."] = chkStr(w.ent.Stack)
	switch c.Le {
	case "default":
		w.ending = "\n"
		if r.rng.Intn(2) == 0 {
			ec.LineEnding = zapcore.DefaultLineEnding
		}
	case "custom":
		w.ending = []string{"\r\n", "<END>", "\n\n"}[r.rng.Intn(3)]
		ec.LineEnding = w.ending
	case "skip":
		w.ending = ""
		ec.SkipLineEnding = true
		ec.LineEnding = "ignored"
	}
	w.cfg = ec
	return w
}

type jeSink struct{ writes [][]byte }

func (s *jeSink) Write(p []byte) (int, error) {
	s.writes = append(s.writes, append([]byte(nil), p...))
	return len(p), nil
}
func (s *jeSink) Sync() error { return nil }

// jeFinding is one forbidden outcome with the property it belongs to.
type jeFinding struct {
	Prop string // C01 | C02 | C10
	Key  string
	What string
}

// replayJSON executes one behaviour on the real encoder (through an ioCore and directly).
func replayJSON(b jeBeh, seed int64, hostile bool) (out []jeFinding, descr string, harnessErr error) {
	return replayJSONMode(b, seed, hostile, false)
}

// replayJSONMode: console = true runs the same program through NewConsoleEncoder with no metadata
// columns, so that the line is exactly the spaced JSON context (findings are then filed under C16).
func replayJSONMode(b jeBeh, seed int64, hostile bool, console bool) (out []jeFinding, descr string, harnessErr error) {
	ctxSegs, call, err := parseProg(b.Prog)
	if err != nil {
		return nil, "", err
	}
	toks, err := parseTokStr(b.Toks)
	if err != nil {
		return nil, "", err
	}
	r := &jeRun{rng: rand.New(rand.NewSource(seed)), cfg: b.Cfg, keys: map[int]string{}, checks: map[string]func([]byte) string{}, hostile: hostile}
	w := r.world()
	var segFields [][]zap.Field
	for _, seg := range ctxSegs {
		segFields = append(segFields, r.fields(seg))
	}
	callFields := r.fields(call)
	descr = fmt.Sprintf("prog=%v cfg=%+v fields=%v timeEnc=%s durEnc=%s level=%v", b.Prog, b.Cfg, r.descr, r.timeEnc, r.durEnc, w.ent.Level)
	add := func(prop, key, f string, a ...interface{}) {
		if console {
			key = "C16/context:" + key[strings.IndexByte(key, '/')+1:]
			prop = "C16"
		}
		out = append(out, jeFinding{prop, key, fmt.Sprintf(f, a...) + " [" + descr + "]"})
	}
	newEnc := func() zapcore.Encoder {
		if console {
			return zapcore.NewConsoleEncoder(w.cfg)
		}
		return zapcore.NewJSONEncoder(w.cfg)
	}
	emptyCtx := console && len(toks) <= 3 // "{ }" + line ending: the console encoder omits an empty context
	faulty := r.faults > 0
	lines := map[string][]byte{}
	// path 1: ioCore (With = Clone + addFields; Write = EncodeEntry + sink write)
	func() {
		defer func() {
			if p := recover(); p != nil {
				if s, ok := p.(string); ok && strings.HasPrefix(s, "HARNESS") {
					harnessErr = errors.New(s)
					return
				}
				add("C01", "C01/panic", "logging through the core panicked: %v", p)
				if faulty {
					add("C10", "C10/panic", "logging through the core panicked: %v", p)
				}
			}
		}()
		sink := &jeSink{}
		core := zapcore.NewCore(newEnc(), sink, zapcore.Level(-128))
		for _, sf := range segFields {
			core = core.With(sf)
		}
		if seed%2 == 0 {
			// history: the same derived core has already written an entry without call-site fields
			core.Write(w.ent, nil)
			sink.writes = nil
		}
		if err := core.Write(w.ent, callFields); err != nil {
			add("C10", "C10/write-error", "core.Write returned %v", err)
		}
		if len(sink.writes) != 1 {
			prop := "C01"
			if faulty {
				prop = "C10"
			}
			add(prop, prop+"/entry-lost", "the sink received %d writes for one entry", len(sink.writes))
			return
		}
		lines["core"] = sink.writes[0]
	}()
	if harnessErr != nil {
		return nil, descr, harnessErr
	}
	// path 2: the encoder itself
	func() {
		defer func() {
			if p := recover(); p != nil {
				add("C01", "C01/panic", "EncodeEntry panicked: %v", p)
				if faulty {
					add("C10", "C10/panic", "EncodeEntry panicked: %v", p)
				}
			}
		}()
		enc := newEnc()
		for _, sf := range segFields {
			enc = enc.Clone()
			for _, f := range sf {
				f.AddTo(enc)
			}
		}
		if seed%2 == 0 {
			if b0, err := enc.EncodeEntry(w.ent, nil); err == nil {
				b0.Free()
			}
		}
		buf, err := enc.EncodeEntry(w.ent, callFields)
		if err != nil {
			add("C10", "C10/write-error", "EncodeEntry returned %v", err)
			return
		}
		lines["encoder"] = append([]byte(nil), buf.Bytes()...)
		buf.Free()
	}()
	if a, b2 := lines["core"], lines["encoder"]; a != nil && b2 != nil && !bytes.Equal(a, b2) {
		add("C02", "C02/core-vs-encoder", "the core wrote %q but the encoder alone produces %q", trunc(string(a)), trunc(string(b2)))
	}
	matched := false
	for _, path := range []string{"core", "encoder"} {
		line := lines[path]
		if line == nil {
			continue
		}
		if emptyCtx {
			if string(line) != w.ending {
				add("C01", "C01/invalid-json", "%s: no field produced output, yet the console line is %q (want only the line ending)", path, trunc(string(line)))
			}
			continue
		}
		if err := strictJSONObjectLine(line, w.ending); err != nil {
			add("C01", "C01/invalid-json", "%s output is not one valid JSON object + line ending: %v; line=%q", path, err, trunc(string(line)))
			if !faulty {
				add("C02", "C02/undecodable", "%s output cannot be decoded, so the logged values are not recoverable: %v; line=%q", path, err, trunc(string(line)))
			}
			if faulty {
				add("C10", "C10/invalid-json", "%s output is not one valid JSON object + line ending: %v; line=%q", path, err, trunc(string(line)))
			}
			continue
		}
		if matched {
			continue
		}
		matched = true
		body := line[:len(line)-len(w.ending)]
		cat, msg := matchTokens(body, toks, func(t etok) (string, bool) {
			if t.id > 100 {
				return sanitizeUTF8(w.meta[t.id]), true
			}
			if t.sub == "ek" {
				return "error", true
			}
			k, ok := r.keys[t.id]
			return sanitizeUTF8(k + map[string]string{"": "", "Error": "Error", "Verbose": "Verbose", "Causes": "Causes"}[t.sub]), ok
		}, func(t etok, raw []byte) string {
			if f, ok := r.checks[fmt.Sprintf("%d.%s", t.id, t.sub)]; ok {
				return f(raw)
			}
			return ""
		})
		if cat != "" {
			prop := "C02"
			if faulty {
				prop = "C10"
			}
			add(prop, prop+"/"+cat, "%s output differs from the logged tree: %s", path, msg)
		}
	}
	// C02: same nesting as the map encoder records
	if line := lines["encoder"]; line != nil && !faulty && !console {
		if msg := compareWithMapEncoder(line[:len(line)-len(w.ending)], w, segFields, callFields); msg != "" {
			add("C02", "C02/map-encoder-differs", "%s", msg)
		}
	}
	return out, descr, nil
}

// compareWithMapEncoder adds the same fields to a MapObjectEncoder and compares key sets and nesting.
func compareWithMapEncoder(body []byte, w *jeWorld, segs [][]zap.Field, call []zap.Field) (msg string) {
	defer func() {
		if p := recover(); p != nil {
			msg = ""
		}
	}()
	m := zapcore.NewMapObjectEncoder()
	n := 0
	for _, s := range segs {
		for _, f := range s {
			f.AddTo(m)
			n++
		}
	}
	for _, f := range call {
		f.AddTo(m)
		n++
	}
	var dec map[string]interface{}
	if err := json.Unmarshal(body, &dec); err != nil {
		return ""
	}
	metaKeys := map[string]bool{}
	for _, k := range w.meta {
		metaKeys[sanitizeUTF8(k)] = true
	}
	var walk func(path string, mv interface{}, jv interface{}, top bool) string
	walk = func(path string, mv interface{}, jv interface{}, top bool) string {
		switch x := mv.(type) {
		case map[string]interface{}:
			jo, ok := jv.(map[string]interface{})
			if !ok {
				return fmt.Sprintf("%s: the map encoder records an object, the JSON line has %T", path, jv)
			}
			seen := map[string]bool{}
			for k, v := range x {
				sk := sanitizeUTF8(k)
				seen[sk] = true
				if top && metaKeys[sk] {
					continue
				}
				j, ok := jo[sk]
				if !ok {
					return fmt.Sprintf("%s: key %q recorded by the map encoder is missing from the JSON line", path, sk)
				}
				if msg := walk(path+"."+sk, v, j, false); msg != "" {
					return msg
				}
			}
			for k := range jo {
				if !seen[k] && !(top && metaKeys[k]) {
					return fmt.Sprintf("%s: key %q in the JSON line is not recorded by the map encoder", path, k)
				}
			}
		case []interface{}:
			ja, ok := jv.([]interface{})
			if !ok {
				return fmt.Sprintf("%s: the map encoder records an array, the JSON line has %T", path, jv)
			}
			if len(ja) != len(x) {
				return fmt.Sprintf("%s: array of %d elements in the map encoder, %d in the JSON line", path, len(x), len(ja))
			}
			for i := range x {
				if msg := walk(fmt.Sprintf("%s[%d]", path, i), x[i], ja[i], false); msg != "" {
					return msg
				}
			}
		}
		return ""
	}
	return walk("$", map[string]interface{}(m.Fields), dec, true)
}


// ---- overlapping / history scenarios on one encoder (shared by C01, C02, C08, C10) ----

type jeGateJSON struct {
	who  string
	gate func()
}

func (g jeGateJSON) MarshalJSON() ([]byte, error) {
	if g.gate != nil {
		g.gate()
	}
	return []byte(`{"who":"` + g.who + `"}`), nil
}

// replayReflectOverlap: a logger whose With-context holds a reflected value; one goroutine is parked inside
// the reflection-based encoding of its call-site field while another entry with a reflected field is logged
// (and a sibling logger is derived) through the same logger. Every line must be exactly its own.
func replayReflectOverlap() (finds []jeFinding) {
	add := func(key, f string, a ...interface{}) {
		finds = append(finds, jeFinding{"", key, fmt.Sprintf(f, a...)})
	}
	sink := &lockedLines{}
	core := zapcore.NewCore(zapcore.NewJSONEncoder(zapcore.EncoderConfig{MessageKey: "m", SkipLineEnding: true}), sink, zapcore.DebugLevel)
	lg := zap.New(core).With(zap.Reflect("ctx", struct{ Build string }{"v1"}))
	parked := make(chan struct{})
	release := make(chan struct{})
	done := make(chan interface{}, 1)
	go func() {
		defer func() { done <- recover() }()
		lg.Info("A", zap.Reflect("payload", jeGateJSON{"A", func() { close(parked); <-release }}), zap.Int("after", 1))
	}()
	select {
	case <-parked:
	case <-time.After(5 * time.Second):
		add("harness", "the reflected field's MarshalJSON was never called")
		return finds
	}
	func() {
		defer func() {
			if p := recover(); p != nil {
				add("panic", "logging a reflected field while another reflected field is being encoded panicked: %v", p)
			}
		}()
		lg.Info("B", zap.Reflect("payload", jeGateJSON{"B", nil}), zap.Int("after", 2))
		lg.With(zap.Reflect("req", jeGateJSON{"C", nil})).Info("C")
	}()
	close(release)
	if p := <-done; p != nil {
		add("panic", "the parked logging call panicked: %v", p)
	}
	want := map[string]string{
		"A": `{"m":"A","ctx":{"Build":"v1"},"payload":{"who":"A"},"after":1}`,
		"B": `{"m":"B","ctx":{"Build":"v1"},"payload":{"who":"B"},"after":2}`,
		"C": `{"m":"C","ctx":{"Build":"v1"},"req":{"who":"C"}}`,
	}
	// the same while DERIVING: one With(reflected) is parked inside the encoding of its field, a sibling is derived
	// from the same parent (whose encoder already holds a reflected context field) and used
	parked2 := make(chan struct{})
	release2 := make(chan struct{})
	done2 := make(chan interface{}, 1)
	go func() {
		defer func() { done2 <- recover() }()
		lg.With(zap.Reflect("req", jeGateJSON{"D", func() { close(parked2); <-release2 }}), zap.Int("n", 4)).Info("D")
	}()
	select {
	case <-parked2:
		func() {
			defer func() {
				if p := recover(); p != nil {
					add("panic", "deriving a sibling while a With(reflected) is in progress panicked: %v", p)
				}
			}()
			lg.With(zap.Reflect("req", jeGateJSON{"E", nil}), zap.Int("n", 5)).Info("E")
		}()
		close(release2)
		if p := <-done2; p != nil {
			add("panic", "the parked derivation panicked: %v", p)
		}
	case <-time.After(5 * time.Second):
		add("harness", "the reflected context field's MarshalJSON was never called")
	}
	want["D"] = `{"m":"D","ctx":{"Build":"v1"},"req":{"who":"D"},"n":4}`
	want["E"] = `{"m":"E","ctx":{"Build":"v1"},"req":{"who":"E"},"n":5}`
	lines := sink.all()
	if len(lines) != 5 {
		add("entry-lost", "5 entries logged, %d lines written: %q", len(lines), lines)
	}
	for _, l := range lines {
		if err := strictJSONObjectLine([]byte(l), ""); err != nil {
			add("invalid-json", "overlapping reflected fields on a logger with a reflected context: %v: %q", err, l)
			continue
		}
		var m struct{ M string }
		json.Unmarshal([]byte(l), &m)
		if w, ok := want[m.M]; !ok || w != l {
			add("value", "overlapping reflected fields on a logger with a reflected context: entry %q came out as %s, alone it is %s", m.M, l, w)
		}
	}
	return finds
}

type jeFlakySink struct {
	fail  map[int]bool
	n     int
	lines []string
}

func (s *jeFlakySink) Write(p []byte) (int, error) {
	s.n++
	if s.fail[s.n] {
		return 0, errors.New("disk full")
	}
	s.lines = append(s.lines, string(p))
	return len(p), nil
}
func (s *jeFlakySink) Sync() error { return nil }

// replayAfterSinkError: the sink fails one write; afterwards parent and freshly derived children log in turn
// (each entry needs two pooled buffers at once). Every later line must be intact and its own.
func replayAfterSinkError() (finds []jeFinding) {
	add := func(key, f string, a ...interface{}) {
		finds = append(finds, jeFinding{"", key, fmt.Sprintf(f, a...)})
	}
	for failAt := 1; failAt <= 3; failAt++ {
		sink := &jeFlakySink{fail: map[int]bool{failAt: true}}
		var errOut bytes.Buffer
		lg := zap.New(zapcore.NewCore(zapcore.NewJSONEncoder(zapcore.EncoderConfig{MessageKey: "m", SkipLineEnding: true}), zapcore.Lock(sink), zapcore.DebugLevel), zap.ErrorOutput(zapcore.AddSync(&errOut)))
		want := []string{}
		finished := make(chan struct{})
		go func() {
			defer close(finished)
			defer func() {
				if p := recover(); p != nil {
					add("panic", "logging after a sink write error panicked: %v", p)
				}
			}()
			for i := 1; i <= 8; i++ {
				child := lg.With(zap.Int("child", i), zap.String("pad", strings.Repeat("c", 50)))
				child.Info(fmt.Sprintf("c%d", i), zap.Int("i", i))
				lg.Info(fmt.Sprintf("p%d", i), zap.Int("i", i))
				if 2*i-1 != failAt {
					want = append(want, fmt.Sprintf(`{"m":"c%d","child":%d,"pad":"%s","i":%d}`, i, i, strings.Repeat("c", 50), i))
				}
				if 2*i != failAt {
					want = append(want, fmt.Sprintf(`{"m":"p%d","i":%d}`, i, i))
				}
			}
		}()
		select {
		case <-finished:
		case <-time.After(5 * time.Second):
			add("sink:hang", "after write #%d to a Lock-wrapped sink failed, the next logging call never returned", failAt)
			return finds
		}
		if strings.Join(sink.lines, "\n") != strings.Join(want, "\n") {
			for k := range sink.lines {
				if k >= len(want) || sink.lines[k] != want[k] {
					w := "(nothing)"
					if k < len(want) {
						w = want[k]
					}
					key := "value"
					if strictJSONObjectLine([]byte(sink.lines[k]), "") != nil {
						key = "invalid-json"
					}
					add(key, "after write #%d to the sink failed, line %d is %q, want %q", failAt, k+1, trunc(sink.lines[k]), w)
					break
				}
			}
			if len(sink.lines) < len(want) {
				add("entry-lost", "after write #%d to the sink failed, %d of %d later entries reached the sink", failAt, len(sink.lines), len(want))
			}
		}
		if !strings.Contains(errOut.String(), "disk full") {
			add("sink:not-reported", "the failed write was not reported on the error output (%q)", errOut.String())
		}
	}
	return finds
}
