package main

import (
	"sync/atomic"
	"time"
	"runtime"
	"context"
	"io"
	"net/http/httptest"
	"encoding/json"
	"fmt"
	"log/slog"
	"sort"
	"strings"

	"go.uber.org/zap"
	"go.uber.org/zap/exp/zapslog"
	"go.uber.org/zap/zapcore"
	"go.uber.org/zap/zapgrpc"
	"go.uber.org/zap/zapio"
	"go.uber.org/zap/zaptest/observer"
)

// C05 — an entry is written exactly where its level is enabled; reported levels agree.
// Spec: CoreTree.tla. Every composition TLC enumerates (with the spec's predicted CheckedEntry
// per level, Enabled per level and LevelOf, for every value of the shared AtomicLevel along
// the behaviour) is built from the real constructors and driven through every front end.

func init() { register("C05", checkC05) }

type ctPer struct {
	L   int         `json:"l"`
	En  bool        `json:"en"`
	Ce  []ctCoreRef `json:"ce"`
	Dec [][]int     `json:"dec"` // sampler nodes that take a decision for this level
}
type ctStep struct {
	Al  int     `json:"al"`
	Lvl int     `json:"lvl"`
	Per []ctPer `json:"per"`
}
type ctBeh struct {
	Tree  ctNode   `json:"tree"`
	Steps []ctStep `json:"steps"`
}

var ctMutants = []map[string]string{
	{"HookRule": `"nonnil"`}, {"TeeLevel": `"fatal"`}, {"IncEnabled": `"filter"`}, {"TeeEnabled": `"all"`}, {"IncCheck": `"none"`},
}

func ctConsts(c *Ctx, emit bool) map[string]string {
	m := map[string]string{}
	if c.Thorough() {
		m["TeeWidth"] = `"full"`
		m["EnablerIds"] = "{0, 1, 2, 4, 5, 6, 8}"
		m["FilterIds"] = "{0, 2, 3, 5, 6, 8}"
		m["AtomValsP"] = "{1, 3, 7, 8}"
	}
	if emit {
		m["Emit"] = "TRUE"
	}
	return m
}

func checkC05(c *Ctx) {
	c.Assume("levels are the ten classes of CoreTree.tla (below Debug, the seven valid levels, InvalidLevel, above); the out-of-range classes are replayed with several concrete int8 values; the shared AtomicLevel only takes valid levels or InvalidLevel (an AtomicLevel holding an out-of-range value reports that value as its Level, not demanded either way)")
	c.Assume("sampler nodes either never drop or drop every in-range entry; exact sampling counts are C11")
	if c.Replay != "" {
		var rp struct {
			Replay struct {
				Beh     ctBeh  `json:"beh"`
				Variant string `json:"variant"`
			} `json:"replay"`
		}
		if err := readJSON(c.Replay, &rp); err != nil {
			c.Fatalf("replay file: %v", err)
		}
		for _, f := range replayC05(c, rp.Replay.Beh, rp.Replay.Variant) {
			c.Violation(f.Key, f.What, rp.Replay)
		}
		return
	}
	c.MustTLC(TLCOpts{Module: "CoreTree", Cfg: "CoreTree.check", Consts: ctConsts(c, false)})
	for _, m := range ctMutants {
		c.MustTLC(TLCOpts{Module: "CoreTree", Cfg: "CoreTree.check", Consts: m, ExpectViolation: true})
	}
	n := 0
	variants := []string{"io", "obs", "mix", "mix+hookerr"}
	c.MustTLC(TLCOpts{Module: "CoreTree", Cfg: "CoreTree.check", Gen: true, Consts: ctConsts(c, true), OnBeh: func(raw json.RawMessage) {
		if c.Saturated() {
			return
		}
		var b ctBeh
		if err := json.Unmarshal(raw, &b); err != nil {
			c.Inconclusive("bad CoreTree behaviour: %v", err)
			return
		}
		n++
		if n%5003 == 1 {
			c.Sample(map[string]interface{}{"tree": b.Tree.String(), "steps": len(b.Steps), "al": b.Steps[0].Al, "lvl": b.Steps[0].Lvl})
		}
		v := variants[(n+int(c.Seed))%len(variants)]
		for _, f := range replayC05(c, b, v) {
			c.Violation(f.Key, f.What, map[string]interface{}{"beh": b, "variant": v})
		}
		c.Add("traces_validated_against_impl", 1)
	}})
	for _, f := range replayHookStacks() {
		c.Violation(f.Key, f.What, map[string]interface{}{"scenario": "hook-stacks"})
	}
	c.Set("compositions_replayed", int64(n))
	c.Set("exhaustive", true)
	c.Set("rule", "every core composition of CoreTree.tla up to the configured depth/enablers, every value sequence of the shared AtomicLevel up to MaxSet changes, every level class, every front end")
	// the checked entry (with the list of cores that accepted it) is a pooled object: Pools.tla says it goes back after
	// its cores were written (spec mutant EntryOrder)
	c.MustTLC(TLCOpts{Module: "Pools", Cfg: "Pools.check", Consts: map[string]string{"EntryOrder": `"put-then-write"`, "KindSet": `{"plain"}`, "MaxGC": "0"}, ExpectViolation: true})
	for _, f := range ctEntryOverlap(c.Pick(20, 200)) {
		c.Violation(f.Key, f.What, map[string]interface{}{"scenario": "write-in-flight-overlap"})
	}
	c.Add("traces_validated_against_impl", 1)

}

// one logging front end: logs one entry at lvl (if it can express that level) and reports whether it did.
type ctFrontEnd struct {
	name string
	can  func(l zapcore.Level) bool
	log  func(lg *zap.Logger, w *ctWorld, l zapcore.Level)
}

func validLvl(l zapcore.Level) bool { return l >= zapcore.DebugLevel && l <= zapcore.FatalLevel }
func anyLvl(zapcore.Level) bool     { return true }

var ctFrontEnds = []ctFrontEnd{
	{"Logger.Log", anyLvl, func(lg *zap.Logger, w *ctWorld, l zapcore.Level) { lg.Log(l, "m", zap.Object("p", ctProbe{w})) }},
	{"Logger.Check+Write", anyLvl, func(lg *zap.Logger, w *ctWorld, l zapcore.Level) {
		if ce := lg.Check(l, "m"); ce != nil {
			ce.Write(zap.Object("p", ctProbe{w}))
		}
	}},
	{"Logger.<Level>", validLvl, func(lg *zap.Logger, w *ctWorld, l zapcore.Level) {
		f := []func(string, ...zap.Field){lg.Debug, lg.Info, lg.Warn, lg.Error, lg.DPanic, lg.Panic, lg.Fatal}[int(l)+1]
		f("m", zap.Object("p", ctProbe{w}))
	}},
	{"Sugar.Logw", anyLvl, func(lg *zap.Logger, w *ctWorld, l zapcore.Level) { lg.Sugar().Logw(l, "m", "p", ctProbe{w}) }},
	{"Sugar.Log", anyLvl, func(lg *zap.Logger, w *ctWorld, l zapcore.Level) { lg.Sugar().Log(l, "m", 1) }},
	{"Sugar.Logf", anyLvl, func(lg *zap.Logger, w *ctWorld, l zapcore.Level) { lg.Sugar().Logf(l, "m%d", 1) }},
	{"Sugar.Logln", anyLvl, func(lg *zap.Logger, w *ctWorld, l zapcore.Level) { lg.Sugar().Logln(l, "m", 1) }},
	{"Sugar.<Level>w", validLvl, func(lg *zap.Logger, w *ctWorld, l zapcore.Level) {
		s := lg.Sugar()
		f := []func(string, ...interface{}){s.Debugw, s.Infow, s.Warnw, s.Errorw, s.DPanicw, s.Panicw, s.Fatalw}[int(l)+1]
		f("m", "p", ctProbe{w})
	}},
	{"Sugar.<Level>ln", validLvl, func(lg *zap.Logger, w *ctWorld, l zapcore.Level) {
		s := lg.Sugar()
		f := []func(...interface{}){s.Debugln, s.Infoln, s.Warnln, s.Errorln, s.DPanicln, s.Panicln, s.Fatalln}[int(l)+1]
		f("m", ctProbe{w})
	}},
	{"zapio.Writer", anyLvl, func(lg *zap.Logger, w *ctWorld, l zapcore.Level) {
		wr := &zapio.Writer{Log: lg, Level: l}
		wr.Write([]byte("m\n"))
	}},
	{"NewStdLogAt", validLvl, func(lg *zap.Logger, w *ctWorld, l zapcore.Level) {
		sl, err := zap.NewStdLogAt(lg, l)
		if err != nil {
			panic(fmt.Sprintf("HARNESS NewStdLogAt(%v): %v", l, err))
		}
		sl.Print("m")
	}},
	{"zapgrpc", func(l zapcore.Level) bool {
		return l == zapcore.DebugLevel || l == zapcore.InfoLevel || l == zapcore.WarnLevel || l == zapcore.ErrorLevel || l == zapcore.FatalLevel
	}, func(lg *zap.Logger, w *ctWorld, l zapcore.Level) {
		// every spelling of a level's methods, on adapters built with and without WithDebug (which only moves the
		// Print family)
		v := int(atomic.AddInt64(&ctFEVariant, 1))
		g := zapgrpc.NewLogger(lg)
		gd := zapgrpc.NewLogger(lg, zapgrpc.WithDebug())
		if (v/12)%2 == 1 && l != zapcore.DebugLevel {
			g = gd
		}
		switch l {
		case zapcore.DebugLevel:
			[]func(){func() { gd.Println("m") }, func() { gd.Print("m") }, func() { gd.Printf("m") }}[v%3]()
		case zapcore.InfoLevel:
			[]func(){func() { g.Infoln("m") }, func() { g.Info("m") }, func() { g.Infof("m") }, func() { zapgrpc.NewLogger(lg).Println("m") }}[v%4]()
		case zapcore.WarnLevel:
			[]func(){func() { g.Warningf("m") }, func() { g.Warning("m") }, func() { g.Warningln("m") }}[v%3]()
		case zapcore.ErrorLevel:
			[]func(){func() { g.Errorln("m") }, func() { g.Error("m") }, func() { g.Errorf("m") }}[v%3]()
		case zapcore.FatalLevel:
			[]func(){func() { g.Fatalln("m") }, func() { g.Fatal("m") }, func() { g.Fatalf("m") }}[v%3]()
		}
	}},
	{"slog", func(l zapcore.Level) bool { return l >= zapcore.DebugLevel && l <= zapcore.ErrorLevel }, func(lg *zap.Logger, w *ctWorld, l zapcore.Level) {
		sl := slog.New(zapslog.NewHandler(lg.Core()))
		// every slog level of the class: slog levels are 4 apart, what lies between two names belongs to the lower one
		v := int(atomic.AddInt64(&ctFEVariant, 1))
		sl.Log(context.Background(), []slog.Level{slog.LevelDebug, slog.LevelInfo, slog.LevelWarn, slog.LevelError}[int(l)+1]+slog.Level(v%4), "m", "p", 1)
	}},
}

var ctFEVariant int64

func replayC05(c *Ctx, b ctBeh, leafKind string) (finds []Finding) {
	add := func(key, f string, a ...interface{}) {
		if len(finds) < 6 {
			finds = append(finds, Finding{Key: key, What: fmt.Sprintf(f, a...)})
		}
	}
	defer func() {
		if r := recover(); r != nil {
			if s, ok := r.(string); ok && strings.HasPrefix(s, "HARNESS") {
				c.Inconclusive("%s", s)
				return
			}
			add("C05/panic", "composition %s panicked: %v", b.Tree, r)
		}
	}()
	w := ctBuild(b.Tree, zapcore.Level(b.Steps[0].Al), strings.TrimSuffix(leafKind, "+hookerr"))
	w.hookErr = strings.HasSuffix(leafKind, "+hookerr")
	if w.buildErr != nil {
		// the spec's Constructible predicate mirrors NewIncreaseLevelCore; a refusal here means Enabled of a
		// subtree differs from the model, which the Enabled comparison of that subtree reports on its own
		c.Add("unconstructible", 1)
		c.Note("NewIncreaseLevelCore refused a composition the spec considers constructible: %s: %v", b.Tree, w.buildErr)
		return
	}
	desc := func(st ctStep) string { return fmt.Sprintf("%s with AtomicLevel=%d", b.Tree, st.Al) }
	mk := func() *zap.Logger {
		return zap.New(w.core, zap.WithFatalHook(zapcore.WriteThenPanic), zap.WithPanicHook(zapcore.WriteThenPanic), zap.ErrorOutput(zapcore.AddSync(io.Discard)))
	}
	// loggers derived BEFORE any level change must honour later changes on their next call
	root := mk()
	loggers := map[string]*zap.Logger{
		"root":        root,
		"With":        root.With(zap.Int("ctx", 1)),
		"WithLazy":    root.WithLazy(zap.Int("lz", 1)),
		"Named":       root.Named("n"),
		"Sugar.With":  root.Sugar().With("k", 1).Desugar(),
		"WithOptions": root.WithOptions(zap.Fields(zap.Int("o", 1))),
	}
	lnames := []string{"root", "With", "WithLazy", "Named", "Sugar.With", "WithOptions"}
	for si, st := range b.Steps {
		if si > 0 {
			// the level is changed through every surface that changes a shared AtomicLevel in place
			nl := zapcore.Level(st.Al)
			how := (len(b.Tree.String()) + si + st.Al) % 3
			switch {
			case nl < zapcore.DebugLevel || nl > zapcore.FatalLevel || how == 0:
				w.atom.SetLevel(nl)
			case how == 1:
				if err := w.atom.UnmarshalText([]byte(nl.String())); err != nil {
					add("C05/panic", "AtomicLevel.UnmarshalText(%q): %v", nl.String(), err)
				}
			default:
				req := httptest.NewRequest("PUT", "/", strings.NewReader(fmt.Sprintf(`{"level":%q}`, nl.String())))
				rec := httptest.NewRecorder()
				w.atom.ServeHTTP(rec, req)
				if rec.Code != 200 {
					w.atom.SetLevel(nl)
				}
			}
		}
		// reported minimum level
		for _, ln := range lnames {
			lg := loggers[ln]
			if got := lg.Level(); int(got) != st.Lvl {
				add("C05/level-agrees", "%s: %s logger.Level() = %d (%v), least valid level delivered somewhere is %d", desc(st), ln, got, got, st.Lvl)
			}
			if got := zapcore.LevelOf(lg.Core()); int(got) != st.Lvl {
				add("C05/level-agrees", "%s: LevelOf(%s core) = %d (%v), least valid level delivered somewhere is %d", desc(st), ln, got, got, st.Lvl)
			}
		}
		for _, per := range st.Per {
			wantLeaves := map[string]int{}
			wantHooks := map[string]int{}
			wantDec := map[string]bool{}
			for _, p := range per.Dec {
				wantDec[pathKey(p)] = true
			}
			for _, r := range per.Ce {
				if r.K == "leaf" {
					wantLeaves[pathKey(r.P)]++
				} else {
					wantHooks[pathKey(r.P)]++
				}
			}
			for ci, l := range ctConcreteLevels(per.L, c.Thorough()) {
				for _, ln := range lnames {
					if got := loggers[ln].Core().Enabled(l); got != per.En {
						add("C05/enabled-agrees", "%s: %s core.Enabled(%d) = %v but the entry is %sdelivered", desc(st), ln, l, got, map[bool]string{true: "", false: "not "}[per.En])
					}
				}
				if l >= zapcore.InfoLevel && l <= zapcore.ErrorLevel || l == zapcore.FatalLevel {
					g := zapgrpc.NewLogger(root)
					v := map[zapcore.Level]int{zapcore.InfoLevel: 0, zapcore.WarnLevel: 1, zapcore.ErrorLevel: 2, zapcore.FatalLevel: 3}[l]
					if got := g.V(v); got != per.En {
						add("C05/enabled-agrees", "%s: zapgrpc V(%d) = %v but level %v is %senabled", desc(st), v, got, l, map[bool]string{true: "", false: "not "}[per.En])
					}
				}
				for fi, fe := range ctFrontEnds {
					if !fe.can(l) {
						continue
					}
					// every front end on the root logger; derived loggers take turns
					ln := "root"
					if (fi+si+ci+int(l))%2 == 1 {
						ln = lnames[(fi+int(l)+8)%len(lnames)]
					}
					lg := loggers[ln]
					w.reset()
					ctProtect(func() { fe.log(lg, w, l) })
					what := fmt.Sprintf("%s: %s via %s at level %d", desc(st), fe.name, ln, l)
					if k, msg := ctCompare(w, wantLeaves, wantHooks); k != "" {
						add(k, "%s: %s", what, msg)
					}
					if k, msg := ctCompareDecisions(w, wantDec); k != "" {
						add(k, "%s: %s", what, msg)
					}
				}
				// the core's own Check with a nil CheckedEntry (no pre-check at all)
				w.reset()
				ent := zapcore.Entry{Level: l, Message: "m"}
				if ce := root.Core().Check(ent, nil); ce != nil {
					ce.Write()
				}
				if k, msg := ctCompare(w, wantLeaves, wantHooks); k != "" {
					add(k, "%s: core.Check+Write at level %d: %s", desc(st), l, msg)
				}
			}
		}
		// re-derive after the change too
		loggers["With"] = loggers["With"].With(zap.Int("ctx2", 2))
	}
	return finds
}

func ctProtect(f func()) {
	defer func() {
		if r := recover(); r != nil {
			if s, ok := r.(string); ok && strings.HasPrefix(s, "HARNESS") {
				panic(r)
			}
		}
	}()
	f()
}

func ctCompare(w *ctWorld, wantLeaves, wantHooks map[string]int) (key, msg string) {
	w.mu.Lock()
	defer w.mu.Unlock()
	show := func(m map[string]int) string {
		ks := []string{}
		for k, v := range m {
			ks = append(ks, fmt.Sprintf("%s×%d", k, v))
		}
		sort.Strings(ks)
		return "{" + strings.Join(ks, " ") + "}"
	}
	for k, v := range wantLeaves {
		if w.delivered[k] < v {
			return "C05/delivery:missing", fmt.Sprintf("leaf %s enabled on its whole path did not receive the entry; delivered %s, want %s", k, show(w.delivered), show(wantLeaves))
		}
		if w.delivered[k] > v {
			return "C05/delivery:duplicate", fmt.Sprintf("leaf %s received the entry %d times; want %s", k, w.delivered[k], show(wantLeaves))
		}
	}
	for k := range w.delivered {
		if wantLeaves[k] == 0 {
			return "C05/delivery:extra", fmt.Sprintf("leaf %s received an entry some filter on its path disables; delivered %s, want %s", k, show(w.delivered), show(wantLeaves))
		}
	}
	for k, v := range wantHooks {
		if w.hooks[k] < v {
			return "C05/hook-missing", fmt.Sprintf("hook %s did not fire although its core accepted the entry; fired %s, want %s", k, show(w.hooks), show(wantHooks))
		}
		if w.hooks[k] > v {
			return "C05/hook-duplicate", fmt.Sprintf("hook %s fired %d times for one entry", k, w.hooks[k])
		}
	}
	for k := range w.hooks {
		if wantHooks[k] == 0 {
			return "C05/hook-fired-without-accept", fmt.Sprintf("hook %s fired although its core did not accept the entry; fired %s, want %s", k, show(w.hooks), show(wantHooks))
		}
	}
	if len(wantLeaves) == 0 && len(wantHooks) == 0 {
		if w.marshals != 0 {
			return "C05/disabled-activity", fmt.Sprintf("a disabled entry marshaled its field %d time(s)", w.marshals)
		}
		if w.sinkOps != 0 {
			return "C05/disabled-activity", fmt.Sprintf("a disabled entry caused %d sink operation(s)", w.sinkOps)
		}
	}
	return "", ""
}

// ctCompareDecisions: a sampler decides (and calls its hook) exactly for entries its own core would take.
func ctCompareDecisions(w *ctWorld, want map[string]bool) (key, msg string) {
	w.mu.Lock()
	defer w.mu.Unlock()
	for k, ds := range w.sampHook {
		if !want[k] && len(ds) > 0 {
			return "C05/disabled-activity", fmt.Sprintf("sampler %s took %d sampling decision(s) for an entry its own core does not enable (budget consumed, decision hook called)", k, len(ds))
		}
		if len(ds) > 1 {
			return "C05/hook-duplicate", fmt.Sprintf("sampler %s decided %d times for one entry", k, len(ds))
		}
	}
	for k := range want {
		if len(w.sampHook[k]) == 0 {
			return "C05/hook-missing", fmt.Sprintf("sampler %s took no decision for an entry its core enables", k)
		}
	}
	return "", ""
}

// replayHookStacks: hooks registered layer upon layer (zap.Hooks through WithOptions, RegisterHooks on an already
// hooked core), then sibling loggers each adding one more: every logger's entries fire exactly the hooks registered
// on its own derivation path, once each (CoreTree.tla: hook(hook(...hook(leaf)))) with branching).
func replayHookStacks() (finds []Finding) {
	for depth := 1; depth <= 5; depth++ {
		for _, viaCore := range []bool{false, true} {
			counts := map[string]int{}
			hookFn := func(name string) func(zapcore.Entry) error {
				return func(zapcore.Entry) error { counts[name]++; return nil }
			}
			oc, _ := observerNew()
			var core zapcore.Core = oc
			lg := zap.New(core)
			path := []string{}
			for d := 1; d <= depth; d++ {
				name := fmt.Sprintf("layer%d", d)
				path = append(path, name)
				if viaCore {
					core = zapcore.RegisterHooks(core, hookFn(name))
					lg = zap.New(core)
				} else {
					lg = lg.WithOptions(zap.Hooks(hookFn(name)))
				}
			}
			mkChild := func(name string) *zap.Logger {
				if viaCore {
					return zap.New(zapcore.RegisterHooks(core, hookFn(name)))
				}
				return lg.WithOptions(zap.Hooks(hookFn(name)))
			}
			a, b := mkChild("siblingA"), mkChild("siblingB")
			check := func(who string, l *zap.Logger, own []string, times int) {
				for k := range counts {
					delete(counts, k)
				}
				for i := 0; i < times; i++ {
					l.Info("entry")
				}
				want := map[string]int{}
				for _, h := range own {
					want[h] = times
				}
				for _, h := range append(append([]string{}, path...), "siblingA", "siblingB") {
					if counts[h] != want[h] {
						finds = append(finds, Finding{Key: map[bool]string{true: "C05/hook-missing", false: "C05/hook-fired-without-accept"}[counts[h] < want[h]],
							What: fmt.Sprintf("%d hook layers (registered %s), then two sibling loggers each adding a hook: %d entries through %s fired hook %s %d times, want %d (hooks fired: %v)", depth, map[bool]string{true: "with RegisterHooks", false: "with the zap.Hooks option"}[viaCore], times, who, h, counts[h], want[h], counts)})
						return
					}
				}
			}
			check("sibling A", a, append(append([]string{}, path...), "siblingA"), 2)
			check("sibling B", b, append(append([]string{}, path...), "siblingB"), 1)
			check("the parent", lg, path, 3)
		}
	}
	return finds
}

func observerNew() (zapcore.Core, interface{}) {
	c, l := observer.New(zapcore.DebugLevel)
	return c, l
}

// ---- a write in flight while another entry is checked and written ----

type ctGateCore struct {
	zapcore.LevelEnabler
	entered, release chan struct{}
	got             []string
}

func (c *ctGateCore) With([]zapcore.Field) zapcore.Core { return c }
func (c *ctGateCore) Check(e zapcore.Entry, ce *zapcore.CheckedEntry) *zapcore.CheckedEntry {
	if c.Enabled(e.Level) {
		return ce.AddCore(e, c)
	}
	return ce
}
func (c *ctGateCore) Write(e zapcore.Entry, _ []zapcore.Field) error {
	c.got = append(c.got, e.Message)
	close(c.entered)
	<-c.release
	return nil
}
func (c *ctGateCore) Sync() error { return nil }

// ctEntryOverlap: logger A's entry is being written to the first of its cores (a slow sink) when logger B, whose
// cores enable other levels, logs an entry completely. Every core receives exactly the entries of its own logger
// that its level enables. One P, so that pooled objects are handed from one call to the next.
func ctEntryOverlap(rounds int) (finds []Finding) {
	add := func(key, f string, a ...interface{}) {
		if len(finds) < 3 {
			finds = append(finds, Finding{Key: key, What: fmt.Sprintf(f, a...)})
		}
	}
	prev := runtime.GOMAXPROCS(1)
	defer runtime.GOMAXPROCS(prev)
	for r := 0; r < rounds && len(finds) == 0; r++ {
		g := &ctGateCore{LevelEnabler: zapcore.DebugLevel, entered: make(chan struct{}), release: make(chan struct{})}
		a2, a2logs := observer.New(zapcore.DebugLevel)
		a3, a3logs := observer.New(zapcore.DebugLevel)
		x, xlogs := observer.New(zapcore.ErrorLevel)
		y, ylogs := observer.New(zapcore.ErrorLevel)
		z, zlogs := observer.New(zapcore.WarnLevel)
		la := zap.New(zapcore.NewTee(g, a2, a3))
		var lb *zap.Logger
		if r%2 == 0 {
			lb = zap.New(zapcore.NewTee(x, y))
		} else {
			lb = zap.New(zapcore.NewTee(x, y, z))
		}
		done := make(chan interface{}, 1)
		go func() {
			defer func() { done <- recover() }()
			la.Debug("from-A", zap.Int("r", r))
		}()
		select {
		case <-g.entered:
		case <-time.After(2 * time.Second):
			return append(finds, Finding{Key: "HARNESS/C05-overlap", What: "logger A never reached its first core"})
		}
		var pb interface{}
		func() {
			defer func() { pb = recover() }()
			lb.Error("from-B")
			lb.Error("from-B2")
		}()
		close(g.release)
		pa := <-done
		if pa != nil || pb != nil {
			add("C05/panic", "an entry logged while another logger's entry was still being written to the first of its cores: panic %v / %v", pa, pb)
			continue
		}
		msgs := func(l *observer.ObservedLogs) string {
			out := []string{}
			for _, e := range l.All() {
				out = append(out, e.Level.String()+":"+e.Message)
			}
			return strings.Join(out, ",")
		}
		want := map[string][2]string{
			"A's second core (debug)": {msgs(a2logs), "debug:from-A"}, "A's third core (debug)": {msgs(a3logs), "debug:from-A"},
			"B's first core (error)": {msgs(xlogs), "error:from-B,error:from-B2"}, "B's second core (error)": {msgs(ylogs), "error:from-B,error:from-B2"},
		}
		if r%2 == 1 {
			want["B's third core (warn)"] = [2]string{msgs(zlogs), "error:from-B,error:from-B2"}
		}
		for name, gw := range want {
			if gw[0] != gw[1] {
				key := "C05/delivery:missing"
				if strings.Contains(gw[0], "debug:") && strings.Contains(name, "B's") {
					key = "C05/delivery:extra"
				}
				add(key, "logger A (tee of three debug cores, the first one slow) logs a debug entry; while it is inside its first core, logger B (error-level cores) logs two entries. %s received [%s], want [%s]", name, gw[0], gw[1])
			}
		}
	}
	return finds
}
