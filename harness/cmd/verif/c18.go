package main

import (
	"runtime"
	"go.uber.org/zap"
	"bytes"
	"context"
	"encoding/json"
	"fmt"
	"log/slog"
	"math/rand"
	"strconv"
	"strings"
	"sync"
	"time"

	"go.uber.org/zap/exp/zapslog"
	"go.uber.org/zap/zapcore"
)

// C18 — the slog handler reproduces slog's attribute and group semantics.
// Spec: SlogHandler.tla. Every derivation tree + record TLC generates is replayed on a real
// zapslog.Handler over a JSON core; the emitted line must be exactly the rendering of the
// spec's predicted field list.

func init() { register("C18", checkC18) }

type shOp struct {
	Op    string   `json:"op"`
	H     int      `json:"h"`
	Name  string   `json:"name"`
	Attrs []string `json:"attrs"`
	Want  []string `json:"want"` // log operations: the predicted visible fields of that entry
}
type shBeh struct {
	Hist  []shOp     `json:"hist"`
	Want  []string   `json:"want"`
	Probe [][]string `json:"probe"`
}

var shMutants = []map[string]string{
	{"EmptyName": `"open"`}, {"ClearRule": `"always"`}, {"ClearRule": `"anyfield"`}, {"NsBefore": `"any"`},
	{"GroupCopy": `"append"`, "MaxHandlers": "6", "MaxAttrs": "1", "MaxAttrsDerive": "0"},
}

func checkC18(c *Ctx) {
	c.Assume("attribute classes E / I / S are concretised with every slog kind (typed leaves, named and inline groups with members, nested groups, LogValuers; empty Attr, member-less groups, LogValuers resolving to empty groups); a group whose members are all themselves empty (recursive emptiness) is not generated")
	c.Assume("besides the operations TLC lists, the replay gives the root handler 0-3 pending groups of its own and derives a decoy sibling after every derivation (both leave the predicted entry unchanged up to the known prefix)")
	if c.Replay != "" {
		var rp struct {
			Replay struct {
				Beh  shBeh `json:"beh"`
				Seed int64 `json:"seed"`
			} `json:"replay"`
		}
		if err := readJSON(c.Replay, &rp); err != nil {
			c.Fatalf("replay file: %v", err)
		}
		for _, f := range replaySlog(rp.Replay.Beh, rp.Replay.Seed) {
			c.Violation(f.Key, f.What, rp.Replay)
		}
		return
	}
	r := c.MustTLC(TLCOpts{Module: "SlogHandler", Cfg: "SlogHandler.check"})
	levelMap := []int{}
	for _, m := range r.Marks {
		if strings.HasPrefix(m, "@@LEVELMAP ") {
			json.Unmarshal([]byte(m[len("@@LEVELMAP "):]), &levelMap)
		}
	}
	if len(levelMap) != 41 {
		c.Fatalf("no level map from the spec (marks %v)", r.Marks)
	}
	for _, f := range replaySlogLevels(levelMap) {
		c.Violation(f.Key, f.What, map[string]interface{}{"levelmap": levelMap})
	}
	for _, m := range shMutants {
		c.MustTLC(TLCOpts{Module: "SlogHandler", Cfg: "SlogHandler.check", Consts: m, ExpectViolation: true})
	}
	// the core's enabler is live: thresholds, AtomicLevels moved at run time, arbitrary sets
	nlive := 0
	c.MustTLC(TLCOpts{Module: "StackLevels", Cfg: "StackLevels.check", Gen: true, Consts: map[string]string{"Emit": "TRUE", "MaxSteps": fmt.Sprint(c.Pick(3, 4))}, OnBeh: func(raw json.RawMessage) {
		var b slBeh
		if err := json.Unmarshal(raw, &b); err != nil {
			c.Inconclusive("bad StackLevels behaviour: %v", err)
			return
		}
		nlive++
		if b.Kind != "set" && len(b.En0) == 0 {
			return
		}
		for _, f := range replaySlogLive(b, nlive) {
			c.Violation(f.Key, f.What, map[string]interface{}{"mode": "live-enabler", "beh": b})
		}
		c.Add("traces_validated_against_impl", 1)
	}})
	c.Set("live_enabler_histories", int64(nlive))
	for _, f := range replaySlogOverlap(c.Pick(10, 100)) {
		c.Violation(f.Key, f.What, map[string]interface{}{"mode": "overlapping-records"})
	}
	gens := []map[string]string{{"Emit": "TRUE", "MaxAttrsDerive": "1"}, {"Emit": "TRUE", "MaxHandlers": "3"}}
	if c.Thorough() {
		gens = []map[string]string{{"Emit": "TRUE"}}
		c.MustTLC(TLCOpts{Module: "SlogHandler", Cfg: "SlogHandler.check", Consts: map[string]string{"MaxHandlers": "6", "MaxAttrs": "1", "MaxAttrsDerive": "0"}})
		gens = append(gens, map[string]string{"Emit": "TRUE", "MaxHandlers": "6", "MaxAttrs": "1", "MaxAttrsDerive": "0"},
			map[string]string{"Emit": "TRUE", "MaxHandlers": "3", "MaxLogs": "2", "MaxAttrs": "2", "MaxAttrsDerive": "2"})
	}
	var mu sync.Mutex
	var n int64
	for _, g := range gens {
		jobs := make(chan shBeh, 4096)
		var wg sync.WaitGroup
		for w := 0; w < 12; w++ {
			wg.Add(1)
			go func() {
				defer wg.Done()
				for b := range jobs {
					if c.Saturated() {
						continue
					}
					mu.Lock()
					n++
					k := n
					mu.Unlock()
					seed := c.Seed*15485863 + k
					for _, f := range replaySlog(b, seed) {
						c.Violation(f.Key, f.What, map[string]interface{}{"beh": b, "seed": seed})
					}
					c.Add("traces_validated_against_impl", 1)
					if k%50021 == 1 {
						c.Sample(b)
					}
				}
			}()
		}
		c.MustTLC(TLCOpts{Module: "SlogHandler", Cfg: "SlogHandler.check", Gen: true, Consts: g, Timeout: c.pickD(), OnBeh: func(raw json.RawMessage) {
			var b shBeh
			if err := json.Unmarshal(raw, &b); err != nil {
				c.Inconclusive("bad SlogHandler behaviour: %v", err)
				return
			}
			jobs <- b
		}})
		close(jobs)
		wg.Wait()
	}
	c.Set("derivation_trees_replayed", n)
	c.Set("exhaustive", true)
	c.Set("rule", "quick: every derivation tree of <=4 handlers with WithAttrs lists <=1 and of <=3 handlers with lists <=2 (WithGroup over {\"\",a,b}) x every record class list <=2, logged through every handler of the tree; thorough: <=4 handlers with lists <=2, plus 6-handler group-only trees and two-record histories")
}

type shValuer struct{ v slog.Value }

func (l shValuer) LogValue() slog.Value { return l.v }

type shStruct struct {
	A int    `json:"a"`
	B string `json:"b"`
}

// shAttr builds a concrete attribute of class cl and the JSON text it must contribute ("" for class S).
func shAttr(rng *rand.Rand, cl string, tag string) (slog.Attr, string) {
	k := "k" + tag
	q := func(s string) string { b, _ := json.Marshal(s); return string(b) }
	switch cl {
	case "S":
		switch rng.Intn(5) {
		case 0:
			return slog.Attr{}, ""
		case 1:
			return slog.Group("g" + tag), ""
		case 2:
			return slog.Group(""), ""
		case 3:
			return slog.Any(k, shValuer{slog.GroupValue()}), ""
		default:
			return slog.Attr{Key: "", Value: slog.GroupValue()}, ""
		}
	case "I":
		switch rng.Intn(3) {
		case 0:
			return slog.Group("", slog.Int("in"+tag, 7)), q("in"+tag) + ":7"
		case 1:
			return slog.Group("", slog.String("in"+tag, "x"), slog.Attr{}, slog.Bool("ib"+tag, true)), q("in"+tag) + `:"x",` + q("ib"+tag) + ":true"
		default:
			return slog.Any("", shValuer{slog.GroupValue(slog.Int("iv"+tag, 1))}), q("iv"+tag) + ":1"
		}
	default: // E
		switch rng.Intn(13) {
		case 0:
			return slog.Int64(k, -1<<63), q(k) + ":" + strconv.FormatInt(-1<<63, 10)
		case 1:
			return slog.String(k, "v\"\n"), q(k) + `:"v\"\n"`
		case 2:
			return slog.Bool(k, false), q(k) + ":false"
		case 3:
			return slog.Uint64(k, 1<<63), q(k) + ":9223372036854775808"
		case 4:
			return slog.Float64(k, 0.5), q(k) + ":0.5"
		case 5:
			return slog.Duration(k, 1500*time.Millisecond), q(k) + ":1500000000"
		case 6:
			t := time.Unix(1700000000, 5).UTC()
			return slog.Time(k, t), q(k) + ":" + strconv.FormatInt(t.UnixNano(), 10)
		case 7:
			return slog.Any(k, shStruct{1, "s"}), q(k) + `:{"a":1,"b":"s"}`
		case 8:
			return slog.Group("g"+tag, slog.Int("m", 1), slog.String("n", "x")), q("g"+tag) + `:{"m":1,"n":"x"}`
		case 9:
			return slog.Group("g"+tag, slog.Group("inner", slog.Int("d", 2)), slog.Group("", slog.Int("fl", 3))), q("g"+tag) + `:{"inner":{"d":2},"fl":3}`
		case 10:
			return slog.Any(k, shValuer{slog.StringValue("resolved")}), q(k) + `:"resolved"`
		case 11:
			return slog.Any(k, shValuer{slog.GroupValue(slog.Int("gv", 4))}), q(k) + `:{"gv":4}`
		default:
			return slog.Any(k, shValuer{slog.AnyValue(shValuer{slog.Int64Value(9)})}), q(k) + ":9"
		}
	}
}

type shNode struct {
	h      slog.Handler
	pieces []string // JSON contributions of the emitting attributes along this handler's path, in order
}

func shRender(want []string, pieces []string, prefix []string) (string, bool) {
	var b strings.Builder
	b.WriteByte('{')
	depth := 0
	first := true
	comma := func() {
		if !first {
			b.WriteByte(',')
		}
		first = false
	}
	pi := 0
	prefixDone := false
	for _, t := range want {
		if !prefixDone && !strings.HasPrefix(t, "ns:") || !prefixDone && len(prefix) == 0 {
			prefixDone = true
		}
		if strings.HasPrefix(t, "ns:") {
			comma()
			kb, _ := json.Marshal(t[3:])
			b.Write(kb)
			b.WriteString(":{")
			depth++
			first = true
			continue
		}
		if pi >= len(pieces) {
			return "", false
		}
		comma()
		b.WriteString(pieces[pi])
		pi++
	}
	if pi != len(pieces) {
		return "", false
	}
	for ; depth > 0; depth-- {
		b.WriteByte('}')
	}
	b.WriteByte('}')
	return b.String(), true
}

func replaySlog(b shBeh, seed int64) (finds []Finding) {
	rng := rand.New(rand.NewSource(seed))
	add := func(key, f string, a ...interface{}) {
		if len(finds) < 4 {
			finds = append(finds, Finding{Key: key, What: fmt.Sprintf(f, a...)})
		}
	}
	defer func() {
		if p := recover(); p != nil {
			add("C18/panic", "handler panicked: %v (ops %+v)", p, b.Hist)
		}
	}()
	sink := &jeSink{}
	core := zapcore.NewCore(zapcore.NewJSONEncoder(zapcore.EncoderConfig{SkipLineEnding: true}), sink, zapcore.DebugLevel)
	// one run in three goes through the console encoder, whose context is the same JSON object with spaces
	console := (seed>>2)%3 == 0
	if console {
		core = zapcore.NewCore(zapcore.NewConsoleEncoder(zapcore.EncoderConfig{SkipLineEnding: true}), sink, zapcore.DebugLevel)
	}
	// the root handler may already carry pending groups of its own (a concretisation of "some handler")
	npre := rng.Intn(4)
	var root slog.Handler = zapslog.NewHandler(core)
	prefix := []string{}
	for i := 0; i < npre; i++ {
		root = root.WithGroup(fmt.Sprintf("p%d", i))
		prefix = append(prefix, fmt.Sprintf("ns:p%d", i))
	}
	nodes := []*shNode{{h: root}}
	withPrefix := func(want []string) []string {
		// the pending root groups show up, in order, right before the first visible field (if any)
		if len(want) == 0 || len(prefix) == 0 {
			return want
		}
		return append(append([]string{}, prefix...), want...)
	}
	logThrough := func(n *shNode, rec []string, want []string, what string) {
		attrs := []slog.Attr{}
		pieces := append([]string{}, n.pieces...)
		for i, cl := range rec {
			a, p := shAttr(rng, cl, fmt.Sprintf("r%d", i))
			attrs = append(attrs, a)
			if p != "" {
				pieces = append(pieces, p)
			}
		}
		exp, ok := shRender(withPrefix(want), pieces, prefix)
		if !ok {
			add("HARNESS/C18", "predicted fields %v do not line up with the %d emitting attributes (%s)", want, len(pieces), what)
			return
		}
		sink.writes = nil
		if rng.Intn(2) == 0 {
			r := slog.NewRecord(time.Time{}, slog.LevelInfo, "", 0)
			r.AddAttrs(attrs...)
			if err := n.h.Handle(context.Background(), r); err != nil {
				add("C18/handle-error", "Handle returned %v", err)
			}
		} else {
			slog.New(n.h).LogAttrs(context.Background(), slog.LevelWarn, "", attrs...)
		}
		if len(sink.writes) != 1 {
			add("C18/not-handled", "%s: %d entries written for one record (ops %+v)", what, len(sink.writes), b.Hist)
			return
		}
		got := string(sink.writes[0])
		if console {
			what += " (console-encoded core)"
			if got == "" && exp == "{}" {
				return // no fields: the console encoder prints no context at all
			}
			var cb bytes.Buffer
			if err := json.Compact(&cb, sink.writes[0]); err == nil {
				got = cb.String()
			}
		}
		if err := strictJSONObjectLine([]byte(got), ""); err != nil {
			add("C18/tree-differs:invalid-json", "%s: %v: %q (ops %+v)", what, err, got, b.Hist)
			return
		}
		if got != exp {
			key := "C18/tree-differs"
			if strings.Contains(exp, `""`) || strings.Contains(got, `"":{`) {
				key = "C18/tree-differs:empty-group-name"
			}
			add(key, "%s: entry %s, the slog contract gives %s (root pending groups %v, ops %+v)", what, got, exp, prefix, b.Hist)
		}
	}
	for oi, op := range b.Hist {
		if op.H < 1 || op.H > len(nodes) {
			add("HARNESS/C18", "bad handler index in %+v", op)
			return
		}
		parent := nodes[op.H-1]
		switch op.Op {
		case "group":
			child := &shNode{h: parent.h.WithGroup(op.Name), pieces: parent.pieces}
			nodes = append(nodes, child)
			// decoy sibling derived afterwards from the same parent: must not disturb the child
			parent.h.WithGroup("decoy")
		case "attrs":
			attrs := []slog.Attr{}
			pieces := append([]string{}, parent.pieces...)
			for i, cl := range op.Attrs {
				a, p := shAttr(rng, cl, fmt.Sprintf("%d_%d", oi, i))
				attrs = append(attrs, a)
				if p != "" {
					pieces = append(pieces, p)
				}
			}
			child := &shNode{h: parent.h.WithAttrs(attrs), pieces: pieces}
			nodes = append(nodes, child)
			parent.h.WithAttrs([]slog.Attr{slog.Int("decoy", 1)})
		case "log":
			logThrough(parent, op.Attrs, op.Want, fmt.Sprintf("record %v through handler %d", op.Attrs, op.H))
		}
	}
	// isolation: every handler of the tree still produces its own entry
	if len(b.Probe) == len(nodes) {
		for i, n := range nodes {
			logThrough(n, []string{"E"}, b.Probe[i], fmt.Sprintf("probe record through handler %d after all derivations", i+1))
		}
	}
	return finds
}

// replaySlogLevels: Enabled / Handle against the spec's level map for all slog levels -20..20.
func replaySlogLevels(levelMap []int) (finds []Finding) {
	add := func(key, f string, a ...interface{}) {
		if len(finds) < 4 {
			finds = append(finds, Finding{Key: key, What: fmt.Sprintf(f, a...)})
		}
	}
	for thr := zapcore.DebugLevel; thr <= zapcore.FatalLevel+1; thr++ {
		sink := &jeSink{}
		core := zapcore.NewCore(zapcore.NewJSONEncoder(zapcore.EncoderConfig{LevelKey: "l", EncodeLevel: zapcore.LowercaseLevelEncoder, SkipLineEnding: true}), sink, thr)
		h := zapslog.NewHandler(core)
		for l := -20; l <= 20; l++ {
			want := zapcore.Level(levelMap[l+20])
			en := h.Enabled(context.Background(), slog.Level(l))
			if en != core.Enabled(want) {
				add("C18/enabled-differs", "Enabled(slog level %d) = %v but the core (threshold %v) %s the mapped level %v", l, en, thr, map[bool]string{true: "enables", false: "disables"}[core.Enabled(want)], want)
			}
			sink.writes = nil
			r := slog.NewRecord(time.Time{}, slog.Level(l), "m", 0)
			h.Handle(context.Background(), r)
			if core.Enabled(want) != (len(sink.writes) == 1) {
				add("C18/handled-differs", "record at slog level %d: %d entries written, core threshold %v, mapped level %v", l, len(sink.writes), thr, want)
			} else if len(sink.writes) == 1 && string(sink.writes[0]) != fmt.Sprintf(`{"l":%q}`, want.String()) {
				add("C18/level-mapping", "record at slog level %d logged as %s, want level %v", l, sink.writes[0], want)
			}
			// through slog.Logger (which asks Enabled first)
			sink.writes = nil
			slog.New(h).Log(context.Background(), slog.Level(l), "m")
			if core.Enabled(want) != (len(sink.writes) == 1) {
				add("C18/handled-differs", "slog.Logger at level %d: %d entries written, core threshold %v, mapped level %v", l, len(sink.writes), thr, want)
			}
		}
	}
	// a composite core: every member decides for itself (handled iff THAT core enables the mapped level)
	for ta := zapcore.DebugLevel; ta <= zapcore.ErrorLevel+1; ta++ {
		for tb := zapcore.DebugLevel; tb <= zapcore.ErrorLevel+1; tb++ {
			sa, sb := &jeSink{}, &jeSink{}
			mk := func(s *jeSink, t zapcore.Level) zapcore.Core {
				return zapcore.NewCore(zapcore.NewJSONEncoder(zapcore.EncoderConfig{LevelKey: "l", EncodeLevel: zapcore.LowercaseLevelEncoder, SkipLineEnding: true}), s, t)
			}
			tee := zapcore.NewTee(mk(sa, ta), mk(sb, tb))
			for _, h := range []slog.Handler{zapslog.NewHandler(tee), zapslog.NewHandler(tee).WithAttrs([]slog.Attr{slog.Int("a", 1)}), zapslog.NewHandler(tee, zapslog.WithCaller(true), zapslog.AddStacktraceAt(slog.LevelDebug))} {
				for l := -8; l <= 12; l += 4 {
					want := zapcore.Level(levelMap[l+20])
					sa.writes, sb.writes = nil, nil
					slog.New(h).Log(context.Background(), slog.Level(l), "m")
					for i, s := range []*jeSink{sa, sb} {
						t := []zapcore.Level{ta, tb}[i]
						if (want >= t) != (len(s.writes) == 1) {
							add("C18/handled-differs", "tee of cores with thresholds %v and %v, record at slog level %d (zap %v): core %d received %d entries", ta, tb, l, want, i+1, len(s.writes))
						}
					}
				}
			}
		}
	}
	return finds
}

// replaySlogLive: "a record is handled if and only if the core enables the mapped level" - the core's enabler is
// consulted per record (StackLevels.tla histories: a threshold, an AtomicLevel moved at run time, an arbitrary
// set), through the handler itself and through handlers derived before and after the changes.
func replaySlogLive(b slBeh, variant int) (finds []Finding) {
	add := func(key, f string, a ...interface{}) {
		if len(finds) < 4 {
			finds = append(finds, Finding{Key: key, What: fmt.Sprintf(f, a...) + fmt.Sprintf(" [core enabler kind %s, initially enabling %v, history %v]", b.Kind, b.En0, b.H)})
		}
	}
	conc := func(l int) zapcore.Level { return zapcore.Level(l - 1) } // 0..3 -> debug..error
	slogOf := map[zapcore.Level]slog.Level{zapcore.DebugLevel: slog.LevelDebug, zapcore.InfoLevel: slog.LevelInfo, zapcore.WarnLevel: slog.LevelWarn, zapcore.ErrorLevel: slog.LevelError}
	var en zapcore.LevelEnabler
	var atom zap.AtomicLevel
	switch b.Kind {
	case "threshold":
		en = conc(b.En0[0])
	case "atomic":
		atom = zap.NewAtomicLevelAt(conc(b.En0[0]))
		en = atom
	case "set":
		set := map[zapcore.Level]bool{}
		for _, l := range b.En0 {
			set[conc(l)] = true
		}
		en = zap.LevelEnablerFunc(func(l zapcore.Level) bool { return set[l] })
	}
	sink := &jeSink{}
	core := zapcore.NewCore(zapcore.NewJSONEncoder(zapcore.EncoderConfig{LevelKey: "l", EncodeLevel: zapcore.LowercaseLevelEncoder, SkipLineEnding: true}), sink, en)
	root := zapslog.NewHandler(core)
	hs := []slog.Handler{root, root.WithAttrs([]slog.Attr{slog.Int("a", 1)}), root.WithGroup("g"), root.WithGroup("g").WithAttrs([]slog.Attr{slog.Int("a", 1)})}
	for i, st := range b.H {
		if st.Op == "set" {
			atom.SetLevel(conc(st.Lvl))
			continue
		}
		h := hs[(i+variant)%len(hs)]
		lvl := slogOf[conc(st.Lvl)]
		// whether a record is handled depends on the core's level alone - not on the state of the context it comes with
		ctx := context.Background()
		switch (i + variant) % 3 {
		case 1:
			c2, cancel := context.WithCancel(ctx)
			cancel()
			ctx = c2
		case 2:
			c2, cancel := context.WithDeadline(ctx, time.Unix(1, 0))
			defer cancel()
			ctx = c2
		}
		if got := h.Enabled(ctx, lvl); got != st.Attach {
			add("C18/enabled-differs", "step %d: Enabled(%v) = %v, the core's enabler says %v at that moment", i, lvl, got, st.Attach)
		}
		sink.writes = nil
		if (i+variant)%2 == 0 {
			r := slog.NewRecord(time.Time{}, lvl, "m", 0)
			r.AddAttrs(slog.Int("k", 1))
			h.Handle(ctx, r)
		} else {
			slog.New(h).Log(ctx, lvl, "m", "k", 1)
		}
		if (len(sink.writes) == 1) != st.Attach {
			add("C18/handled-differs", "step %d: record at %v: %d entries written, the core's enabler says enabled=%v at that moment", i, lvl, len(sink.writes), st.Attach)
		}
	}
	return finds
}


// ---- a record being encoded while another record is handled completely ----

type shGateValuer struct {
	entered, release chan struct{}
	v                string
}

func (g *shGateValuer) LogValue() slog.Value {
	if g.entered != nil {
		close(g.entered)
		<-g.release
	}
	return slog.StringValue(g.v)
}

// replaySlogOverlap: record A is inside its own encoding (a LogValuer nested in a group resolves late) when record B
// goes through the handler completely on the same P. Each line carries its own attributes only.
func replaySlogOverlap(rounds int) (finds []Finding) {
	add := func(key, f string, a ...interface{}) {
		if len(finds) < 3 {
			finds = append(finds, Finding{Key: key, What: fmt.Sprintf(f, a...)})
		}
	}
	prev := runtime.GOMAXPROCS(1)
	defer runtime.GOMAXPROCS(prev)
	for r := 0; r < rounds && len(finds) == 0; r++ {
		sink := &lockedLines{}
		core := zapcore.NewCore(zapcore.NewJSONEncoder(zapcore.EncoderConfig{MessageKey: "m", SkipLineEnding: true}), sink, zapcore.DebugLevel)
		var h slog.Handler = zapslog.NewHandler(core)
		if r%2 == 1 {
			h = h.WithGroup("req").WithAttrs([]slog.Attr{slog.Int("base", 1)})
		}
		gv := &shGateValuer{entered: make(chan struct{}), release: make(chan struct{}), v: "A-late"}
		done := make(chan interface{}, 1)
		go func() {
			defer func() { done <- recover() }()
			slog.New(h).Info("A", "user", "alice", "token", "A-secret", slog.Group("g", slog.Any("late", gv)), "tail", 1)
		}()
		select {
		case <-gv.entered:
		case <-time.After(2 * time.Second):
			// the valuer was resolved before encoding: nothing to overlap with (not a verdict)
			close(gv.release)
			<-done
			continue
		}
		var pb interface{}
		func() {
			defer func() { pb = recover() }()
			slog.New(h).Info("B", "user", "bob", "token", "B-secret", "n", 2)
			slog.New(h).Warn("B2", "other", true)
		}()
		close(gv.release)
		pa := <-done
		if pa != nil || pb != nil {
			add("C18/panic", "a record handled while another record was being encoded: panic %v / %v", pa, pb)
			continue
		}
		for _, l := range sink.all() {
			var m map[string]interface{}
			if err := json.Unmarshal([]byte(l), &m); err != nil {
				add("C18/tree-differs:invalid-json", "overlapping records: %v: %s", err, l)
				continue
			}
			flat := l
			switch m["m"] {
			case "A":
				if strings.Contains(flat, "bob") || strings.Contains(flat, "B-secret") || !strings.Contains(flat, "alice") || !strings.Contains(flat, "A-secret") || !strings.Contains(flat, "A-late") || !strings.Contains(flat, `"tail":1`) {
					add("C18/tree-differs", "record A (user alice) was being encoded while record B (user bob) was handled; A came out as %s", l)
				}
			case "B":
				if strings.Contains(flat, "alice") || strings.Contains(flat, "A-secret") || !strings.Contains(flat, "bob") || !strings.Contains(flat, `"n":2`) {
					add("C18/tree-differs", "record B (user bob) was handled while record A (user alice) was being encoded; B came out as %s", l)
				}
			}
		}
	}
	return finds
}
