package main

import (
	"bytes"
	"encoding/json"
	"errors"
	"fmt"
	"io"
	"strings"
	"sync"
	"sync/atomic"
	"time"

	"go.uber.org/multierr"
	"go.uber.org/zap"
	"go.uber.org/zap/zapcore"
	"go.uber.org/zap/zapio"
	"go.uber.org/zap/zaptest"
	"go.uber.org/zap/zaptest/observer"
)

// C13 — zap's writers and WriteSyncer combinators honour the io.Writer contract.
// Specs: Sinks.tla (multi-syncer loop, Lock, relays), WriterContract.tla (case table).

func init() { register("C13", checkC13) }

type sinkOutcome struct {
	N   int  `json:"n"`
	Err bool `json:"err"`
}

type sinksBeh struct {
	Op    string            `json:"op"`
	Outs  []sinkOutcome     `json:"outs"`
	N     int               `json:"n"`
	Errs  []int             `json:"errs"`
	Lop   map[string]string `json:"lop"`
	Order []string          `json:"order"`
}

// scriptSink returns a scripted (n, err) and records what it saw.
type scriptSink struct {
	out    sinkOutcome
	err    error
	writes [][]byte
	syncs  int
}

func (s *scriptSink) Write(p []byte) (int, error) {
	s.writes = append(s.writes, append([]byte(nil), p...))
	n := s.out.N
	if n > len(p) {
		n = len(p)
	}
	if s.out.Err {
		return n, s.err
	}
	return n, nil
}

func (s *scriptSink) Sync() error {
	s.syncs++
	if s.out.Err {
		return s.err
	}
	return nil
}

// writerOnly hides Sync.
type writerOnly struct{ w io.Writer }

func (w writerOnly) Write(p []byte) (int, error) { return w.w.Write(p) }

func checkC13(c *Ctx) {
	c.Assume("scripted sinks return (count class in {0, 1, len}, error or nil); payload bytes are fixed per case")
	c.MustTLC(TLCOpts{Module: "Sinks", Cfg: "Sinks.check"})
	c.MustTLC(TLCOpts{Module: "Sinks", Cfg: "Sinks.check", Consts: map[string]string{"MinRule": `"first-nonzero"`, "Procs": "{}"}, ExpectViolation: true})
	c.MustTLC(TLCOpts{Module: "Sinks", Cfg: "Sinks.check", Consts: map[string]string{"StopOnError": "TRUE", "Procs": "{}"}, ExpectViolation: true})
	c.MustTLC(TLCOpts{Module: "Sinks", Cfg: "Sinks.check", Consts: map[string]string{"Locked": "FALSE", "MaxSinks": "0"}, ExpectViolation: true})
	c.MustTLC(TLCOpts{Module: "Sinks", Cfg: "Sinks.check", Consts: map[string]string{"MaxSinks": "0"}}) // lock only, every assignment of two handles to three goroutines
	c.MustTLC(TLCOpts{Module: "Sinks", Cfg: "Sinks.check", Consts: map[string]string{"Relock": `"fresh"`, "MaxSinks": "0"}, ExpectViolation: true})

	seenMulti := map[string]bool{}
	seenLock := map[string]bool{}
	c.MustTLC(TLCOpts{Module: "Sinks", Cfg: "Sinks.gen", OnBeh: func(raw json.RawMessage) {
		var b sinksBeh
		if err := json.Unmarshal(raw, &b); err != nil {
			c.Inconclusive("bad Sinks behaviour: %v", err)
			return
		}
		mk, _ := json.Marshal([]interface{}{b.Op, b.Outs})
		if !seenMulti[string(mk)] {
			seenMulti[string(mk)] = true
			if len(seenMulti)%97 == 1 {
				c.Sample(map[string]interface{}{"multi": b.Op, "outs": b.Outs, "n": b.N, "errs": b.Errs})
			}
			for _, f := range replayMulti(b) {
				c.Violation(f.Key, f.What, map[string]interface{}{"beh": b})
			}
			c.Add("traces_validated_against_impl", 1)
		}
		lk, _ := json.Marshal([]interface{}{b.Lop, b.Order})
		if !seenLock[string(lk)] {
			seenLock[string(lk)] = true
			c.Sample(map[string]interface{}{"lock_ops": b.Lop, "enter_order": b.Order})
			for _, f := range replayLock(b) {
				c.Violation(f.Key, f.What, map[string]interface{}{"beh": b})
			}
			c.Add("traces_validated_against_impl", 1)
		}
	}})
	c.Set("multi_outcome_vectors", int64(len(seenMulti)))
	c.Set("lock_schedules", int64(len(seenLock)))
	for _, f := range replayRelays() {
		c.Violation(f.Key, f.What, nil)
	}
	// writer contract table
	nw := 0
	c.MustTLC(TLCOpts{Module: "WriterContract", Cfg: "WriterContract.gen", OnBeh: func(raw json.RawMessage) {
		var b struct {
			W, Prior, P string
		}
		json.Unmarshal(raw, &b)
		nw++
		if nw%17 == 1 {
			c.Sample(map[string]string{"writer": b.W, "prior": b.Prior, "payload": b.P})
		}
		if f := replayWriter(b.W, b.Prior, b.P, c.Seed); f != nil {
			c.Violation(f.Key, f.What, map[string]string{"writer": b.W, "prior": b.Prior, "payload": b.P})
		}
		c.Add("traces_validated_against_impl", 1)
	}})
	c.Set("writer_cases", int64(nw))
	c13FirstWrites(c)
	c.Set("exhaustive", true)
}

func replayMulti(b sinksBeh) (finds []Finding) {
	add := func(key, f string, a ...interface{}) { finds = append(finds, Finding{Key: key, What: fmt.Sprintf(f, a...)}) }
	payload := []byte("hello")
	for _, variant := range []string{"NewMultiWriteSyncer", "CombineWriteSyncers", "nested-first", "nested-last"} {
		if strings.HasPrefix(variant, "nested") && len(b.Outs) < 3 {
			continue
		}
		sinks := []*scriptSink{}
		ws := []zapcore.WriteSyncer{}
		for k, o := range b.Outs {
			s := &scriptSink{out: o, err: fmt.Errorf("sink %d failed", k+1)}
			sinks = append(sinks, s)
			ws = append(ws, s)
		}
		var m zapcore.WriteSyncer
		if variant == "NewMultiWriteSyncer" {
			m = zapcore.NewMultiWriteSyncer(ws...)
		} else if variant == "nested-first" {
			// a multi-syncer among the arguments of another: every sink is still reached, once
			m = zapcore.NewMultiWriteSyncer(append([]zapcore.WriteSyncer{zapcore.NewMultiWriteSyncer(ws[0], ws[1])}, ws[2:]...)...)
		} else if variant == "nested-last" {
			m = zapcore.NewMultiWriteSyncer(ws[0], zapcore.NewMultiWriteSyncer(ws[1:]...))
		} else {
			m = zap.CombineWriteSyncers(ws...)
		}
		desc := fmt.Sprintf("%s(%v)", variant, b.Outs)
		var err error
		func() {
			defer func() {
				if r := recover(); r != nil {
					add("C13/panic", "%s panicked: %v", desc, r)
				}
			}()
			if b.Op == "W" {
				var n int
				n, err = m.Write(payload)
				wantN := b.N
				if len(b.Outs) == 0 {
					// count of a multi-syncer with zero sinks is not demanded
					wantN = n
				}
				if n != wantN {
					add("C13/multi-write:n-not-minimum", "%s.Write returned n=%d; the smallest count any sink reported is %d", desc, n, wantN)
				}
				for k, s := range sinks {
					if len(s.writes) != 1 || !bytes.Equal(s.writes[0], payload) {
						add("C13/multi-write:sink-skipped-or-different-bytes", "%s.Write: sink %d received %q, want exactly one write of %q regardless of other sinks' failures", desc, k+1, s.writes, payload)
					}
				}
			} else {
				err = m.Sync()
				for k, s := range sinks {
					if s.syncs != 1 {
						add("C13/multi-sync:sink-skipped", "%s.Sync: sink %d saw %d Sync calls, want 1", desc, k+1, s.syncs)
					}
				}
			}
		}()
		got := multierr.Errors(err)
		if len(got) != len(b.Errs) {
			add("C13/multi:error-dropped", "%s %s returned errors %v; sinks %v failed", desc, b.Op, got, b.Errs)
			continue
		}
		for k, idx := range b.Errs {
			if !errors.Is(got[k], sinks[idx-1].err) {
				add("C13/multi:error-dropped", "%s %s: error #%d is %v, want the error of sink %d", desc, b.Op, k, got[k], idx)
			}
		}
	}
	return finds
}

// gateSink parks callers inside Write/Sync and detects overlap.
type gateSink struct {
	inside  int32
	overlap int32
	arrived chan string
	release chan struct{}
}

func (g *gateSink) enter(what string) {
	if atomic.AddInt32(&g.inside, 1) > 1 {
		atomic.StoreInt32(&g.overlap, 1)
	}
	g.arrived <- what
	<-g.release
	atomic.AddInt32(&g.inside, -1)
}
func (g *gateSink) Write(p []byte) (int, error) { g.enter("W"); return len(p), nil }
func (g *gateSink) Sync() error                 { g.enter("Y"); return nil }

func replayLock(b sinksBeh) (finds []Finding) {
	add := func(key, f string, a ...interface{}) { finds = append(finds, Finding{Key: key, What: fmt.Sprintf(f, a...)}) }
	wrappers := map[string]func(zapcore.WriteSyncer) zapcore.WriteSyncer{
		"Lock":                 func(s zapcore.WriteSyncer) zapcore.WriteSyncer { return zapcore.Lock(s) },
		"Lock(Lock)":           func(s zapcore.WriteSyncer) zapcore.WriteSyncer { return zapcore.Lock(zapcore.Lock(s)) },
		"CombineWriteSyncers1": func(s zapcore.WriteSyncer) zapcore.WriteSyncer { return zap.CombineWriteSyncers(s) },
		"CombineWriteSyncers2": func(s zapcore.WriteSyncer) zapcore.WriteSyncer {
			return zap.CombineWriteSyncers(s, zapcore.AddSync(io.Discard))
		},
	}
	// a sink locked twice is still one sink: whichever of the two handles a caller holds, calls exclude each other
	wrappers["Lock(Lock), both handles in use"] = nil
	wrappers["CombineWriteSyncers(Lock), both handles in use"] = nil
	for name, wrap := range wrappers {
		gs := &gateSink{arrived: make(chan string, 8), release: make(chan struct{})}
		var ws, ws2 zapcore.WriteSyncer
		switch name {
		case "Lock(Lock), both handles in use":
			ws = zapcore.Lock(gs)
			ws2 = zapcore.Lock(ws)
		case "CombineWriteSyncers(Lock), both handles in use":
			ws = zapcore.Lock(gs)
			ws2 = zap.CombineWriteSyncers(ws)
		default:
			ws = wrap(gs)
			ws2 = ws
		}
		var wg sync.WaitGroup
		ncall := 0
		call := func(p string) {
			wg.Add(1)
			h := ws
			if ncall++; ncall%2 == 0 {
				h = ws2
			}
			go func() {
				defer wg.Done()
				if b.Lop[p] == "W" {
					h.Write([]byte("x"))
				} else {
					h.Sync()
				}
			}()
		}
		if len(b.Order) < 2 {
			continue
		}
		first, second := b.Order[0], b.Order[1]
		call(first)
		select {
		case <-gs.arrived:
		case <-time.After(2 * time.Second):
			add("C13/lock-deadlock", "%s: first call never reached the sink", name)
			continue
		}
		call(second) // must block on the mutex while the first is inside the sink
		select {
		case what := <-gs.arrived:
			add("C13/lock-overlap", "%s: %s by %s entered the wrapped syncer while %s by %s was still inside it (ops %v)", name, what, second, b.Lop[first], first, b.Lop)
			gs.release <- struct{}{}
			gs.release <- struct{}{}
			wg.Wait()
			continue
		case <-time.After(15 * time.Millisecond):
		}
		gs.release <- struct{}{}
		select {
		case <-gs.arrived:
		case <-time.After(2 * time.Second):
			add("C13/lock-deadlock", "%s: second call never reached the sink after the first left (mutex not released?)", name)
			continue
		}
		gs.release <- struct{}{}
		wg.Wait()
		if atomic.LoadInt32(&gs.overlap) != 0 {
			add("C13/lock-overlap", "%s: overlapping calls inside the wrapped syncer", name)
		}
	}
	return finds
}

func replayRelays() (finds []Finding) {
	add := func(key, f string, a ...interface{}) { finds = append(finds, Finding{Key: key, What: fmt.Sprintf(f, a...)}) }
	payload := []byte("hello")
	for _, n := range []int{0, 1, 5} {
		for _, e := range []bool{false, true} {
			o := sinkOutcome{N: n, Err: e}
			mk := func() *scriptSink { return &scriptSink{out: o, err: errors.New("inner failed")} }
			type tc struct {
				name string
				ws   zapcore.WriteSyncer
				in   *scriptSink
				sync bool // inner Sync must be reached
			}
			var cases []tc
			s1 := mk()
			cases = append(cases, tc{"AddSync(WriteSyncer)", zapcore.AddSync(s1), s1, true})
			s2 := mk()
			cases = append(cases, tc{"AddSync(io.Writer)", zapcore.AddSync(writerOnly{s2}), s2, false})
			s3 := mk()
			cases = append(cases, tc{"Lock", zapcore.Lock(s3), s3, true})
			s4 := mk()
			cases = append(cases, tc{"Lock(AddSync(WriteSyncer))", zapcore.Lock(zapcore.AddSync(s4)), s4, true})
			s5 := mk()
			cases = append(cases, tc{"NewMultiWriteSyncer(one)", zapcore.NewMultiWriteSyncer(s5), s5, true})
			for _, t := range cases {
				var gn int
				var gerr error
				if !within(2*time.Second, func() { gn, gerr = t.ws.Write(payload) }) {
					add("C13/lock-deadlock", "%s.Write did not return", t.name)
					continue
				}
				wantErr := error(nil)
				if e {
					wantErr = t.in.err
				}
				if gn != n || !errors.Is(gerr, wantErr) || (wantErr == nil && gerr != nil) {
					add("C13/relay-changed", "%s.Write relayed (%d, %v); the wrapped writer returned (%d, %v)", t.name, gn, gerr, n, wantErr)
				}
				if len(t.in.writes) != 1 || !bytes.Equal(t.in.writes[0], payload) {
					add("C13/relay-bytes", "%s.Write passed %q to the wrapped writer, want %q", t.name, t.in.writes, payload)
				}
				var serr error
				if !within(2*time.Second, func() { serr = t.ws.Sync() }) {
					add("C13/lock-deadlock", "%s.Sync did not return after a Write that returned (%d, err=%v): the wrapper still holds its mutex", t.name, n, e)
					continue
				}
				if t.sync {
					if t.in.syncs != 1 {
						add("C13/addsync-hides-sync", "%s.Sync reached the wrapped Sync %d times, want 1", t.name, t.in.syncs)
					}
					if e && !errors.Is(serr, t.in.err) || !e && serr != nil {
						add("C13/relay-changed", "%s.Sync returned %v; the wrapped Sync returned error=%v", t.name, serr, e)
					}
				} else if serr != nil {
					add("C13/addsync-noop-sync", "%s.Sync returned %v, want the added no-op Sync to return nil", t.name, serr)
				}
			}
		}
	}
	// no double wrapping
	base := zapcore.AddSync(io.Discard)
	l := zapcore.Lock(base)
	if zapcore.Lock(l) != l {
		add("C13/lock-double-wrap", "Lock(Lock(ws)) is not Lock(ws)")
	}
	return finds
}

// within runs f and reports whether it returned in time (f keeps running otherwise).
func within(d time.Duration, f func()) bool {
	done := make(chan struct{})
	go func() { defer close(done); f() }()
	select {
	case <-done:
		return true
	case <-time.After(d):
		return false
	}
}

// panicT behaves like a *testing.T whose test has completed.
type panicT struct{ stubT }

func (t *panicT) Logf(string, ...interface{})   { panic("Log in goroutine after Test has completed") }
func (t *panicT) Errorf(string, ...interface{}) { panic("Log in goroutine after Test has completed") }

type stubT struct {
	mu     sync.Mutex
	logs   []string
	failed bool
}

func (t *stubT) Logf(f string, a ...interface{}) {
	t.mu.Lock()
	t.logs = append(t.logs, fmt.Sprintf(f, a...))
	t.mu.Unlock()
}
func (t *stubT) Errorf(f string, a ...interface{}) { t.Logf(f, a...); t.failed = true }
func (t *stubT) Fail()                             { t.failed = true }
func (t *stubT) Failed() bool                      { return t.failed }
func (t *stubT) Name() string                      { return "stub" }
func (t *stubT) FailNow()                          { t.failed = true }

// c13ShortSink takes at most half of what it is given (at least one byte) and reports no error.
type c13ShortSink struct{}

func (c13ShortSink) Write(p []byte) (int, error) {
	if len(p) <= 1 {
		return len(p), nil
	}
	return len(p) / 2, nil
}

// c13FailSink takes a third and fails.
type c13FailSink struct{}

func (c13FailSink) Write(p []byte) (int, error) { return len(p) / 3, fmt.Errorf("write: no space left on device") }

func payloadOf(class string, seed int64) []byte {
	switch class {
	case "empty":
		return []byte{}
	case "spaces":
		return []byte("   \t  ")
	case "text":
		return []byte("hello world")
	case "text-nl":
		return []byte("hello world\n")
	case "text-nlnl":
		return []byte("hello world\n\n\n")
	case "nl":
		return []byte("\n")
	case "nlnl":
		return []byte("\n\n")
	case "lead-space-text-trail":
		return []byte("  \t hello \t \n ")
	case "multi-line":
		return []byte("a\nb\n\nc")
	case "crlf":
		return []byte("hello\r\n")
	case "tabs-nl":
		return []byte("\t\n")
	case "large":
		return bytes.Repeat([]byte("0123456789abcdef"), 65536)
	case "large-nl":
		return append(bytes.Repeat([]byte("0123456789abcde\n"), 65536), '\n')
	case "binary":
		b := make([]byte, 257)
		for i := range b {
			b[i] = byte(int64(i) * (seed*2 + 1))
		}
		return b
	}
	return nil
}

func replayWriter(kind, prior, class string, seed int64) (f *Finding) {
	p := payloadOf(class, seed)
	defer func() {
		if r := recover(); r != nil {
			f = &Finding{Key: "C13/panic", What: fmt.Sprintf("%s writer panicked on payload class %s: %v", kind, class, r)}
		}
	}()
	var w io.Writer
	core, _ := observer.New(zap.InfoLevel)
	logger := zap.New(core)
	switch kind {
	case "zapio":
		zw := &zapio.Writer{Log: logger, Level: zap.InfoLevel}
		defer zw.Close()
		w = zw
	case "zapio-disabled":
		zw := &zapio.Writer{Log: logger, Level: zap.DebugLevel}
		defer zw.Close()
		w = zw
	case "stdlog":
		w = zap.NewStdLog(logger).Writer()
	case "stdlog-at":
		l, err := zap.NewStdLogAt(logger, zap.WarnLevel)
		if err != nil {
			return &Finding{Key: "HARNESS/stdlog", What: err.Error()}
		}
		w = l.Writer()
	case "testing":
		w = zaptest.NewTestingWriter(&stubT{})
	case "testing-markfailed":
		w = zaptest.NewTestingWriter(&stubT{}).WithMarkFailed(true)
	case "testing-finished-t":
		// a test that has already finished: testing.T panics in Log. Whatever the writer does about that, it does
		// not report a short count without an error
		w = zaptest.NewTestingWriter(&panicT{})
	case "bws-over-short-sink", "bws-over-failing-sink":
		var sink zapcore.WriteSyncer = zapcore.AddSync(c13ShortSink{})
		if kind == "bws-over-failing-sink" {
			sink = zapcore.AddSync(c13FailSink{})
		}
		b := &zapcore.BufferedWriteSyncer{WS: sink, Size: 64}
		defer b.Stop()
		w = b
	case "bws", "bws-stopped":
		b := &zapcore.BufferedWriteSyncer{WS: zapcore.AddSync(io.Discard), Size: 64}
		if kind == "bws-stopped" {
			b.Write([]byte("x"))
			b.Stop()
		} else {
			defer b.Stop()
		}
		w = b
	default:
		return &Finding{Key: "HARNESS/writer-kind", What: kind}
	}
	if kind == "testing-finished-t" {
		var n int
		var err error
		panicked := func() (p2 bool) {
			defer func() { p2 = recover() != nil }()
			n, err = w.Write(p)
			return false
		}()
		if !panicked && n < len(p) && err == nil {
			return &Finding{Key: "C13/writer-count:testing", What: fmt.Sprintf("testing writer over a finished test (Logf panics) returned (%d, nil) for a %d-byte payload of class %s: a short count without an error", n, len(p), class)}
		}
		return nil
	}
	// what the writer accepted before the observed Write
	for _, pp := range map[string][]string{"nothing": nil, "fragment": {"partial line without its end"}, "fragments": {"first ", "second ", "third"}, "line": {"a complete line\n"}}[prior] {
		if n, err := w.Write([]byte(pp)); n != len(pp) || err != nil {
			return &Finding{Key: "C13/writer-count:" + strings.SplitN(kind, "-", 2)[0], What: fmt.Sprintf("%s writer returned (%d, %v) for the %d-byte payload %q", kind, n, err, len(pp), pp)}
		}
	}
	n, err := w.Write(p)
	if strings.HasPrefix(kind, "bws-over-") {
		// the sink misbehaves: an error is a legitimate answer, a short count without one never is
		if n < len(p) && err == nil {
			return &Finding{Key: "C13/writer-count:bws", What: fmt.Sprintf("%s (after %s) returned (%d, nil) for a %d-byte payload of class %s: a short count without an error", kind, prior, n, len(p), class)}
		}
		return nil
	}
	if n != len(p) || err != nil {
		return &Finding{Key: "C13/writer-count:" + strings.SplitN(kind, "-", 2)[0], What: fmt.Sprintf("%s writer (after %s) returned (%d, %v) for a %d-byte payload of class %s it accepted in full; io.Writer requires (%d, nil)", kind, prior, n, err, len(p), class, len(p))}
	}
	return nil
}

// c13FirstWrites: several goroutines make the very first writes of a fresh BufferedWriteSyncer at the same moment.
// Every write that was acknowledged with (len(p), nil) is in the sink once the syncer has been stopped.
func c13FirstWrites(c *Ctx) {
	rounds := c.Pick(400, 4000)
	for r := 0; r < rounds && !c.Saturated(); r++ {
		var mu sync.Mutex
		var got bytes.Buffer
		sink := zapcore.AddSync(writerFunc(func(p []byte) (int, error) { mu.Lock(); defer mu.Unlock(); return got.Write(p) }))
		b := &zapcore.BufferedWriteSyncer{WS: sink, Size: 4096, FlushInterval: time.Hour}
		const G = 6
		start := make(chan struct{})
		var wg sync.WaitGroup
		acked := make([]bool, G)
		var spin int32
		for g := 0; g < G; g++ {
			wg.Add(1)
			go func(g int) {
				defer wg.Done()
				<-start
				atomic.AddInt32(&spin, 1)
				for atomic.LoadInt32(&spin) < G {
				}
				p := []byte(fmt.Sprintf("<record-%d-of-round-%d>\n", g, r))
				n, err := b.Write(p)
				acked[g] = n == len(p) && err == nil
				if n < len(p) && err == nil {
					c.Violation("C13/writer-count:bws", fmt.Sprintf("concurrent first writes: Write returned (%d, nil) for %d bytes", n, len(p)), nil)
				}
			}(g)
		}
		close(start)
		wg.Wait()
		stopped := make(chan struct{})
		go func() { defer close(stopped); defer func() { recover() }(); b.Stop() }()
		select {
		case <-stopped:
		case <-time.After(5 * time.Second):
			c.Violation("C13/bws-first-writes", "Stop of a BufferedWriteSyncer first written to by several goroutines at once did not return", map[string]interface{}{"mode": "first-writes"})
			return
		}
		mu.Lock()
		data := got.String()
		mu.Unlock()
		for g := 0; g < G; g++ {
			if acked[g] && strings.Count(data, fmt.Sprintf("<record-%d-of-round-%d>\n", g, r)) != 1 {
				c.Violation("C13/writer-count:bws", fmt.Sprintf("%d goroutines make the first writes of a fresh BufferedWriteSyncer at the same moment; every Write reported (len(p), nil), yet after Stop the sink holds record %d %d times (sink: %q)", G, g, strings.Count(data, fmt.Sprintf("<record-%d-of-round-%d>\n", g, r)), data), map[string]interface{}{"mode": "first-writes", "round": r})
				return
			}
		}
		c.Add("traces_validated_against_impl", 1)
	}
}

type writerFunc func([]byte) (int, error)

func (f writerFunc) Write(p []byte) (int, error) { return f(p) }
