package main

import (
	"go.uber.org/zap/exp/zapslog"
	"log/slog"
	"encoding/json"
	"sync/atomic"
	"fmt"
	"strings"
	"sync"
	"time"

	"go.uber.org/zap"
	"go.uber.org/zap/zapcore"
)

// C10 — field and sink failures are contained and reported; the entry is never lost.
// Field part: the fault-carrying behaviours of JsonEnc.tla (failing leaves, marshalers that
// return errors at any depth) replayed on the real encoder. Sink part: SinkFaults.tla.

func init() { register("C10", checkC10) }

type sfBeh struct {
	SyncScript []string   `json:"syncScript"`
	Script  [][]string `json:"script"`
	Term    []bool     `json:"term"`
	Got     [][]int    `json:"got"`
	Reports []struct {
		Entry int   `json:"entry"`
		Cores []int `json:"cores"`
	} `json:"reports"`
}

func checkC10(c *Ctx) {
	c.Assume("field faults: reflection failures (chan, func, failing MarshalJSON), panicking Stringer / error values, nil-pointer receivers, object / array / inline marshalers returning errors at every position of every program of JsonEnc.tla inside the bound")
	c.Assume("sink faults: Write errors scripted per (entry, core) for tees of up to 3 cores; Sync errors swallowed on purpose above Error level and short writes with a nil error are not demanded")
	if c.Replay != "" {
		var rp struct {
			Key    string `json:"key"`
			Replay struct {
				Beh     json.RawMessage `json:"beh"`
				Seed    int64           `json:"seed"`
				Hostile bool            `json:"hostile"`
				Variant int             `json:"variant"`
			} `json:"replay"`
		}
		if err := readJSON(c.Replay, &rp); err != nil {
			c.Fatalf("replay file: %v", err)
		}
		if strings.HasPrefix(rp.Key, "C10/sink") {
			var b sfBeh
			json.Unmarshal(rp.Replay.Beh, &b)
			for _, f := range replaySinkFaults(b, rp.Replay.Variant) {
				c.Violation(f.Key, f.What, rp.Replay)
			}
			return
		}
		var b jeBeh
		json.Unmarshal(rp.Replay.Beh, &b)
		fs, _, err := replayJSON(b, rp.Replay.Seed, rp.Replay.Hostile)
		if err != nil {
			c.Fatalf("replay: %v", err)
		}
		for _, f := range fs {
			if f.Prop == "C10" {
				c.Violation(f.Key, f.What, rp.Replay)
			}
		}
		return
	}
	// field failures
	c.MustTLC(TLCOpts{Module: "JsonEnc", Cfg: "JsonEnc.check", Consts: map[string]string{"MaxCalls": fmt.Sprint(c.Pick(4, 5)), "CfgSet": `"two"`}})
	for _, m := range []map[string]string{{"ErrClose": `"skip"`}, {"ErrField": `"drop"`}, {"ObjNS": `"norestore"`}} {
		mm := map[string]string{"MaxCalls": "3"}
		for k, v := range m {
			mm[k] = v
		}
		c.MustTLC(TLCOpts{Module: "JsonEnc", Cfg: "JsonEnc.check", Consts: mm, ExpectViolation: true})
	}
	runJSONGenerators(c, "C10", jeGenerators(c, true), true)
	jeScenarios(c, "C10")
	// sink failures
	ne := fmt.Sprint(c.Pick(2, 3))
	c.MustTLC(TLCOpts{Module: "SinkFaults", Cfg: "SinkFaults.check", Consts: map[string]string{"NEntries": ne}})
	for _, m := range []map[string]string{{"Loop": `"break"`}, {"ReportRule": `"after-hook"`}, {"ReportRule": `"never"`}, {"SyncLoop": `"break"`}} {
		c.MustTLC(TLCOpts{Module: "SinkFaults", Cfg: "SinkFaults.check", Consts: m, ExpectViolation: true})
	}
	var mu sync.Mutex
	n := 0
	for _, nc := range []string{"1", "2", "3"} {
		c.MustTLC(TLCOpts{Module: "SinkFaults", Cfg: "SinkFaults.check", Gen: true, Consts: map[string]string{"NCores": nc, "NEntries": ne, "Emit": "TRUE"}, OnBeh: func(raw json.RawMessage) {
			var b sfBeh
			if err := json.Unmarshal(raw, &b); err != nil {
				c.Inconclusive("bad SinkFaults behaviour: %v", err)
				return
			}
			mu.Lock()
			n++
			k := n
			mu.Unlock()
			if k%257 == 1 {
				c.Sample(b)
			}
			for v := 0; v < sfVariants; v++ {
				if !c.Thorough() && (k+v)%2 == 1 {
					continue
				}
				for _, f := range replaySinkFaults(b, v) {
					c.Violation(f.Key, f.What, map[string]interface{}{"beh": b, "variant": v})
				}
				c.Add("traces_validated_against_impl", 1)
			}
		}})
	}
	c.Set("sink_fault_scripts", int64(n))
	// a buffering sink in front of a failing destination: a failure met by the periodic flush must not vanish
	runBwsFault(c, "C10")
	c.Set("exhaustive", true)
	c.Set("rule", "every fault-carrying behaviour of JsonEnc.tla inside the generator bounds; every (entry, core) failure script of SinkFaults.tla for 1-3 cores x "+ne+" entries, each through 11 compositions / front ends, followed by a Logger.Sync with scripted Sync failures; every history of BWSFault.tla (writes, Sync, flush ticks, Stop over a sink failing with error / partial / short writes / Sync errors) through a Logger over a BufferedWriteSyncer")
}

type sfSink struct {
	mu       sync.Mutex
	id       int
	w        *sfWorld
	accepted []string
	attempts int
	syncs    int
	finalSyncs int
}
type sfWorld struct {
	script     [][]string
	syncScript []string
	final      bool // the final Logger.Sync is in progress
	cur        int  // entry being logged (0-based)
}

func (s *sfSink) Write(p []byte) (int, error) {
	s.mu.Lock()
	defer s.mu.Unlock()
	s.attempts++
	if s.w.script[s.w.cur][s.id] == "err" {
		return 0, fmt.Errorf("sink-%d-broken", s.id)
	}
	s.accepted = append(s.accepted, string(p))
	return len(p), nil
}
func (s *sfSink) Sync() error {
	s.mu.Lock()
	defer s.mu.Unlock()
	s.syncs++
	if s.w.final {
		s.finalSyncs++
		if s.id < len(s.w.syncScript) && s.w.syncScript[s.id] == "err" {
			return fmt.Errorf("sync-%d-failed", s.id)
		}
	}
	return nil
}

// sfFailCore is a user core whose Write fails on request (a "core returns an error").
type sfFailCore struct {
	zapcore.LevelEnabler
	s *sfSink
}

func (c *sfFailCore) With([]zapcore.Field) zapcore.Core { return c }
func (c *sfFailCore) Check(e zapcore.Entry, ce *zapcore.CheckedEntry) *zapcore.CheckedEntry {
	return ce.AddCore(e, c)
}
func (c *sfFailCore) Write(e zapcore.Entry, _ []zapcore.Field) error {
	_, err := c.s.Write([]byte(`{"m":"` + e.Message + `"}` + "\n"))
	return err
}
func (c *sfFailCore) Sync() error { return nil }

const sfVariants = 13

// sfHangs counts logging calls that never returned; after a few, the Lock-wrapped variant is not replayed any more
// (every further hang would cost its watchdog time)
var sfHangs int32

func replaySinkFaults(b sfBeh, variant int) (finds []Finding) {
	if variant == 10 && atomic.LoadInt32(&sfHangs) >= 3 {
		return nil
	}
	add := func(key, f string, a ...interface{}) {
		if len(finds) < 4 {
			finds = append(finds, Finding{Key: key, What: fmt.Sprintf(f, a...)})
		}
	}
	nc := len(b.Script[0])
	w := &sfWorld{script: b.Script, syncScript: b.SyncScript}
	sinks := make([]*sfSink, nc)
	cores := make([]zapcore.Core, nc)
	enc := func() zapcore.Encoder {
		return zapcore.NewJSONEncoder(zapcore.EncoderConfig{MessageKey: "m", LevelKey: "l", EncodeLevel: zapcore.LowercaseLevelEncoder})
	}
	for i := range sinks {
		sinks[i] = &sfSink{id: i, w: w}
		switch {
		case variant == 5 && i == 0:
			cores[i] = &sfFailCore{zapcore.DebugLevel, sinks[i]}
		case variant == 10:
			// the way zap.Open / Config.Build wrap every sink
			cores[i] = zapcore.NewCore(enc(), zapcore.Lock(sinks[i]), zapcore.DebugLevel)
		default:
			cores[i] = zapcore.NewCore(enc(), sinks[i], zapcore.DebugLevel)
		}
	}
	var core zapcore.Core = zapcore.NewTee(cores...)
	names := []string{"tee", "hooked(tee)", "sampler(tee)", "tee.With", "lazy(tee)", "tee with a user core", "tee of hooked cores", "tee, sugared",
		"tee, logger with AddCaller", "tee, logger with AddStacktrace", "tee of Lock-wrapped sinks",
		"tee driven by the bare core protocol (Check(ent, nil) + Write, no error output)", "tee behind the slog handler (no error output)"}
	noErrOut := variant >= 11
	switch variant {
	case 1:
		core = zapcore.RegisterHooks(core, func(zapcore.Entry) error { return nil })
	case 2:
		core = zapcore.NewSamplerWithOptions(core, time.Hour, 1<<30, 0)
	case 3:
		core = core.With([]zapcore.Field{zap.Int("ctx", 1)})
	case 4:
		core = zapcore.NewLazyWith(core, []zapcore.Field{zap.Int("lz", 1)})
	case 6:
		for i := range cores {
			cores[i] = zapcore.RegisterHooks(cores[i], func(zapcore.Entry) error { return nil })
		}
		core = zapcore.NewTee(cores...)
	}
	errOut := &sfErrOut{}
	lopts := []zap.Option{zap.ErrorOutput(errOut), zap.WithFatalHook(zapcore.WriteThenPanic)}
	switch variant {
	case 8:
		lopts = append(lopts, zap.AddCaller())
	case 9:
		lopts = append(lopts, zap.AddStacktrace(zapcore.InfoLevel), zap.AddCaller())
	}
	lg := zap.New(core, lopts...)
	desc := fmt.Sprintf("%s, script %v, terminal %v", names[variant], b.Script, b.Term)
	for e := range b.Script {
		w.cur = e
		msg := fmt.Sprintf("entry-%d", e+1)
		before := errOut.count()
		returned := false
		var rec interface{}
		finished := make(chan struct{})
		go func() {
			defer close(finished)
			defer func() { rec = recover() }()
			switch {
			case variant == 11:
				// a front end of the caller's own: the documented core protocol, nowhere to report to
				ent := zapcore.Entry{Level: zapcore.ErrorLevel, Message: msg, Time: time.Unix(0, 0)}
				if ce := core.Check(ent, nil); ce != nil {
					ce.Write(zap.Int("k", 1))
				}
			case variant == 12:
				slog.New(zapslog.NewHandler(core)).Error(msg, "k", 1)
			case b.Term[e] && e%2 == 0:
				lg.Panic(msg)
			case b.Term[e]:
				lg.Fatal(msg)
			case variant == 7:
				lg.Sugar().Infow(msg, "k", 1)
			case e%2 == 0:
				lg.Info(msg)
			default:
				if ce := lg.Check(zapcore.ErrorLevel, msg); ce != nil {
					ce.Write()
				}
			}
			returned = true
		}()
		select {
		case <-finished:
		case <-time.After(5 * time.Second):
			atomic.AddInt32(&sfHangs, 1)
			add("C10/sink:hang", "%s: entry %d: the logging call did not return within 5 s (a destination failed earlier)\n%s", desc, e+1, firstLines(stacks(), 40))
			return finds
		}
		if noErrOut {
			if rec != nil || !returned {
				add("C10/sink:panic", "%s: entry %d: the logging call did not return normally: %v", desc, e+1, rec)
			}
			continue
		}
		if b.Term[e] {
			if rec == nil {
				add("C10/sink:terminal-not-run", "%s: entry %d: the terminal action did not run", desc, e+1)
			}
		} else if rec != nil || !returned {
			add("C10/sink:panic", "%s: entry %d: the logging call did not return normally: %v", desc, e+1, rec)
		}
		failing := []int{}
		for ci := range b.Script[e] {
			if b.Script[e][ci] == "err" {
				failing = append(failing, ci)
			}
		}
		got := errOut.since(before)
		if len(failing) == 0 {
			if len(got) != 0 {
				add("C10/sink:spurious-report", "%s: entry %d: nothing failed but the error output received %q", desc, e+1, got)
			}
			continue
		}
		joined := strings.Join(got, "")
		if len(got) == 0 {
			add("C10/sink:not-reported", "%s: entry %d: cores %v failed but nothing was written to the error output", desc, e+1, failing)
			continue
		}
		for _, ci := range failing {
			if !strings.Contains(joined, fmt.Sprintf("sink-%d-broken", ci)) {
				add("C10/sink:not-reported", "%s: entry %d: the failure of core %d is missing from the error output %q", desc, e+1, ci, joined)
			}
		}
		if errOut.syncsSince(before) == 0 {
			add("C10/sink:report-not-synced", "%s: entry %d: the error output was not synced after the report", desc, e+1)
		}
	}
	// the final Logger.Sync reaches every core, whatever the earlier ones return
	if variant != 2 && len(b.SyncScript) == nc {
		w.final = true
		syncDone := make(chan error, 1)
		go func() { syncDone <- lg.Sync() }()
		select {
		case err := <-syncDone:
			anyErr := false
			for ci := range sinks {
				if b.SyncScript[ci] == "err" && !(variant == 5 && ci == 0) {
					anyErr = true
					if err == nil || !strings.Contains(err.Error(), fmt.Sprintf("sync-%d-failed", ci)) {
						add("C10/sink:sync-error-dropped", "%s: Logger.Sync returned %v; the Sync error of core %d is missing", desc, err, ci)
					}
				}
			}
			_ = anyErr
			for ci, s := range sinks {
				if variant == 5 && ci == 0 {
					continue
				}
				if s.finalSyncs == 0 {
					add("C10/sink:sync-skipped", "%s: Logger.Sync did not reach core %d (Sync outcomes %v)", desc, ci, b.SyncScript)
				}
			}
		case <-time.After(5 * time.Second):
			add("C10/sink:hang", "%s: Logger.Sync did not return within 5 s\n%s", desc, firstLines(stacks(), 40))
			return finds
		}
		w.final = false
	}
	// every healthy destination has every entry it did not fail, in order, as intact lines
	for ci, s := range sinks {
		want := []string{}
		for e := range b.Script {
			if b.Script[e][ci] == "ok" {
				want = append(want, fmt.Sprintf("entry-%d", e+1))
			}
		}
		if len(s.accepted) != len(want) {
			add("C10/sink:healthy-destination-missed-entry", "%s: core %d accepted %d lines %q, want entries %v", desc, ci, len(s.accepted), s.accepted, want)
			continue
		}
		for k := range want {
			if !strings.Contains(s.accepted[k], `"`+want[k]+`"`) || !strings.HasSuffix(s.accepted[k], "\n") {
				add("C10/sink:healthy-destination-missed-entry", "%s: core %d line %d is %q, want %s", desc, ci, k, s.accepted[k], want[k])
			}
		}
		if s.attempts != len(b.Script) {
			add("C10/sink:destination-skipped", "%s: core %d was offered %d of %d entries", desc, ci, s.attempts, len(b.Script))
		}
	}
	// spec cross-check (harness guard): the spec's 'got' must be what we derived from the script
	for ci := range sinks {
		if ci < len(b.Got) {
			n := 0
			for e := range b.Script {
				if b.Script[e][ci] == "ok" {
					n++
				}
			}
			if n != len(b.Got[ci]) {
				add("HARNESS/C10-disagrees-with-spec", "core %d: spec predicts %v", ci, b.Got[ci])
			}
		}
	}
	return finds
}

type sfErrOut struct {
	mu    sync.Mutex
	lines []string
	syncs []int // number of lines present at each Sync
}

func (o *sfErrOut) Write(p []byte) (int, error) {
	o.mu.Lock()
	defer o.mu.Unlock()
	o.lines = append(o.lines, string(p))
	return len(p), nil
}
func (o *sfErrOut) Sync() error {
	o.mu.Lock()
	defer o.mu.Unlock()
	o.syncs = append(o.syncs, len(o.lines))
	return nil
}
func (o *sfErrOut) count() int { o.mu.Lock(); defer o.mu.Unlock(); return len(o.lines) }
func (o *sfErrOut) since(n int) []string {
	o.mu.Lock()
	defer o.mu.Unlock()
	return append([]string(nil), o.lines[n:]...)
}
func (o *sfErrOut) syncsSince(n int) int {
	o.mu.Lock()
	defer o.mu.Unlock()
	k := 0
	for _, s := range o.syncs {
		if s > n {
			k++
		}
	}
	return k
}
