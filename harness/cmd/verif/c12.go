package main

import (
	"encoding/json"
	"fmt"
	"math/rand"
	"os"
	"reflect"
	"strings"
	"time"

	"go.uber.org/zap/zapcore"
)

// C12 — BufferedWriteSyncer delivers every byte once, in order, in whole writes.
// Spec: BWS.tla (+ BWSTrace.tla).  See DESIGN.md §4 C12.

func init() {
	register("C12", checkC12)
	children["bws-crash"] = bwsCrashChild
}

type bwsAct struct {
	P string `json:"p"`
	A string `json:"a"`
	N int    `json:"n"`
}

type bwsBeh struct {
	H        []bwsAct          `json:"h"`
	Sink     []json.RawMessage `json:"sink"`
	Buffered int               `json:"buffered"`
	Ret      map[string]string `json:"ret"`
	Exited   bool              `json:"exited"`
}

const bwsStepTimeout = 3 * time.Second

var bwsClientIdx = map[string]int{"c": 1, "w1": 1, "w2": 2, "w3": 3, "y1": 4, "y2": 5, "s1": 6, "s2": 7, "m1": 8, "m2": 9}

func checkC12(c *Ctx) {
	c.Assume("abstract byte = 4 real bytes, real Size = 4 x spec Size: bufio's split rule is byte-exact so the scaled run is the same case")
	c.Assume("gate replay parks goroutines inside the verif hooks; lock acquisition order, the <-done wait and both select branches of the flush loop are controlled, the select's choice between two ready channels is not (such schedules are not generated)")
	if c.Replay != "" {
		var rp struct {
			Replay struct {
				Mode string `json:"mode"`
				Size int    `json:"size"`
				Beh  bwsBeh `json:"beh"`
			} `json:"replay"`
		}
		if err := readJSON(c.Replay, &rp); err != nil {
			c.Fatalf("replay file: %v", err)
		}
		var f []Finding
		if rp.Replay.Mode == "seq" {
			f = bwsReplaySeq(rp.Replay.Beh, rp.Replay.Size)
		} else {
			f, _ = bwsReplayGate(rp.Replay.Beh, rp.Replay.Size)
		}
		for _, x := range f {
			c.Violation(x.Key, x.What, rp.Replay)
		}
		return
	}

	only := os.Getenv("VERIF_ONLY") // debugging aid: run one stage
	stage := func(n string) bool { return only == "" || only == n }
	// ---- 1. exhaustive model checking of the design
	if !stage("tlc") {
	} else if c.Thorough() {
		c.MustTLC(TLCOpts{Module: "BWS", Cfg: "BWS.check", Timeout: 40 * time.Minute})
		c.MustTLC(TLCOpts{Module: "BWS", Cfg: "BWS.check", Timeout: 40 * time.Minute, Consts: map[string]string{
			"Writers": `{"w1"}`, "Stoppers": `{"s1", "s2"}`, "WLens": "{0, 1, 2, 4}", "MaxTicks": "2"}})
	} else {
		c.MustTLC(TLCOpts{Module: "BWS", Cfg: "BWS.check", Consts: map[string]string{"WLens": "{1, 4}", "MaxW": "1"}})
		c.MustTLC(TLCOpts{Module: "BWS", Cfg: "BWS.check", Consts: map[string]string{"Writers": `{"w1"}`, "Syncers": "{}", "Stoppers": "{}", "WLens": "{0, 1, 2, 3, 4}", "MaxW": "3", "MaxTicks": "2"}})
	}
	if stage("tlc") {
		c.MustTLC(TLCOpts{Module: "BWS", Cfg: "BWS.live"}) // Termination under weak fairness, two racing Stops
		// ---- 2. spec-level mutants: each invariant can fail
		small := map[string]string{"Writers": `{"w1"}`, "WLens": "{1, 4}"}
		mut := func(k, v string) map[string]string {
			m := map[string]string{k: v}
			for a, b := range small {
				m[a] = b
			}
			return m
		}
		c.MustTLC(TLCOpts{Module: "BWS", Cfg: "BWS.check", Consts: mut("PreFlushGuard", "FALSE"), ExpectViolation: true})
		c.MustTLC(TLCOpts{Module: "BWS", Cfg: "BWS.check", Consts: mut("SyncCallsWS", "FALSE"), ExpectViolation: true})
		c.MustTLC(TLCOpts{Module: "BWS", Cfg: "BWS.live", Consts: map[string]string{"StopWaitsUnderLock": "TRUE"}, ExpectViolation: true})
		c.MustTLC(TLCOpts{Module: "BWS", Cfg: "BWS.live", Consts: map[string]string{"StopOnce": "FALSE"}, ExpectViolation: true})
		// the stronger reading of "after Stop has completed" is violated by the design as it stands (known finding)
		c.MustTLC(TLCOpts{Module: "BWS", Cfg: "BWS.stopall", ExpectViolation: true})
	}

	zapcore.VerifHook = nil
	// ---- 3. sequential histories: every op sequence up to the bound, replayed on the real object
	nseq := 0
	seqOps := c.Pick(4, 5)
	if stage("seq") {
		c.MustTLC(TLCOpts{Module: "BWS", Cfg: "BWS.genseq", Consts: map[string]string{"MaxMixed": fmt.Sprint(seqOps)}, Timeout: 20 * time.Minute,
			OnBeh: func(raw json.RawMessage) {
				var b bwsBeh
				if err := json.Unmarshal(raw, &b); err != nil {
					c.Inconclusive("bad BWS behaviour: %v", err)
					return
				}
				if c.Saturated() {
					return
				}
				nseq++
				if nseq%997 == 1 {
					c.Sample(map[string]interface{}{"mode": "seq", "h": compactBwsH(b.H)})
				}
				for _, f := range bwsReplaySeq(b, 3) {
					if again := bwsReplaySeq(b, 3); len(again) > 0 {
						c.Violation(f.Key, f.What, map[string]interface{}{"mode": "seq", "size": 3, "beh": b})
					} else {
						c.Inconclusive("C12 seq replay not reproducible: %s", f.What)
					}
				}
				c.Add("traces_validated_against_impl", 1)
			}})
	}
	c.Set("sequential_histories_replayed", int64(nseq))

	// ---- 4. concurrent schedules from TLC, forced on the real code through the gates
	ngate, ndiverged := 0, 0
	gateGiveUp := false
	gateCb := func(raw json.RawMessage) {
		if gateGiveUp {
			return
		}
		if ndiverged >= 12 || (ndiverged >= 6 && ndiverged*2 > ngate) {
			// the code no longer passes the hook sites in the order the model has them: every further schedule would
			// only cost its timeouts. The stage ends inconclusive; the other stages still judge the code.
			gateGiveUp = true
			c.Inconclusive("gate replay given up after %d of %d schedules diverged: hooks missing or moved?", ndiverged, ngate)
			return
		}
		var b bwsBeh
		if err := json.Unmarshal(raw, &b); err != nil {
			c.Inconclusive("bad BWS behaviour: %v", err)
			return
		}
		if c.Saturated() {
			return
		}
		ngate++
		if ngate%499 == 1 {
			c.Sample(map[string]interface{}{"mode": "gate", "h": compactBwsH(b.H)})
		}
		f, diverged := bwsReplayGate(b, 3)
		if diverged != "" {
			// retry once from scratch before deciding what it is
			f, diverged = bwsReplayGate(b, 3)
		}
		if diverged != "" {
			ndiverged++
			if strings.HasPrefix(diverged, "DEADLOCK") {
				c.Violation("C12/deadlock", diverged, map[string]interface{}{"mode": "gate", "size": 3, "beh": b})
			} else {
				c.Note("gate replay diverged: %s", diverged)
			}
			return
		}
		for _, x := range f {
			if again, _ := bwsReplayGate(b, 3); len(again) > 0 {
				c.Violation(x.Key, x.What, map[string]interface{}{"mode": "gate", "size": 3, "beh": b})
			} else {
				c.Inconclusive("C12 gate replay not reproducible: %s", x.What)
			}
		}
		c.Add("traces_validated_against_impl", 1)
	}
	if stage("gate") {
		// exhaustive small configuration ...
		c.MustTLC(TLCOpts{Module: "BWS", Cfg: "BWS.genconc", OnBeh: gateCb, Timeout: 20 * time.Minute})
		// ... and seeded random schedules of a larger one
		c.MustTLC(TLCOpts{Module: "BWS", Cfg: "BWS.gensim", Simulate: fmt.Sprintf("num=%d", c.Pick(400, 6000)), Depth: 60, Seed: c.Seed, Workers: 1, OnBeh: gateCb, Timeout: 20 * time.Minute})
	}
	c.Set("gate_schedules_replayed", int64(ngate))
	c.Set("gate_schedules_diverged", int64(ndiverged))
	if ndiverged*10 > ngate {
		c.Inconclusive("too many gate replays diverged (%d of %d): hooks missing or moved?", ndiverged, ngate)
	}

	// ---- 5. free-running stress, recorded through the hooks, validated by TLC against BWSTrace
	if stage("stress") {
		bwsStress(c)
		bwsContention(c)
		bwsTickUnderContention(c)
	}

	// ---- 5b. the wrapped sink fails: prefix of the accepted stream, clean Sync/Stop acknowledge everything
	if stage("fault") {
		runBwsFault(c, "C12")
		bwsSinkExclusion(c)
	}

	// ---- 6. crash points: SIGKILL a child writing through BWS to a file
	if stage("crash") {
		bwsCrash(c)
	}
	zapcore.VerifHook = nil
}

func compactBwsH(h []bwsAct) []string {
	out := []string{}
	for _, a := range h {
		s := a.P + ":" + a.A
		if a.A == "WStart" {
			s += fmt.Sprintf("(%d)", a.N)
		}
		out = append(out, s)
	}
	return out
}

// ---------------------------------------------------------------- sequential replay

func bwsReplaySeq(b bwsBeh, size int) (finds []Finding) {
	zapcore.VerifHook = nil
	rig := newBwsRig(size)
	add := func(key, what string) { finds = append(finds, Finding{Key: key, What: what}) }
	defer func() {
		if r := recover(); r != nil {
			add("C12/panic", fmt.Sprintf("BufferedWriteSyncer panicked: %v", r))
		}
		go func() { defer func() { recover() }(); rig.bws.Stop() }()
	}()
	nw := 0
	stopped := false
	inited := false
	for i, a := range b.H {
		switch a.A {
		case "WStart":
			nw++
			p := bwsPayload(1, nw, a.N)
			n, err := rig.bws.Write(p)
			if n != len(p) || err != nil {
				add("C12/write-result", fmt.Sprintf("step %d: Write(len %d) returned (%d, %v)", i, len(p), n, err))
			}
			rig.accept(p)
			inited = true
		case "YStart":
			mark := rig.nAccepted()
			if err := rig.bws.Sync(); err != nil {
				add("C12/sync-error", fmt.Sprintf("step %d: Sync returned %v", i, err))
			}
			if !syncedThrough(rig.sink.snapshot(), rig.accepted, mark) {
				add("C12/sync-ack", fmt.Sprintf("step %d: Sync returned but the %d writes accepted before it are not all in the sink followed by a sink Sync; sink=%v", i, mark, abstractSink(rig.sink.snapshot())))
			}
		case "SStart":
			mark := rig.nAccepted()
			done := make(chan error, 1)
			go func() { done <- rig.bws.Stop() }()
			select {
			case err := <-done:
				if err != nil {
					add("C12/stop-error", fmt.Sprintf("step %d: Stop returned %v", i, err))
				}
			case <-time.After(bwsStepTimeout):
				add("C12/deadlock", fmt.Sprintf("step %d: Stop did not return within %v in a sequential history\n%s", i, bwsStepTimeout, zapStacks()))
				return
			}
			if inited && !stopped && !syncedThrough(rig.sink.snapshot(), rig.accepted, mark) {
				add("C12/stop-ack", fmt.Sprintf("step %d: Stop completed but the %d writes accepted before it are not all in a synced sink; sink=%v", i, mark, abstractSink(rig.sink.snapshot())))
			}
			if inited && rig.loopRunning() {
				// give the goroutine a moment: Stop waits for done, so it must already be gone
				time.Sleep(20 * time.Millisecond)
				if rig.loopRunning() {
					add("C12/leak", fmt.Sprintf("step %d: flush goroutine still running after Stop returned:\n%s", i, rig.loopStack()))
				}
			}
			if inited {
				stopped = true
			}
		case "Tick":
			mark := rig.nAccepted()
			before := rig.sink.syncs()
			select {
			case rig.clk.ch <- time.Now():
			default:
			}
			ok := false
			for dl := time.Now().Add(time.Second); time.Now().Before(dl); time.Sleep(50 * time.Microsecond) {
				if rig.sink.syncs() > before {
					ok = true
					break
				}
			}
			if !ok {
				add("C12/tick-ack", fmt.Sprintf("step %d: a flush tick was delivered but the sink was not synced within %v", i, bwsStepTimeout))
			} else {
				// LoopBody holds mu while syncing; a subsequent op serialises after it
				if !syncedThrough(rig.sink.snapshot(), rig.accepted, mark) {
					add("C12/tick-ack", fmt.Sprintf("step %d: tick processed but the %d writes accepted before it are not all in a synced sink; sink=%v", i, mark, abstractSink(rig.sink.snapshot())))
				}
			}
		default:
			continue
		}
		if k, w := rig.checkStream(rig.sink.snapshot(), rig.accepted, true); k != "" {
			add(k, fmt.Sprintf("after step %d (%s): %s", i, a.A, w))
			break
		}
	}
	return finds
}

func zapStacks() string {
	s := stacks()
	var keep []string
	for _, g := range strings.Split(s, "\n\n") {
		if strings.Contains(g, "go.uber.org/zap") {
			keep = append(keep, g)
		}
	}
	out := strings.Join(keep, "\n\n")
	if len(out) > 6000 {
		out = out[:6000]
	}
	return out
}

// ---------------------------------------------------------------- gate replay

// bwsReplayGate forces the interleaving of b.H on a real BufferedWriteSyncer.
// It returns the property violations observed and, when the real code could not follow the
// schedule, a description of the divergence (prefixed DEADLOCK when every involved goroutine is
// blocked inside zap although the model says the step is enabled).
func bwsReplayGate(b bwsBeh, size int) (finds []Finding, diverged string) {
	rig := newBwsRig(size)
	g := NewGate()
	g.unknown = func(site string) string {
		if strings.HasPrefix(site, "bws.l.") || strings.HasPrefix(site, "bws.y.") {
			return "loop"
		}
		return ""
	}
	zapcore.VerifHook = func(site string, obj interface{}, a, bb int64) {
		if obj != interface{}(rig.bws) {
			return
		}
		g.At(site, a, bb)
	}
	defer func() {
		g.Drain()
		done := make(chan struct{})
		go func() { defer func() { recover() }(); rig.bws.Stop(); close(done) }()
		select {
		case <-done:
		case <-time.After(bwsStepTimeout):
		}
		zapcore.VerifHook = nil
	}()
	add := func(key, what string) { finds = append(finds, Finding{Key: key, What: what}) }
	type call = bwsCall
	calls := map[string]*call{}
	ncalls := map[string]int{}
	nw := map[string]int{}
	inited := false
	fail := func(i int, a bwsAct, what string) string {
		st := zapStacks()
		kind := "DIVERGED"
		// a goroutine blocked inside zap itself (not parked at one of our gates) although the model
		// says the step is enabled => deadlock signal
		for _, gr := range strings.Split(st, "\n\n") {
			if strings.Contains(gr, "BufferedWriteSyncer") && !strings.Contains(gr, "main.(*Gate).At") &&
				(strings.Contains(gr, "sync.(*Mutex).Lock") || strings.Contains(gr, "[chan receive") || strings.Contains(gr, "[sync.Mutex.Lock") || strings.Contains(gr, "[semacquire")) {
				kind = "DEADLOCK"
			}
		}
		return fmt.Sprintf("%s at step %d (%s:%s): %s\nschedule=%v\n%s", kind, i, a.P, a.A, what, compactBwsH(b.H[:i+1]), st)
	}
	finishCall := func(i int, a bwsAct) string {
		p := a.P
		ncalls[p]++
		if !g.WaitDone(p, ncalls[p], bwsStepTimeout) {
			return fail(i, a, "call did not return after its last step")
		}
		cl := calls[p]
		if cl.panicked != nil {
			add("C12/panic", fmt.Sprintf("%s panicked: %v", cl.kind, cl.panicked))
			return ""
		}
		items := rig.sink.snapshot()
		rig.mu.Lock()
		acc := append([][]byte(nil), rig.accepted...)
		rig.mu.Unlock()
		switch cl.kind {
		case "W":
			if cl.n != len(cl.payload) || cl.err != nil {
				add("C12/write-result", fmt.Sprintf("Write(len %d) returned (%d, %v)", len(cl.payload), cl.n, cl.err))
			}
		case "Y":
			if !syncedThrough(items, acc, cl.mark) {
				add("C12/sync-ack", fmt.Sprintf("Sync by %s returned but the %d writes accepted before the call are not all in a synced sink; schedule=%v sink=%v", p, cl.mark, compactBwsH(b.H[:i+1]), abstractSink(items)))
			}
		case "S":
			// a Stop that found the syncer already stopped by a *completed* Stop is not held to flushing
			// writes accepted after that first Stop (weaker reading, DESIGN.md); one that overtakes a Stop
			// still in flight is (known finding).
			if cl.viaRet && !otherStopInFlight(calls, p) {
				break
			}
			if inited && !syncedThrough(items, acc, cl.mark) {
				key := "C12/stop-ack"
				if cl.viaRet {
					key = "C12/stop-ack:second-stop-overtakes-first"
				}
				add(key, fmt.Sprintf("Stop by %s completed but the %d writes accepted before the call are not all in a synced sink; schedule=%v sink=%v", p, cl.mark, compactBwsH(b.H[:i+1]), abstractSink(items)))
			}
		}
		delete(calls, p)
		return ""
	}
	for i, a := range b.H {
		p := a.P
		switch a.A {
		case "WStart", "YStart", "SStart":
			cl := &call{kind: a.A[:1], mark: rig.nAccepted()}
			calls[p] = cl
			switch cl.kind {
			case "W":
				nw[p]++
				cl.payload = bwsPayload(bwsClientIdx[p], nw[p], a.N)
				g.Go(p, func() {
					defer func() { cl.panicked = recover() }()
					cl.n, cl.err = rig.bws.Write(cl.payload)
				})
			case "Y":
				g.Go(p, func() {
					defer func() { cl.panicked = recover() }()
					cl.err = rig.bws.Sync()
				})
			case "S":
				g.Go(p, func() {
					defer func() { cl.panicked = recover() }()
					cl.err = rig.bws.Stop()
				})
			}
			want := map[string]string{"W": "bws.w.enter", "Y": "bws.y.enter", "S": "bws.s.enter"}[cl.kind]
			if s, _ := g.WaitParked(p, bwsStepTimeout, want); s != want {
				return finds, fail(i, a, fmt.Sprintf("call did not reach gate %s (at %q)", want, s))
			}
		case "Lock":
			cl := calls[p]
			if cl == nil {
				return finds, fail(i, a, "no call in flight")
			}
			want := map[string]string{"bws.w.enter": "bws.w.body", "bws.y.enter": "bws.y.body", "bws.s.enter": "bws.s.body"}[g.IsParked(p)]
			if want == "" {
				return finds, fail(i, a, fmt.Sprintf("goroutine is not waiting in front of the lock (at %q)", g.IsParked(p)))
			}
			g.Release(p)
			if s, _ := g.WaitParked(p, bwsStepTimeout, want); s != want {
				return finds, fail(i, a, fmt.Sprintf("the model says mu is free, but the goroutine did not get through the lock to gate %s (at %q)", want, s))
			}
			if cl.kind == "W" {
				// the linearization point of the write: it is accepted while mu is held
				rig.accept(cl.payload)
				inited = true
			}
		case "WBody", "YBody", "SSyncBody":
			g.Release(p)
			if d := finishCall(i, a); d != "" {
				return finds, d
			}
			if a.A == "SSyncBody" {
				if rig.loopRunning() {
					time.Sleep(10 * time.Millisecond)
					if rig.loopRunning() {
						add("C12/leak", "flush goroutine still running after Stop returned:\n"+rig.loopStack())
					}
				}
			}
		case "SBody":
			g.Release(p)
			s, _ := g.WaitParked(p, bwsStepTimeout, "bws.s.ret", "bws.s.wait")
			switch s {
			case "bws.s.ret":
				calls[p].viaRet = true
				g.Release(p)
				if d := finishCall(i, a); d != "" {
					return finds, d
				}
			case "bws.s.wait":
			default:
				return finds, fail(i, a, fmt.Sprintf("Stop did not leave its critical section (at %q)", s))
			}
		case "SWait":
			g.Release(p)
			if s, _ := g.WaitParked(p, bwsStepTimeout, "bws.s.woke"); s != "bws.s.woke" {
				return finds, fail(i, a, fmt.Sprintf("the model says done is closed, but Stop is still waiting (at %q)", s))
			}
			g.Release(p)
			if s, _ := g.WaitParked(p, bwsStepTimeout, "bws.y.enter"); s != "bws.y.enter" {
				return finds, fail(i, a, fmt.Sprintf("Stop did not start its final Sync (at %q)", s))
			}
		case "Tick":
			// the tick is materialised when the loop consumes it (LoopTick)
		case "LoopTick":
			select {
			case rig.clk.ch <- time.Now():
			default:
			}
			if s, _ := g.WaitParked("loop", bwsStepTimeout, "bws.l.tick"); s != "bws.l.tick" {
				return finds, fail(i, a, fmt.Sprintf("flush loop did not take the tick (at %q)", s))
			}
			g.Release("loop")
			if s, _ := g.WaitParked("loop", bwsStepTimeout, "bws.y.enter"); s != "bws.y.enter" {
				return finds, fail(i, a, fmt.Sprintf("flush loop did not call Sync after a tick (at %q)", s))
			}
		case "LoopLock":
			g.Release("loop")
			if s, _ := g.WaitParked("loop", bwsStepTimeout, "bws.y.body"); s != "bws.y.body" {
				return finds, fail(i, a, fmt.Sprintf("the model says mu is free, but the flush loop did not get the lock (at %q)", s))
			}
		case "LoopBody":
			g.Release("loop")
		case "LoopStop":
			if s, _ := g.WaitParked("loop", bwsStepTimeout, "bws.l.stop"); s != "bws.l.stop" {
				return finds, fail(i, a, fmt.Sprintf("flush loop did not see the stop signal (at %q)", s))
			}
			g.Release("loop")
		}
		// state predicates after every step, on the real sink
		rig.mu.Lock()
		acc := append([][]byte(nil), rig.accepted...)
		rig.mu.Unlock()
		// a write that holds mu may already have put its bytes into the sink before it is counted as accepted
		inflight := [][]byte{}
		for _, cl := range calls {
			if cl.kind == "W" {
				inflight = append(inflight, cl.payload)
			}
		}
		if k, w := rig.checkStream(rig.sink.snapshot(), acc, len(inflight) == 0); k != "" {
			add(k, fmt.Sprintf("after step %d (%s:%s): %s; schedule=%v", i, a.P, a.A, w, compactBwsH(b.H[:i+1])))
			return finds, ""
		}
	}
	// conformance: real sink vs the sink the model predicts for this schedule (drift only)
	want := []interface{}{}
	for _, raw := range b.Sink {
		var it struct {
			T string          `json:"t"`
			D [][]interface{} `json:"d"`
		}
		json.Unmarshal(raw, &it)
		if it.T == "s" {
			want = append(want, "s")
			continue
		}
		chunk := [][]int{}
		for _, t := range it.D {
			name, _ := t[0].(string)
			chunk = append(chunk, []int{bwsClientIdx[name], int(t[1].(float64)), int(t[2].(float64)), int(t[3].(float64))})
		}
		want = append(want, chunk)
	}
	got := abstractSink(rig.sink.snapshot())
	if !reflect.DeepEqual(normSink(got), normSink(want)) {
		bwsDrift++
		if bwsDriftSample == "" {
			bwsDriftSample = fmt.Sprintf("schedule=%v model=%v real=%v", compactBwsH(b.H), want, got)
		}
	}
	return finds, ""
}

var (
	bwsDrift       int
	bwsDriftSample string
)

func normSink(s []interface{}) string {
	b, _ := json.Marshal(s)
	return string(b)
}

type bwsCall struct {
	kind     string
	mark     int
	payload  []byte
	n        int
	err      error
	panicked interface{}
	viaRet   bool // Stop returned through the "not initialized / already stopped" path
}

func otherStopInFlight(calls map[string]*bwsCall, p string) bool {
	for q, cl := range calls {
		if q != p && cl.kind == "S" {
			return true
		}
	}
	return false
}

var _ = rand.New
