package main

import (
	"bufio"
	"bytes"
	"encoding/json"
	"fmt"
	"math/rand"
	"os"
	"os/exec"
	"path/filepath"
	"strconv"
	"strings"
	"sync"
	"syscall"
	"time"

	"go.uber.org/zap/zapcore"
)

type bwsTraceEv struct {
	Ev string `json:"ev"`
	P  string `json:"p"`
	Op string `json:"op"`
	N  int64  `json:"n"`
	B  int64  `json:"b"`
}

// bwsStressOne runs one free-running concurrent program on a real BufferedWriteSyncer with the
// hooks recording, evaluates the C12 predicates on what the sink saw, and returns the trace.
func bwsStressOne(rng *rand.Rand, nclients, nops int) (trace []bwsTraceEv, finds []Finding) {
	rig := newBwsRig(3)
	g := NewGate()
	g.free, g.record = true, true
	g.unknown = func(site string) string {
		if strings.HasPrefix(site, "bws.l.") || strings.HasPrefix(site, "bws.y.") {
			return "loop"
		}
		return ""
	}
	var pmu sync.Mutex
	curPayload := map[string][]byte{}
	rig.sink.onEv = func(kind string, n int) { g.Log("sink", kind, int64(n), 0) }
	zapcore.VerifHook = func(site string, obj interface{}, a, b int64) {
		if obj != interface{}(rig.bws) {
			return
		}
		if site == "bws.w.body" {
			// linearization point of the write (mu held)
			if p := g.ProcHere(); p != "" {
				pmu.Lock()
				rig.accept(curPayload[p])
				pmu.Unlock()
			}
		}
		g.At(site, a, b)
	}
	defer func() { zapcore.VerifHook = nil }()
	add := func(key, what string) { finds = append(finds, Finding{Key: key, What: what}) }
	type plan struct {
		op string
		n  int
	}
	progs := map[string][]plan{}
	names := []string{"m1", "m2", "m3", "m4"}[:nclients]
	for _, p := range names {
		for i := 0; i < nops; i++ {
			r := rng.Intn(100)
			switch {
			case r < 62:
				progs[p] = append(progs[p], plan{"W", []int{0, 1, 1, 2, 2, 3, 4, 5, 7}[rng.Intn(9)]})
			case r < 92:
				progs[p] = append(progs[p], plan{"Y", 0})
			default:
				progs[p] = append(progs[p], plan{"S", 0})
			}
		}
	}
	stopTicks := make(chan struct{})
	var tickWG sync.WaitGroup
	tickWG.Add(1)
	tickSeed := rng.Int63()
	go func() {
		defer tickWG.Done()
		r := rand.New(rand.NewSource(tickSeed))
		for {
			select {
			case <-stopTicks:
				return
			case <-time.After(time.Duration(r.Intn(300)) * time.Microsecond):
				select {
				case rig.clk.ch <- time.Now():
				default:
				}
			}
		}
	}()
	var mu sync.Mutex
	for _, p := range names {
		p := p
		ci := bwsClientIdx[p]
		g.Go(p, func() {
			defer func() {
				if r := recover(); r != nil {
					mu.Lock()
					add("C12/panic", fmt.Sprintf("panic in %s: %v", p, r))
					mu.Unlock()
				}
			}()
			nw := 0
			for _, pl := range progs[p] {
				switch pl.op {
				case "W":
					nw++
					pay := bwsPayload(ci+8, nw, pl.n)
					pmu.Lock()
					curPayload[p] = pay
					pmu.Unlock()
					g.Log(p, "start:W", int64(pl.n), 0)
					n, err := rig.bws.Write(pay)
					if n != len(pay) || err != nil {
						mu.Lock()
						add("C12/write-result", fmt.Sprintf("Write(len %d) returned (%d, %v)", len(pay), n, err))
						mu.Unlock()
					}
				case "Y":
					mark := rig.nAccepted()
					g.Log(p, "start:Y", 0, 0)
					rig.bws.Sync()
					rig.mu.Lock()
					acc := append([][]byte(nil), rig.accepted...)
					rig.mu.Unlock()
					if !syncedThrough(rig.sink.snapshot(), acc, mark) {
						mu.Lock()
						add("C12/sync-ack", fmt.Sprintf("free-running: Sync by %s returned but the %d writes accepted before the call are not all in a synced sink", p, mark))
						mu.Unlock()
					}
				case "S":
					g.Log(p, "start:S", 0, 0)
					rig.bws.Stop()
				}
				if rng.Intn(4) == 0 {
					time.Sleep(time.Duration(50) * time.Microsecond)
				}
			}
		})
	}
	ok := true
	for _, p := range names {
		if !g.WaitDone(p, 1, 10*time.Second) {
			ok = false
		}
	}
	close(stopTicks)
	if !ok {
		st := zapStacks()
		if strings.Contains(st, "BufferedWriteSyncer") {
			add("C12/deadlock", "free-running clients did not finish within 10s although the sink never blocks; goroutines blocked inside zap:\n"+st)
		} else {
			add("HARNESS/stress-timeout", "clients did not finish, but no goroutine is blocked inside BufferedWriteSyncer")
		}
		return nil, finds
	}
	tickWG.Wait()
	// final Stop to flush and to let the loop exit
	done := make(chan struct{})
	g.Go("m9", func() { g.Log("m9", "start:S", 0, 0); rig.bws.Stop(); close(done) })
	select {
	case <-done:
	case <-time.After(5 * time.Second):
		add("C12/deadlock", "final Stop did not return within 5s:\n"+zapStacks())
		return nil, finds
	}
	rig.mu.Lock()
	acc := append([][]byte(nil), rig.accepted...)
	rig.mu.Unlock()
	if k, w := rig.checkStream(rig.sink.snapshot(), acc, true); k != "" {
		add(k, "free-running stress: "+w)
	}
	// build the trace in spec vocabulary
	for _, e := range g.Events() {
		switch {
		case strings.HasPrefix(e.Site, "start:"):
			trace = append(trace, bwsTraceEv{Ev: "start", P: e.Proc, Op: e.Site[6:], N: e.A})
		case e.Site == "sink.w":
			trace = append(trace, bwsTraceEv{Ev: "sink.w", N: e.A / bwsUnit})
		case e.Site == "sink.s":
			trace = append(trace, bwsTraceEv{Ev: "sink.s"})
		case e.Site == "bws.w.body":
			trace = append(trace, bwsTraceEv{Ev: e.Site, P: e.Proc, N: e.A / bwsUnit, B: e.B / bwsUnit})
		case e.Site == "bws.y.body", e.Site == "bws.s.body", e.Site == "bws.s.woke", e.Site == "bws.l.tick", e.Site == "bws.l.stop":
			trace = append(trace, bwsTraceEv{Ev: e.Site, P: e.Proc})
		}
	}
	return trace, finds
}

func bwsStress(c *Ctx) {
	rng := rand.New(rand.NewSource(c.Seed*7919 + 11))
	ntr := c.Pick(40, 400)
	var all []bwsTraceEv
	starts := []int{}
	accepted := 0
	for t := 0; t < ntr; t++ {
		tr, finds := bwsStressOne(rng, 2+rng.Intn(3), 3+rng.Intn(6))
		for _, f := range finds {
			if strings.HasPrefix(f.Key, "HARNESS/") {
				c.Inconclusive("%s: %s", f.Key, f.What)
				continue
			}
			c.Violation(f.Key, f.What, map[string]interface{}{"mode": "stress", "trace": tr})
		}
		if tr == nil {
			continue
		}
		if t == 0 {
			c.Sample(map[string]interface{}{"mode": "recorded-trace", "events": tr})
		}
		starts = append(starts, len(all)+1)
		all = append(all, tr...)
		all = append(all, bwsTraceEv{Ev: "reset"})
		accepted++
	}
	if len(all) == 0 {
		return
	}
	var buf bytes.Buffer
	for _, e := range all {
		b, _ := json.Marshal(e)
		buf.Write(b)
		buf.WriteByte('\n')
	}
	os.WriteFile(filepath.Join(Root, "out", "last-bws-trace.ndjson"), buf.Bytes(), 0o644)
	r := c.MustTLCTrace(TLCOpts{Module: "BWSTrace", Cfg: "BWS.trace", Workers: 1, Files: map[string][]byte{"trace.ndjson": buf.Bytes()}, Timeout: 15 * time.Minute})
	c.Set("recorded_traces", int64(accepted))
	c.Set("recorded_trace_events", int64(len(all)))
	switch {
	case r.Status == "ok":
		c.Add("traces_validated_against_impl", int64(accepted))
		c.Set("recorded_traces_accepted_by_BWSTrace", int64(accepted))
	case strings.HasPrefix(r.Status, "invariant:"):
		c.Violation("C12/trace-"+r.Status, "an invariant of BWS.tla is violated on a trace recorded from the real code:\n"+r.Tail, map[string]interface{}{"mode": "stress"})
	default:
		// not a behaviour of the spec: conformance drift, not a verdict about the property
		at := ""
		for _, m := range r.Marks {
			if strings.HasPrefix(m, "@@REJECT") {
				at = m
			}
		}
		c.Note("DRIFT: recorded traces are not accepted by BWSTrace (%s %s): the code no longer follows BWS.tla step by step; the property predicates evaluated on the same runs decide the verdict", r.Status, at)
		fmt.Printf("DRIFT property=C12 recorded traces rejected by BWSTrace (%s %s)\n", r.Status, at)
		c.Set("recorded_traces_accepted_by_BWSTrace", int64(0))
	}
}

// ---------------------------------------------------------------- crash points

func bwsCrashLine(i int) []byte {
	n := 5 + (i*37)%90
	if i%11 == 0 {
		n = 300 // larger than the buffer
	}
	s := fmt.Sprintf("%08d:", i)
	for len(s) < n {
		s += string(rune('a' + (i+len(s))%26))
	}
	return []byte(s + "\n")
}

// child: writes lines through a real BufferedWriteSyncer to a file, reports acknowledged Syncs.
func bwsCrashChild(args []string) {
	f, err := os.OpenFile(args[0], os.O_CREATE|os.O_WRONLY|os.O_APPEND, 0o644)
	if err != nil {
		fmt.Println("ERR", err)
		os.Exit(3)
	}
	seed, _ := strconv.ParseInt(args[1], 10, 64)
	rng := rand.New(rand.NewSource(seed))
	ws := &zapcore.BufferedWriteSyncer{WS: f, Size: 128, FlushInterval: time.Millisecond}
	out := bufio.NewWriter(os.Stdout)
	deadline := time.Now().Add(3 * time.Second) // never outlive a dead parent
	for i := 0; time.Now().Before(deadline); i++ {
		ws.Write(bwsCrashLine(i))
		if rng.Intn(7) == 0 {
			if err := ws.Sync(); err == nil {
				fmt.Fprintf(out, "ACK %d\n", i)
				out.Flush()
			}
		}
		if rng.Intn(50) == 0 {
			time.Sleep(time.Millisecond)
		}
	}
}

func bwsCrash(c *Ctx) {
	runs := c.Pick(12, 200)
	rng := rand.New(rand.NewSource(c.Seed + 4242))
	dir, err := os.MkdirTemp(filepath.Join(Root, "out"), "crash-")
	if err != nil {
		c.Inconclusive("crash dir: %v", err)
		return
	}
	defer os.RemoveAll(dir)
	self, _ := os.Executable()
	okRuns := 0
	for r := 0; r < runs; r++ {
		file := filepath.Join(dir, fmt.Sprintf("f%d.log", r))
		cmd := exec.Command(self, "child", "bws-crash", file, fmt.Sprint(rng.Int63()))
		stdout, _ := cmd.StdoutPipe()
		if err := cmd.Start(); err != nil {
			c.Inconclusive("crash child: %v", err)
			return
		}
		lastAck := -1
		ackCh := make(chan int, 1024)
		go func() {
			sc := bufio.NewScanner(stdout)
			for sc.Scan() {
				var i int
				if _, err := fmt.Sscanf(sc.Text(), "ACK %d", &i); err == nil {
					ackCh <- i
				}
			}
			close(ackCh)
		}()
		time.Sleep(time.Duration(2+rng.Intn(40)) * time.Millisecond)
		cmd.Process.Signal(syscall.SIGKILL)
		for i := range ackCh {
			lastAck = i
		}
		cmd.Wait()
		data, err := os.ReadFile(file)
		if err != nil {
			continue // killed before the file existed
		}
		// the file must be line 0, line 1, ... complete lines only
		pos, i := 0, 0
		bad := ""
		for pos < len(data) {
			want := bwsCrashLine(i)
			if pos+len(want) > len(data) || !bytes.Equal(data[pos:pos+len(want)], want) {
				end := pos + 100
				if end > len(data) {
					end = len(data)
				}
				bad = fmt.Sprintf("file content at offset %d is not the complete line %d (file has %d bytes): after a kill the file must be a whole-write prefix of the stream; file has %q, line is %q", pos, i, len(data), data[pos:end], want)
				break
			}
			pos += len(want)
			i++
		}
		if bad != "" {
			c.Violation("C12/crash-prefix", bad, map[string]interface{}{"mode": "crash"})
		} else if i-1 < lastAck {
			c.Violation("C12/crash-ack", fmt.Sprintf("Sync acknowledged line %d before the kill but the file only holds lines 0..%d", lastAck, i-1), map[string]interface{}{"mode": "crash"})
		}
		okRuns++
		os.Remove(file)
	}
	c.Set("crash_runs", int64(okRuns))
	c.Add("traces_validated_against_impl", int64(okRuns))
}

// ---- heavy contention without any hook traffic: whole writes, no loss, per-writer order ----

type bwsChunkSink struct {
	mu     sync.Mutex
	chunks [][]byte
}

func (s *bwsChunkSink) Write(p []byte) (int, error) {
	s.mu.Lock()
	s.chunks = append(s.chunks, append([]byte(nil), p...))
	s.mu.Unlock()
	return len(p), nil
}
func (s *bwsChunkSink) Sync() error { return nil }

// bwsContention: many writers, records whose length does not divide the buffer size, tiny buffer: every sink
// write must consist of whole records, every record must arrive exactly once, each writer's in its order.
func bwsContention(c *Ctx) {
	runs := c.Pick(6, 60)
	for r := 0; r < runs && !c.Saturated(); r++ {
		sink := &bwsChunkSink{}
		b := &zapcore.BufferedWriteSyncer{WS: sink, Size: 64, FlushInterval: time.Hour}
		const W, N = 8, 1500
		var wg sync.WaitGroup
		for w := 0; w < W; w++ {
			wg.Add(1)
			go func(w int) {
				defer wg.Done()
				for i := 0; i < N; i++ {
					rec := fmt.Sprintf("<%d:%05d>", w, i) // 9 bytes + newline
					b.Write([]byte(rec + "\n"))
				}
			}(w)
		}
		wg.Wait()
		b.Stop()
		next := make([]int, W)
		bad := ""
		sink.mu.Lock()
		for ci, ch := range sink.chunks {
			if len(ch) == 0 || ch[0] != '<' || ch[len(ch)-1] != '\n' {
				bad = fmt.Sprintf("sink write #%d does not consist of whole caller writes: %q", ci, string(head(ch, 60)))
				break
			}
			for _, rec := range strings.Split(strings.TrimSuffix(string(ch), "\n"), "\n") {
				var w, i int
				if _, err := fmt.Sscanf(rec, "<%d:%05d>", &w, &i); err != nil || len(rec) != 9 || w < 0 || w >= W {
					bad = fmt.Sprintf("sink write #%d holds a torn record %q", ci, rec)
					break
				}
				if i != next[w] {
					bad = fmt.Sprintf("record %d of writer %d arrived where record %d was due (lost, duplicated or reordered)", i, w, next[w])
					break
				}
				next[w]++
			}
			if bad != "" {
				break
			}
		}
		sink.mu.Unlock()
		if bad == "" {
			for w := range next {
				if next[w] != N {
					bad = fmt.Sprintf("writer %d: %d of %d records reached the sink after Stop", w, next[w], N)
				}
			}
		}
		if bad != "" {
			key := "C12/whole-writes"
			if strings.Contains(bad, "arrived where") || strings.Contains(bad, "reached the sink") {
				key = "C12/no-loss-dup-order"
			}
			c.Violation(key, fmt.Sprintf("free-running, %d writers x %d ten-byte records, Size 64: %s", W, N, bad), map[string]interface{}{"mode": "contention"})
		}
		c.Add("traces_validated_against_impl", 1)
	}
	c.Set("contention_runs", int64(runs))
}

// ---- a tick that arrives while a writer holds the lock -----------------------------------------
// (BWS.tla: WLock(p), WBody(p) in progress inside the sink, Tick, LoopTick; LoopLock is enabled only after the writer
// released the lock; then LoopBody.)  After the writer finished and the system is quiet, everything accepted before
// the tick was processed must be in the sink and the sink must have been synced after it.

type bwsGateSink struct {
	mu      sync.Mutex
	data    []byte
	synced  int // length of data at the last Sync
	parkOn  int // park the n-th Write (1-based) until release is closed
	writes  int
	parked  chan struct{}
	release chan struct{}
}

func (s *bwsGateSink) Write(p []byte) (int, error) {
	s.mu.Lock()
	s.writes++
	park := s.writes == s.parkOn
	s.mu.Unlock()
	if park {
		close(s.parked)
		<-s.release
	}
	s.mu.Lock()
	s.data = append(s.data, p...)
	s.mu.Unlock()
	return len(p), nil
}
func (s *bwsGateSink) Sync() error {
	s.mu.Lock()
	s.synced = len(s.data)
	s.mu.Unlock()
	return nil
}

type bwsUnbufClock struct{ ch chan time.Time }

func (c bwsUnbufClock) Now() time.Time                       { return time.Unix(1700000000, 0) }
func (c bwsUnbufClock) NewTicker(time.Duration) *time.Ticker { return &time.Ticker{C: c.ch} }

func bwsTickUnderContention(c *Ctx) {
	for rep := 0; rep < c.Pick(3, 20); rep++ {
		sink := &bwsGateSink{parkOn: 1, parked: make(chan struct{}), release: make(chan struct{})}
		clk := bwsUnbufClock{make(chan time.Time)}
		b := &zapcore.BufferedWriteSyncer{WS: sink, Size: 16, FlushInterval: time.Hour, Clock: clk}
		b.Write([]byte("first-line\n")) // 11 bytes: buffered
		done := make(chan struct{})
		go func() {
			defer close(done)
			b.Write([]byte("second-line\n")) // does not fit: pre-flush of the first line parks inside the sink, lock held
		}()
		select {
		case <-sink.parked:
		case <-time.After(3 * time.Second):
			c.Note("tick-under-contention: the pre-flush never reached the sink")
			b.Stop()
			continue
		}
		// the tick is consumed by the flush loop while the writer still holds the lock
		select {
		case clk.ch <- time.Unix(1700000001, 0):
		case <-time.After(3 * time.Second):
			c.Note("tick-under-contention: the flush loop did not take the tick")
			close(sink.release)
			<-done
			b.Stop()
			continue
		}
		time.Sleep(2 * time.Millisecond)
		close(sink.release)
		<-done
		// quiet: no further tick, Sync or Stop. The processed tick must leave both lines in a synced sink.
		ok := false
		deadline := time.Now().Add(500 * time.Millisecond)
		for time.Now().Before(deadline) {
			sink.mu.Lock()
			ok = string(sink.data) == "first-line\nsecond-line\n" && sink.synced == len(sink.data)
			sink.mu.Unlock()
			if ok {
				break
			}
			time.Sleep(time.Millisecond)
		}
		if !ok {
			sink.mu.Lock()
			c.Violation("C12/tick-ack", fmt.Sprintf("a flush tick was taken while a Write held the lock; after that Write finished and the tick had been processed, the sink holds %q of which %d bytes are synced (everything accepted before the tick must be in a synced sink)", string(sink.data), sink.synced),
				map[string]interface{}{"mode": "tick-under-contention"})
			sink.mu.Unlock()
		}
		c.Add("traces_validated_against_impl", 1)
		b.Stop()
	}
}
