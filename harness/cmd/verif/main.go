// Command verif is the driver of the zap model-based verification machinery.
//
//	verif check <ID> <quick|thorough> [--replay file]
//	verif child <name> [args...]      (helper processes re-exec'ed by checks)
//
// Exit codes: 0 property held on everything explored, 1 violation (with a
// "VIOLATION property=<id> replay=<path>" line), 2 inconclusive (build / TLC /
// harness trouble; never a verdict about zap).
package main

import (
	"encoding/json"
	"io"
	"os/exec"
	"fmt"
	"os"
	"path/filepath"
	"sort"
	"strconv"
	"strings"
	"sync"
	"time"
)

// Root is /verif (the parent of harness/), found from the executable's cwd.
var Root = func() string {
	if r := os.Getenv("VERIF_ROOT"); r != "" {
		return r
	}
	return "/verif"
}()

type checkFn func(c *Ctx)

var registry = map[string]checkFn{}
var children = map[string]func(args []string){}

func register(id string, f checkFn) { registry[id] = f }

// Finding is a real-code outcome the property statement forbids.
type Finding struct {
	Key    string      `json:"key"`  // stable abstract behaviour class
	What   string      `json:"what"` // human description
	Replay interface{} `json:"replay,omitempty"`
}

// Ctx carries one check run.
type Ctx struct {
	ID      string
	Tier    string
	Seed    int64
	Replay  string
	start   time.Time
	mu      sync.Mutex
	finds   []Finding
	seenKey map[string]int
	knownKeys map[string]bool
	ev      Evidence
	notes   []string
	incon   []string
}

type Evidence struct {
	PropertyID  string                 `json:"property_id"`
	Tier        string                 `json:"tier"`
	Seed        int64                  `json:"seed"`
	Level       string                 `json:"level"`
	Coverage    map[string]interface{} `json:"coverage"`
	Assumptions []string               `json:"assumptions"`
	WallS       float64                `json:"wall_s"`
	Violations  int                    `json:"violations"`
}

func (c *Ctx) Thorough() bool { return c.Tier == "thorough" }

// Pick returns q in the quick tier and t in the thorough tier.
func (c *Ctx) Pick(q, t int) int {
	if c.Thorough() {
		return t
	}
	return q
}

// Violation records a property-forbidden outcome observed on the real code.
// At most a handful per key are kept.
func (c *Ctx) Violation(key, what string, replay interface{}) {
	if strings.HasPrefix(key, "HARNESS") {
		// the harness disagrees with itself or with the spec: never a verdict about zap
		c.Inconclusive("%s: %s", key, what)
		return
	}
	c.mu.Lock()
	defer c.mu.Unlock()
	c.seenKey[key]++
	if c.seenKey[key] > 3 {
		return
	}
	c.finds = append(c.finds, Finding{Key: key, What: what, Replay: replay})
}

// Saturated reports that enough violations were collected; generators skip further replays.
func (c *Ctx) Saturated() bool {
	c.mu.Lock()
	defer c.mu.Unlock()
	if c.knownKeys == nil {
		c.knownKeys = map[string]bool{}
		for _, k := range loadKnown() {
			if k.Property == c.ID && k.Status == "known" {
				c.knownKeys[k.Key] = true
			}
		}
	}
	n := 0
	for k, v := range c.seenKey {
		if c.knownKeys[k] {
			continue // a listed finding is reported once and must not stop the exploration of everything else
		}
		n += v
	}
	return n >= 40
}

func (c *Ctx) Note(format string, a ...interface{}) {
	c.mu.Lock()
	defer c.mu.Unlock()
	if len(c.notes) < 200 {
		c.notes = append(c.notes, fmt.Sprintf(format, a...))
	}
}

// Inconclusive marks the run as exit 2 unless a violation is found.
func (c *Ctx) Inconclusive(format string, a ...interface{}) {
	c.mu.Lock()
	defer c.mu.Unlock()
	c.incon = append(c.incon, fmt.Sprintf(format, a...))
}

// Add adds n to an integer coverage counter.
func (c *Ctx) Add(key string, n int64) {
	c.mu.Lock()
	defer c.mu.Unlock()
	cur, _ := c.ev.Coverage[key].(int64)
	c.ev.Coverage[key] = cur + n
}

func (c *Ctx) Set(key string, v interface{}) {
	c.mu.Lock()
	defer c.mu.Unlock()
	c.ev.Coverage[key] = v
}

// Sample stores up to max actual cases under coverage.samples.
func (c *Ctx) Sample(v interface{}) {
	c.mu.Lock()
	defer c.mu.Unlock()
	s, _ := c.ev.Coverage["samples"].([]interface{})
	if len(s) < 6 {
		c.ev.Coverage["samples"] = append(s, v)
	}
}

func (c *Ctx) Assume(s string) {
	c.mu.Lock()
	defer c.mu.Unlock()
	for _, a := range c.ev.Assumptions {
		if a == s {
			return
		}
	}
	c.ev.Assumptions = append(c.ev.Assumptions, s)
}

// AddTLC folds a TLC run into the evidence (states are distinct states).
func (c *Ctx) AddTLC(r *TLCResult) {
	if r == nil {
		return
	}
	c.Add("states", r.Distinct)
	c.Add("transitions", r.Generated)
	c.mu.Lock()
	runs, _ := c.ev.Coverage["tlc_runs"].([]interface{})
	c.ev.Coverage["tlc_runs"] = append(runs, map[string]interface{}{
		"module": r.Module, "cfg": r.Cfg, "generated": r.Generated, "distinct": r.Distinct,
		"depth": r.Depth, "behaviours": r.Behaviours, "wall_s": r.WallS, "status": r.Status,
		"mode": r.Mode,
	})
	c.mu.Unlock()
}

type knownFinding struct {
	Property string `json:"property"`
	Key      string `json:"key"`
	Status   string `json:"status"` // "known" | "fixed"
	Commit   string `json:"commit,omitempty"`
	What     string `json:"what"`
}

func loadKnown() []knownFinding {
	var k []knownFinding
	b, err := os.ReadFile(filepath.Join(Root, "known_findings.json"))
	if err != nil {
		return nil
	}
	if err := json.Unmarshal(b, &k); err != nil {
		fmt.Fprintln(os.Stderr, "known_findings.json:", err)
		os.Exit(2)
	}
	return k
}

func (c *Ctx) finish() int {
	known := map[string]knownFinding{}
	for _, k := range loadKnown() {
		if k.Property == c.ID && k.Status == "known" {
			known[k.Key] = k
		}
	}
	sort.SliceStable(c.finds, func(i, j int) bool { return c.finds[i].Key < c.finds[j].Key })
	nviol := 0
	printedKnown := map[string]bool{}
	vdir := filepath.Join(Root, "out", "violations", c.ID)
	for _, f := range c.finds {
		if k, ok := known[f.Key]; ok {
			if !printedKnown[f.Key] {
				fmt.Printf("KNOWN-FINDING: property=%s %s [%s] (seen %dx)\n", c.ID, k.What, f.Key, c.seenKey[f.Key])
				printedKnown[f.Key] = true
			}
			continue
		}
		nviol++
		os.MkdirAll(vdir, 0o755)
		p := filepath.Join(vdir, fmt.Sprintf("%s-%d-%d.json", c.Tier, c.Seed, nviol))
		b, _ := json.MarshalIndent(map[string]interface{}{
			"property": c.ID, "key": f.Key, "what": f.What, "seed": c.Seed, "tier": c.Tier, "replay": f.Replay,
		}, "", " ")
		os.WriteFile(p, b, 0o644)
		fmt.Printf("VIOLATION property=%s replay=%s\n  key=%s\n  %s\n", c.ID, p, f.Key, f.What)
	}
	c.ev.Violations = nviol
	c.ev.WallS = time.Since(c.start).Seconds()
	if len(c.notes) > 0 {
		c.ev.Coverage["notes"] = c.notes
	}
	kf := []string{}
	for k := range printedKnown {
		kf = append(kf, k)
	}
	sort.Strings(kf)
	c.ev.Coverage["known_findings_seen"] = kf
	if len(c.incon) > 0 {
		c.ev.Coverage["inconclusive"] = c.incon
	}
	// required model_checking keys
	for _, k := range []string{"states", "transitions", "traces_validated_against_impl"} {
		if _, ok := c.ev.Coverage[k]; !ok {
			c.ev.Coverage[k] = int64(0)
		}
	}
	if _, ok := c.ev.Coverage["samples"]; !ok {
		c.ev.Coverage["samples"] = []interface{}{}
	}
	if c.Replay == "" {
		evdir := filepath.Join(Root, "evidence")
		if d := os.Getenv("VERIF_EVIDENCE_DIR"); d != "" {
			evdir = d
		}
		os.MkdirAll(evdir, 0o755)
		b, _ := json.MarshalIndent(c.ev, "", " ")
		if err := os.WriteFile(filepath.Join(evdir, c.ID+".json"), append(b, '\n'), 0o644); err != nil {
			fmt.Fprintln(os.Stderr, "evidence:", err)
			return 2
		}
	}
	if nviol > 0 {
		return 1
	}
	if len(c.incon) > 0 {
		for _, s := range c.incon {
			fmt.Println("INCONCLUSIVE:", s)
		}
		return 2
	}
	st, _ := c.ev.Coverage["states"].(int64)
	tv, _ := c.ev.Coverage["traces_validated_against_impl"].(int64)
	fmt.Printf("OK property=%s tier=%s seed=%d states=%d impl_traces=%d wall=%.1fs\n", c.ID, c.Tier, c.Seed, st, tv, c.ev.WallS)
	return 0
}

func main() {
	if len(os.Args) < 2 {
		fmt.Fprintln(os.Stderr, "usage: verif check <ID> <tier> | verif child <name> ...")
		os.Exit(2)
	}
	switch os.Args[1] {
	case "child":
		f, ok := children[os.Args[2]]
		if !ok {
			fmt.Fprintln(os.Stderr, "no such child", os.Args[2])
			os.Exit(2)
		}
		f(os.Args[3:])
		return
	case "list":
		ids := []string{}
		for id := range registry {
			ids = append(ids, id)
		}
		sort.Strings(ids)
		fmt.Println(strings.Join(ids, " "))
		return
	case "check":
		// supervise: the check itself runs in a child process, so that a panic in one of zap's own goroutines
		// (which no recover in the harness can catch) is observed instead of killing the verdict
		if os.Getenv("VERIF_SUPERVISED") == "" && len(os.Args) > 2 {
			os.Exit(supervise())
		}
	default:
		fmt.Fprintln(os.Stderr, "unknown command", os.Args[1])
		os.Exit(2)
	}
	if len(os.Args) < 3 {
		os.Exit(2)
	}
	id := os.Args[2]
	tier := "quick"
	if t := os.Getenv("VERIF_TIER"); t == "quick" || t == "thorough" {
		tier = t
	}
	replay := ""
	for i := 3; i < len(os.Args); i++ {
		switch os.Args[i] {
		case "quick", "thorough":
			tier = os.Args[i]
		case "--replay":
			i++
			if i < len(os.Args) {
				replay = os.Args[i]
			}
		}
	}
	seed := int64(1)
	if s := os.Getenv("VERIF_SEED"); s != "" {
		if v, err := strconv.ParseInt(s, 10, 64); err == nil {
			seed = v
		}
	}
	f, ok := registry[id]
	if !ok {
		fmt.Fprintln(os.Stderr, "no check registered for", id)
		os.Exit(2)
	}
	c := &Ctx{ID: id, Tier: tier, Seed: seed, Replay: replay, start: time.Now(), seenKey: map[string]int{}}
	c.ev = Evidence{PropertyID: id, Tier: tier, Seed: seed, Level: "model_checking", Coverage: map[string]interface{}{}, Assumptions: []string{}}
	code := func() (code int) {
		defer func() {
			if r := recover(); r != nil {
				if _, isAbort := r.(abortRun); isAbort {
					code = c.finish()
					return
				}
				panic(r)
			}
		}()
		f(c)
		return c.finish()
	}()
	os.Exit(code)
}

type abortRun struct{}

// Fatalf aborts the check as inconclusive.
func (c *Ctx) Fatalf(format string, a ...interface{}) {
	c.Inconclusive(format, a...)
	panic(abortRun{})
}

// supervise runs the check in a child process. If the child is killed by a Go panic whose goroutine is one of
// zap's own (no harness frame above the zap frames), the same check is run once more; a second such crash is
// reported as a violation (panic in zap), anything else stays inconclusive.
func supervise() int {
	id := os.Args[2]
	run := func() (int, string) {
		exe, _ := os.Executable()
		cmd := exec.Command(exe, os.Args[1:]...)
		cmd.Env = append(os.Environ(), "VERIF_SUPERVISED=1")
		cmd.Stdin = os.Stdin
		cmd.Stdout = os.Stdout
		var tail ringBuf
		cmd.Stderr = io.MultiWriter(os.Stderr, &tail)
		err := cmd.Run()
		code := 0
		if ee, ok := err.(*exec.ExitError); ok {
			code = ee.ExitCode()
		} else if err != nil {
			code = 2
		}
		return code, tail.String()
	}
	code, errOut := run()
	if code == 0 || code == 1 {
		return code
	}
	crash := zapGoroutinePanic(errOut)
	if crash == "" {
		return code
	}
	fmt.Println("NOTE: the check process died in a panic of one of zap's own goroutines; running it once more")
	code2, errOut2 := run()
	if code2 == 0 || code2 == 1 {
		return code2
	}
	if crash2 := zapGoroutinePanic(errOut2); crash2 != "" {
		dir := filepath.Join(Root, "out", "violations", id)
		os.MkdirAll(dir, 0o755)
		p := filepath.Join(dir, "crash.json")
		b, _ := json.MarshalIndent(map[string]interface{}{"property": id, "key": id + "/crash-in-zap-goroutine", "what": crash2}, "", " ")
		os.WriteFile(p, b, 0o644)
		fmt.Printf("VIOLATION property=%s replay=%s\n  key=%s/crash-in-zap-goroutine\n  the process running the check was killed twice by a panic in a goroutine started by zap itself:\n%s\n", id, p, id, crash2)
		return 1
	}
	return code2
}

type ringBuf struct {
	mu sync.Mutex
	b  []byte
}

func (r *ringBuf) Write(p []byte) (int, error) {
	r.mu.Lock()
	r.b = append(r.b, p...)
	if len(r.b) > 1<<18 {
		r.b = r.b[len(r.b)-(1<<18):]
	}
	r.mu.Unlock()
	return len(p), nil
}
func (r *ringBuf) String() string { r.mu.Lock(); defer r.mu.Unlock(); return string(r.b) }

// zapGoroutinePanic extracts "panic: ..." + the panicking goroutine's stack when that stack consists of zap
// (and runtime) frames only; "" otherwise.
func zapGoroutinePanic(out string) string {
	i := strings.LastIndex(out, "\npanic: ")
	if i < 0 {
		if strings.HasPrefix(out, "panic: ") {
			i = 0
		} else {
			return ""
		}
	}
	rest := out[i:]
	j := strings.Index(rest, "\ngoroutine ")
	if j < 0 {
		return ""
	}
	stack := rest[j+1:]
	if k := strings.Index(stack, "\n\n"); k >= 0 {
		stack = stack[:k]
	}
	if !strings.Contains(stack, "go.uber.org/zap") || strings.Contains(stack, "main.") {
		return ""
	}
	if len(rest) > j+1+len(stack) {
		rest = rest[:j+1+len(stack)]
	}
	return strings.TrimSpace(rest)
}
