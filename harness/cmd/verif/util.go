package main

import (
	"encoding/json"
	"os"
	"path/filepath"
)

func readJSON(path string, v interface{}) error {
	b, err := os.ReadFile(path)
	if err != nil {
		return err
	}
	return json.Unmarshal(b, v)
}

func osMkdirTemp() (string, error)          { return os.MkdirTemp(filepath.Join(Root, "out"), "shared-") }
func osRemoveAll(d string)                   { os.RemoveAll(d) }
func osWriteFile(p string, b []byte)         { os.WriteFile(p, b, 0o644) }
func osReadFile(p string) ([]byte, error)    { return os.ReadFile(p) }
