package main

import (
	"encoding/json"
	"os"
)

func readJSON(path string, v interface{}) error {
	b, err := os.ReadFile(path)
	if err != nil {
		return err
	}
	return json.Unmarshal(b, v)
}
