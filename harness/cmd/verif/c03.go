package main

import (
	"encoding/json"
	"errors"
	"fmt"
	"go/ast"
	"go/parser"
	"go/token"
	"math"
	"math/rand"
	"os"
	"path/filepath"
	"reflect"
	"sort"
	"strings"
	"time"

	"go.uber.org/zap"
	"go.uber.org/zap/exp/zapfield"
	"go.uber.org/zap/zapcore"
)

// C03 — field constructors and zap.Any deliver exactly the value they were given.
// Spec: FieldUnion.tla (Pack / Unpack through the int64 slot with scaled widths, the time
// range split, nil handling, the Any priority table, Equals over payload classes).
// Every row of the spec's tables becomes implementation tests: each constructor is called with
// all boundary members of its value classes plus seeded random members, the field is sent to a
// recording encoder, Any is compared with the typed constructor, and Equals is exercised on
// fields built twice from equal inputs.

func init() { register("C03", checkC03) }

var fuMutants = []map[string]string{
	{"Trunc32": `"as16"`}, {"U64Path": `"signed"`}, {"TimeRange": `"wide"`}, {"AnyOrder": `"errorFirst"`}, {"EqualsImpl": `"prefix"`}, {"NilPtr": `"zero"`},
	{"ZoneKey": `"name"`}, {"SliceUse": `"compact"`},
}

type fuRows struct {
	Ints []struct {
		Ctor   string `json:"ctor"`
		Method string `json:"method"`
	} `json:"ints"`
	Ptrs     []string `json:"ptrs"`
	AnyTable []struct {
		Ifaces   []string `json:"ifaces"`
		Concrete string   `json:"concrete"`
		Ctor     string   `json:"ctor"`
	} `json:"anyTable"`
	Equals []struct {
		Type    string `json:"type"`
		Payload string `json:"payload"`
		Result  string `json:"result"`
	} `json:"equals"`
}

// ---- recording encoder -------------------------------------------------------

type recCall struct {
	M   string
	K   string
	V   interface{}
	Sub []recCall
	Err error
}
type recEnc struct {
	calls []recCall
	// reenter, when set, runs at the start of every AppendObject: a legitimate encoder may log or encode
	// something else while it holds the element it was handed
	reenter func()
}

func (r *recEnc) add(m, k string, v interface{}) { r.calls = append(r.calls, recCall{M: m, K: k, V: v}) }
func (r *recEnc) AddArray(k string, a zapcore.ArrayMarshaler) error {
	sub := &recEnc{reenter: r.reenter}
	err := a.MarshalLogArray(sub)
	r.calls = append(r.calls, recCall{M: "AddArray", K: k, Sub: sub.calls, Err: err})
	return err
}
func (r *recEnc) AddObject(k string, o zapcore.ObjectMarshaler) error {
	sub := &recEnc{}
	err := o.MarshalLogObject(sub)
	r.calls = append(r.calls, recCall{M: "AddObject", K: k, Sub: sub.calls, Err: err})
	return err
}
func (r *recEnc) AddBinary(k string, v []byte)          { r.add("AddBinary", k, v) }
func (r *recEnc) AddByteString(k string, v []byte)      { r.add("AddByteString", k, v) }
func (r *recEnc) AddBool(k string, v bool)              { r.add("AddBool", k, v) }
func (r *recEnc) AddComplex128(k string, v complex128)  { r.add("AddComplex128", k, v) }
func (r *recEnc) AddComplex64(k string, v complex64)    { r.add("AddComplex64", k, v) }
func (r *recEnc) AddDuration(k string, v time.Duration) { r.add("AddDuration", k, v) }
func (r *recEnc) AddFloat64(k string, v float64)        { r.add("AddFloat64", k, v) }
func (r *recEnc) AddFloat32(k string, v float32)        { r.add("AddFloat32", k, v) }
func (r *recEnc) AddInt(k string, v int)                { r.add("AddInt", k, v) }
func (r *recEnc) AddInt64(k string, v int64)            { r.add("AddInt64", k, v) }
func (r *recEnc) AddInt32(k string, v int32)            { r.add("AddInt32", k, v) }
func (r *recEnc) AddInt16(k string, v int16)            { r.add("AddInt16", k, v) }
func (r *recEnc) AddInt8(k string, v int8)              { r.add("AddInt8", k, v) }
func (r *recEnc) AddString(k, v string)                 { r.add("AddString", k, v) }
func (r *recEnc) AddTime(k string, v time.Time)         { r.add("AddTime", k, v) }
func (r *recEnc) AddUint(k string, v uint)              { r.add("AddUint", k, v) }
func (r *recEnc) AddUint64(k string, v uint64)          { r.add("AddUint64", k, v) }
func (r *recEnc) AddUint32(k string, v uint32)          { r.add("AddUint32", k, v) }
func (r *recEnc) AddUint16(k string, v uint16)          { r.add("AddUint16", k, v) }
func (r *recEnc) AddUint8(k string, v uint8)            { r.add("AddUint8", k, v) }
func (r *recEnc) AddUintptr(k string, v uintptr)        { r.add("AddUintptr", k, v) }
func (r *recEnc) AddReflected(k string, v interface{}) error {
	r.add("AddReflected", k, v)
	return nil
}
func (r *recEnc) OpenNamespace(k string) { r.add("OpenNamespace", k, nil) }

func (r *recEnc) AppendBool(v bool)              { r.add("AppendBool", "", v) }
func (r *recEnc) AppendByteString(v []byte)      { r.add("AppendByteString", "", v) }
func (r *recEnc) AppendComplex128(v complex128)  { r.add("AppendComplex128", "", v) }
func (r *recEnc) AppendComplex64(v complex64)    { r.add("AppendComplex64", "", v) }
func (r *recEnc) AppendFloat64(v float64)        { r.add("AppendFloat64", "", v) }
func (r *recEnc) AppendFloat32(v float32)        { r.add("AppendFloat32", "", v) }
func (r *recEnc) AppendInt(v int)                { r.add("AppendInt", "", v) }
func (r *recEnc) AppendInt64(v int64)            { r.add("AppendInt64", "", v) }
func (r *recEnc) AppendInt32(v int32)            { r.add("AppendInt32", "", v) }
func (r *recEnc) AppendInt16(v int16)            { r.add("AppendInt16", "", v) }
func (r *recEnc) AppendInt8(v int8)              { r.add("AppendInt8", "", v) }
func (r *recEnc) AppendString(v string)          { r.add("AppendString", "", v) }
func (r *recEnc) AppendUint(v uint)              { r.add("AppendUint", "", v) }
func (r *recEnc) AppendUint64(v uint64)          { r.add("AppendUint64", "", v) }
func (r *recEnc) AppendUint32(v uint32)          { r.add("AppendUint32", "", v) }
func (r *recEnc) AppendUint16(v uint16)          { r.add("AppendUint16", "", v) }
func (r *recEnc) AppendUint8(v uint8)            { r.add("AppendUint8", "", v) }
func (r *recEnc) AppendUintptr(v uintptr)        { r.add("AppendUintptr", "", v) }
func (r *recEnc) AppendDuration(v time.Duration) { r.add("AppendDuration", "", v) }
func (r *recEnc) AppendTime(v time.Time)         { r.add("AppendTime", "", v) }
func (r *recEnc) AppendArray(a zapcore.ArrayMarshaler) error {
	sub := &recEnc{}
	err := a.MarshalLogArray(sub)
	r.calls = append(r.calls, recCall{M: "AppendArray", Sub: sub.calls, Err: err})
	return err
}
func (r *recEnc) AppendObject(o zapcore.ObjectMarshaler) error {
	if r.reenter != nil {
		f := r.reenter
		r.reenter = nil
		f()
		r.reenter = f
	}
	sub := &recEnc{}
	err := o.MarshalLogObject(sub)
	r.calls = append(r.calls, recCall{M: "AppendObject", Sub: sub.calls, Err: err})
	return err
}
func (r *recEnc) AppendReflected(v interface{}) error { r.add("AppendReflected", "", v); return nil }

func record(f zap.Field) (calls []recCall, panicked interface{}) {
	defer func() { panicked = recover() }()
	e := &recEnc{}
	f.AddTo(e)
	return e.calls, nil
}

// exact equality of delivered values: bit-exact floats / complex, instant + location for times
func sameValue(a, b interface{}) bool {
	switch x := a.(type) {
	case float64:
		y, ok := b.(float64)
		return ok && math.Float64bits(x) == math.Float64bits(y)
	case float32:
		y, ok := b.(float32)
		return ok && math.Float32bits(x) == math.Float32bits(y)
	case complex128:
		y, ok := b.(complex128)
		return ok && math.Float64bits(real(x)) == math.Float64bits(real(y)) && math.Float64bits(imag(x)) == math.Float64bits(imag(y))
	case complex64:
		y, ok := b.(complex64)
		return ok && math.Float32bits(real(x)) == math.Float32bits(real(y)) && math.Float32bits(imag(x)) == math.Float32bits(imag(y))
	case time.Time:
		y, ok := b.(time.Time)
		if !ok || !x.Equal(y) {
			return false
		}
		_, xo := x.Zone()
		_, yo := y.Zone()
		return xo == yo && x.Location().String() == y.Location().String()
	case []byte:
		y, ok := b.([]byte)
		return ok && string(x) == string(y)
	}
	if reflect.TypeOf(a) != reflect.TypeOf(b) {
		return false
	}
	return reflect.DeepEqual(a, b)
}

type fuCtx struct {
	c       *Ctx
	rng     *rand.Rand
	n       int
	covered map[string]bool
}

func (x *fuCtx) bad(key, f string, a ...interface{}) {
	x.c.Violation(key, fmt.Sprintf(f, a...), map[string]interface{}{"what": fmt.Sprintf(f, a...)})
}

// equalsLaws: f1, f2 built from equal inputs.
func (x *fuCtx) equalsLaws(name string, f1, f2 zap.Field, nanKind string) {
	var r11, r12, r21 bool
	p := func(f func()) (pv interface{}) {
		defer func() { pv = recover() }()
		f()
		return nil
	}
	if pv := p(func() { r11 = f1.Equals(f1); r12 = f1.Equals(f2); r21 = f2.Equals(f1) }); pv != nil {
		x.bad("C03/equals-panics", "%s: Field.Equals panicked on fields built from equal inputs: %v", name, pv)
		return
	}
	if !r11 {
		key := "C03/equals-not-reflexive"
		if nanKind != "" {
			key += ":" + nanKind
		}
		x.bad(key, "%s: f.Equals(f) = false", name)
	}
	if r12 != r21 {
		x.bad("C03/equals-not-symmetric", "%s: a.Equals(b) = %v but b.Equals(a) = %v", name, r12, r21)
	}
	if !r12 && r11 {
		key := "C03/equals-false-on-equal-inputs"
		if nanKind != "" {
			key += ":" + nanKind
		}
		x.bad(key, "%s: two fields built from equal inputs compare unequal", name)
	}
}

// one scalar constructor: ctor(key, v) must deliver exactly one call `method(key, v)`; Any must agree.
func fuScalar[T any](x *fuCtx, name, method string, ctor func(string, T) zap.Field, vals []T, anyOK bool) {
	x.covered[name] = true
	for _, v := range vals {
		x.n++
		f := ctor("k", v)
		calls, pv := record(f)
		if pv != nil {
			x.bad("C03/panic", "%s(%v): AddTo panicked: %v", name, v, pv)
			continue
		}
		if len(calls) != 1 || calls[0].M != method || calls[0].K != "k" || !sameValue(calls[0].V, interface{}(v)) {
			x.bad("C03/delivered-value-differs:"+name, "%s(%#v) delivered %s, want exactly one %s(\"k\", %#v)", name, v, showCalls(calls), method, v)
		}
		nan := ""
		if isNaNish(interface{}(v)) {
			nan = "nan"
		}
		x.equalsLaws(fmt.Sprintf("%s(%#v)", name, v), f, ctor("k", v), nan)
		if anyOK {
			fa := zap.Any("k", v)
			ca, pa := record(fa)
			if pa != nil || fa.Type != f.Type || !sameCalls(ca, calls) {
				x.bad("C03/any-differs:"+name, "zap.Any(%T %#v) = type %v delivering %s; %s delivers %s", v, v, fa.Type, showCalls(ca), name, showCalls(calls))
			}
		}
	}
}

// pointer constructor: nil -> explicit null; non-nil -> same as the base constructor
func fuPtr[T any](x *fuCtx, name, method string, ctor func(string, *T) zap.Field, vals []T) {
	x.covered[name] = true
	x.n++
	f := ctor("k", nil)
	calls, pv := record(f)
	if pv != nil || len(calls) != 1 || calls[0].M != "AddReflected" || calls[0].V != nil {
		x.bad("C03/nil-pointer-not-null", "%s(nil) delivered %s (panic %v), want AddReflected(\"k\", nil)", name, showCalls(calls), pv)
	}
	fa := zap.Any("k", (*T)(nil))
	if ca, _ := record(fa); !sameCalls(ca, calls) {
		x.bad("C03/any-differs:"+name, "zap.Any((%T)(nil)) delivers %s, %s(nil) delivers %s", (*T)(nil), showCalls(ca), name, showCalls(calls))
	}
	for _, v := range vals {
		v := v
		x.n++
		f := ctor("k", &v)
		calls, pv := record(f)
		if pv != nil || len(calls) != 1 || calls[0].M != method || !sameValue(calls[0].V, interface{}(v)) {
			x.bad("C03/delivered-value-differs:"+name, "%s(&%#v) delivered %s, want %s(\"k\", %#v)", name, v, showCalls(calls), method, v)
		}
		fa := zap.Any("k", &v)
		if ca, _ := record(fa); !sameCalls(ca, calls) {
			x.bad("C03/any-differs:"+name, "zap.Any(&%#v) delivers %s, %s delivers %s", v, showCalls(ca), name, showCalls(calls))
		}
		nan := ""
		if isNaNish(interface{}(v)) {
			nan = "nan"
		}
		x.equalsLaws(fmt.Sprintf("%s(&%#v)", name, v), f, ctor("k", &v), nan)
	}
}

// slice constructor: one AddArray whose elements are the values in order by method elem
func fuSlice[T any](x *fuCtx, name, elem string, ctor func(string, []T) zap.Field, vals []T, anyOK bool) {
	x.covered[name] = true
	lists := [][]T{nil, {}, vals}
	if len(vals) > 1 {
		lists = append(lists, vals[:1])
	}
	for _, l := range lists {
		x.n++
		before := append([]T(nil), l...)
		f := ctor("k", l)
		calls, pv := record(f)
		for i := range l {
			if !sameValue(interface{}(before[i]), interface{}(l[i])) && !reflect.DeepEqual(before[i], l[i]) {
				x.bad("C03/caller-slice-modified:"+name, "%s changed element %d of the slice it was given from %#v to %#v", name, i, before[i], l[i])
				break
			}
		}
		if pv != nil || len(calls) != 1 || calls[0].M != "AddArray" || calls[0].K != "k" || len(calls[0].Sub) != len(l) {
			x.bad("C03/delivered-value-differs:"+name, "%s(%d elements) delivered %s (panic %v), want one array of %d elements", name, len(l), showCalls(calls), pv, len(l))
			continue
		}
		for i := range l {
			if calls[0].Sub[i].M != elem || !sameValue(calls[0].Sub[i].V, interface{}(l[i])) {
				x.bad("C03/delivered-value-differs:"+name, "%s element %d: delivered %s(%#v), want %s(%#v)", name, i, calls[0].Sub[i].M, calls[0].Sub[i].V, elem, l[i])
				break
			}
		}
		nan := ""
		for i := range l {
			if isNaNish(interface{}(l[i])) {
				nan = "nan"
			}
		}
		cp := append([]T(nil), l...)
		if l != nil && len(l) == 0 {
			cp = []T{}
		}
		x.equalsLaws(fmt.Sprintf("%s(%d elements)", name, len(l)), f, ctor("k", cp), nan)
		if anyOK {
			fa := zap.Any("k", l)
			if ca, pa := record(fa); pa != nil || !sameCalls(ca, calls) {
				x.bad("C03/any-differs:"+name, "zap.Any(%T) delivers %s, %s delivers %s", l, showCalls(ca), name, showCalls(calls))
			}
		}
	}
}

func isNaNish(v interface{}) bool {
	switch x := v.(type) {
	case float64:
		return math.IsNaN(x)
	case float32:
		return math.IsNaN(float64(x))
	case complex128:
		return math.IsNaN(real(x)) || math.IsNaN(imag(x))
	case complex64:
		return math.IsNaN(float64(real(x))) || math.IsNaN(float64(imag(x)))
	}
	return false
}

func sameCalls(a, b []recCall) bool {
	if len(a) != len(b) {
		return false
	}
	for i := range a {
		if a[i].M != b[i].M || a[i].K != b[i].K || !sameCalls(a[i].Sub, b[i].Sub) {
			return false
		}
		if a[i].V == nil || b[i].V == nil {
			if a[i].V != b[i].V {
				return false
			}
			continue
		}
		if !sameValue(a[i].V, b[i].V) {
			return false
		}
	}
	return true
}

func showCalls(cs []recCall) string {
	parts := []string{}
	for _, c := range cs {
		s := fmt.Sprintf("%s(%q, %#v)", c.M, c.K, c.V)
		if c.Sub != nil || c.M == "AddArray" || c.M == "AddObject" {
			s = fmt.Sprintf("%s(%q, [%s])", c.M, c.K, showCalls(c.Sub))
		}
		parts = append(parts, s)
	}
	if len(parts) > 6 {
		parts = append(parts[:6], "…")
	}
	return "[" + strings.Join(parts, " ") + "]"
}

// sourceConstructors parses the repository for exported functions returning Field.
func sourceConstructors() (map[string]bool, error) {
	root := os.Getenv("VERIF_REPO")
	if root == "" {
		root = "/repo"
	}
	out := map[string]bool{}
	for _, f := range []string{"field.go", "array.go", "error.go", "exp/zapfield/zapfield.go"} {
		fs := token.NewFileSet()
		af, err := parser.ParseFile(fs, filepath.Join(root, f), nil, 0)
		if err != nil {
			return nil, err
		}
		for _, d := range af.Decls {
			fd, ok := d.(*ast.FuncDecl)
			if !ok || fd.Recv != nil || !fd.Name.IsExported() || fd.Type.Results == nil || len(fd.Type.Results.List) != 1 {
				continue
			}
			rt := fd.Type.Results.List[0].Type
			name := ""
			switch t := rt.(type) {
			case *ast.Ident:
				name = t.Name
			case *ast.SelectorExpr:
				name = t.Sel.Name
			}
			if name == "Field" {
				n := fd.Name.Name
				if strings.HasPrefix(f, "exp/") {
					n = "zapfield." + n
				}
				out[n] = true
			}
		}
	}
	return out, nil
}

type fuStr string
type fuUncomparableStringer []string

func (s fuUncomparableStringer) String() string { return strings.Join(s, ",") }

type fuObj struct{ A int }

func (o fuObj) MarshalLogObject(e zapcore.ObjectEncoder) error { e.AddInt("a", o.A); return nil }

type fuObjErr struct{ A int }

func (o fuObjErr) MarshalLogObject(e zapcore.ObjectEncoder) error { e.AddInt("a", o.A); return nil }
func (o fuObjErr) Error() string                                 { return "obj-and-error" }

type fuArrStr []int

func (a fuArrStr) MarshalLogArray(e zapcore.ArrayEncoder) error {
	for _, v := range a {
		e.AppendInt(v)
	}
	return nil
}
func (a fuArrStr) String() string { return "arr-and-stringer" }

type fuPtrStr struct{ s string }

func (p *fuPtrStr) String() string { return "ptr:" + p.s } // panics on a nil receiver

type fuErrStr struct{ s string }

func (e fuErrStr) Error() string  { return e.s }
func (e fuErrStr) String() string { return "str:" + e.s }

type fuDurLike time.Duration // not time.Duration itself: falls to Stringer / reflection
func (d fuDurLike) String() string { return "durlike" }

// fuNilSafeErr: a nil *fuNilSafeErr is a usable error (its Error method does not touch the receiver)
type fuNilSafeErr struct{ code int }

func (e *fuNilSafeErr) Error() string { return "not found" }

type fuSecret string
type fuCount int

type fuObjPtr struct{ v int }

func (o *fuObjPtr) MarshalLogObject(e zapcore.ObjectEncoder) error { e.AddInt("v", o.v); return nil }

func checkC03(c *Ctx) {
	c.Assume("TLC decides the case analyses (slot extension / truncation on scaled widths, the time range split, nil handling, the Any priority table, Equals by payload class); 'every value of the parameter type' is met by all boundary members of each class plus seeded random members, not by enumeration")
	if c.Replay != "" {
		c.Note("C03 cases are deterministic for a seed: re-running the check with VERIF_SEED=%d reproduces them", c.Seed)
	}
	c.MustTLC(TLCOpts{Module: "FieldUnion", Cfg: "FieldUnion.check"})
	for _, m := range fuMutants {
		c.MustTLC(TLCOpts{Module: "FieldUnion", Cfg: "FieldUnion.check", Consts: m, ExpectViolation: true})
	}
	var rows fuRows
	got := false
	c.MustTLC(TLCOpts{Module: "FieldUnion", Cfg: "FieldUnion.check", Gen: true, Consts: map[string]string{"Emit": "TRUE"}, OnBeh: func(raw json.RawMessage) {
		if err := json.Unmarshal(raw, &rows); err == nil {
			got = true
		}
	}})
	if !got {
		c.Fatalf("FieldUnion.tla did not emit its tables")
	}
	x := &fuCtx{c: c, rng: rand.New(rand.NewSource(c.Seed)), covered: map[string]bool{}}
	for i, r := range rows.AnyTable {
		if i%17 == 0 {
			c.Sample(map[string]interface{}{"table": "Any", "implements": r.Ifaces, "concrete": r.Concrete, "documented_constructor": r.Ctor})
		}
	}
	for i, r := range rows.Ints {
		if i%6 == 0 {
			c.Sample(map[string]interface{}{"table": "slot", "constructor": r.Ctor, "encoder_method": r.Method})
		}
	}
	nr := c.Pick(200, 10000)
	rng := x.rng
	ri64 := func() []int64 {
		v := []int64{math.MinInt64, math.MinInt64 + 1, -1 << 32, -1<<31 - 1, -1 << 31, -1<<15 - 1, -1 << 15, -129, -128, -1, 0, 1, 127, 128, 1<<15 - 1, 1 << 15, 1<<31 - 1, 1 << 31, 1<<32 - 1, 1 << 32, 1 << 53, math.MaxInt64 - 1, math.MaxInt64}
		for i := 0; i < nr; i++ {
			v = append(v, int64(rng.Uint64()))
		}
		return v
	}
	ru64 := func() []uint64 {
		v := []uint64{0, 1, 1<<7 - 1, 1 << 7, 1<<8 - 1, 1 << 8, 1<<15 - 1, 1 << 15, 1<<16 - 1, 1 << 16, 1<<31 - 1, 1 << 31, 1<<32 - 1, 1 << 32, 1<<63 - 1, 1 << 63, math.MaxUint64 - 1, math.MaxUint64}
		for i := 0; i < nr; i++ {
			v = append(v, rng.Uint64())
		}
		return v
	}
	conv := func(fn interface{}, in interface{}) interface{} { return nil }
	_ = conv
	i64 := ri64()
	u64 := ru64()
	mapI := func(bits uint) []int64 {
		out := []int64{}
		for _, v := range i64 {
			out = append(out, v>>(64-bits))
		}
		return out
	}
	var i32 []int32
	var i16 []int16
	var i8 []int8
	var in []int
	for _, v := range mapI(32) {
		i32 = append(i32, int32(v))
	}
	for _, v := range append(mapI(16), math.MinInt16, math.MaxInt16, 0, -1) {
		i16 = append(i16, int16(v))
	}
	for _, v := range append(mapI(8), math.MinInt8, math.MaxInt8, 0, -1) {
		i8 = append(i8, int8(v))
	}
	i32 = append(i32, math.MinInt32, math.MaxInt32, 0, -1)
	for _, v := range i64 {
		in = append(in, int(v))
	}
	var u32 []uint32
	var u16 []uint16
	var u8 []uint8
	var un []uint
	var up []uintptr
	for _, v := range u64 {
		u32 = append(u32, uint32(v>>32), uint32(v))
		u16 = append(u16, uint16(v>>48), uint16(v))
		u8 = append(u8, uint8(v>>56), uint8(v))
		un = append(un, uint(v))
		up = append(up, uintptr(v))
	}
	u32 = append(u32, 0, math.MaxUint32, 1<<31, 1<<31-1)
	u16 = append(u16, 0, math.MaxUint16, 1<<15)
	u8 = append(u8, 0, math.MaxUint8, 1<<7)
	f64 := []float64{0, math.Copysign(0, -1), 1, -1, 1.5, math.NaN(), math.Float64frombits(0x7ff8000000000001), math.Float64frombits(0xfff0000000000001), math.Inf(1), math.Inf(-1), math.MaxFloat64, -math.MaxFloat64, math.SmallestNonzeroFloat64, 1e-320, 0.1, 1 << 53}
	for i := 0; i < nr; i++ {
		f64 = append(f64, math.Float64frombits(rng.Uint64()))
	}
	f32 := []float32{0, float32(math.Copysign(0, -1)), 1.5, float32(math.NaN()), math.Float32frombits(0x7fc00001), math.Float32frombits(0xff800001), float32(math.Inf(1)), float32(math.Inf(-1)), math.MaxFloat32, math.SmallestNonzeroFloat32, 0.1}
	for i := 0; i < nr; i++ {
		f32 = append(f32, math.Float32frombits(rng.Uint32()))
	}
	c128 := []complex128{0, complex(1, -2), complex(math.NaN(), 1), complex(1, math.NaN()), complex(math.Inf(1), math.Inf(-1)), complex(math.Copysign(0, -1), 0)}
	c64 := []complex64{0, complex(1, -2), complex(float32(math.NaN()), 1), complex(0.1, 0.1)}
	strs := []string{"", "a", "\x00\xff", strings.Repeat("long", 1000), "ключ", "line\nbreak"}
	durs := []time.Duration{math.MinInt64, -1, 0, 1, time.Second, math.MaxInt64}
	for i := 0; i < nr/4; i++ {
		durs = append(durs, time.Duration(rng.Uint64()))
	}
	ny, _ := time.LoadLocation("America/New_York")
	if ny == nil {
		ny = time.FixedZone("EST", -5*3600)
	}
	// zones are identified by their rules, not by their names: two unnamed zones (as time.Parse makes for numeric
	// offsets) and two different zones both called EST are in the list
	locs := []*time.Location{time.UTC, time.Local, time.FixedZone("", 0), time.FixedZone("x", 14*3600), time.FixedZone("neg", -12*3600-1), ny,
		time.FixedZone("", 19800), time.FixedZone("", 7200), time.FixedZone("EST", -5*3600), time.FixedZone("EST", 10*3600), time.FixedZone("x", -14*3600)}
	minT := time.Unix(0, math.MinInt64)
	maxT := time.Unix(0, math.MaxInt64)
	baseTimes := []time.Time{{}, time.Unix(0, 0), minT, maxT, minT.Add(-1), maxT.Add(1), minT.Add(1), maxT.Add(-1), time.Date(1, 1, 1, 0, 0, 0, 1, time.UTC), time.Date(9999, 12, 31, 23, 59, 59, 999999999, time.UTC), time.Date(-500, 1, 1, 0, 0, 0, 0, time.UTC), time.Date(2262, 4, 11, 23, 47, 16, 854775807, time.UTC), time.Date(2262, 4, 11, 23, 47, 16, 854775808, time.UTC), time.Now()}
	for i := 0; i < nr/4; i++ {
		baseTimes = append(baseTimes, time.Unix(0, int64(rng.Uint64())), time.Unix(rng.Int63n(1<<40)-1<<39, rng.Int63n(1e9)))
	}
	times := []time.Time{}
	for i, t := range baseTimes {
		times = append(times, t.In(locs[i%len(locs)]), t.UTC())
	}
	times = append(times, time.Time{}) // the zero time with the nil location

	fuScalar(x, "Int64", "AddInt64", zap.Int64, i64, true)
	fuScalar(x, "Int", "AddInt64", func(k string, v int) zap.Field { return zap.Int(k, v) }, nil, false)
	// zap.Int delivers through AddInt64 with int64(v)
	x.covered["Int"] = true
	for _, v := range in {
		f := zap.Int("k", v)
		calls, _ := record(f)
		if len(calls) != 1 || calls[0].M != "AddInt64" || calls[0].V != interface{}(int64(v)) {
			x.bad("C03/delivered-value-differs:Int", "Int(%d) delivered %s", v, showCalls(calls))
		}
		if fa := zap.Any("k", v); !fa.Equals(f) {
			x.bad("C03/any-differs:Int", "zap.Any(int %d) differs from zap.Int", v)
		}
		x.n++
	}
	fuScalar(x, "Int32", "AddInt32", zap.Int32, i32, true)
	fuScalar(x, "Int16", "AddInt16", zap.Int16, i16, true)
	fuScalar(x, "Int8", "AddInt8", zap.Int8, i8, true)
	fuScalar(x, "Uint64", "AddUint64", zap.Uint64, u64, true)
	x.covered["Uint"] = true
	for _, v := range un {
		f := zap.Uint("k", v)
		calls, _ := record(f)
		if len(calls) != 1 || calls[0].M != "AddUint64" || calls[0].V != interface{}(uint64(v)) {
			x.bad("C03/delivered-value-differs:Uint", "Uint(%d) delivered %s", v, showCalls(calls))
		}
		if fa := zap.Any("k", v); !fa.Equals(f) {
			x.bad("C03/any-differs:Uint", "zap.Any(uint %d) differs from zap.Uint", v)
		}
		x.n++
	}
	fuScalar(x, "Uint32", "AddUint32", zap.Uint32, u32, true)
	fuScalar(x, "Uint16", "AddUint16", zap.Uint16, u16, true)
	fuScalar(x, "Uint8", "AddUint8", zap.Uint8, u8, true)
	fuScalar(x, "Uintptr", "AddUintptr", zap.Uintptr, up, true)
	fuScalar(x, "Float64", "AddFloat64", zap.Float64, f64, true)
	fuScalar(x, "Float32", "AddFloat32", zap.Float32, f32, true)
	fuScalar(x, "Bool", "AddBool", zap.Bool, []bool{true, false}, true)
	fuScalar(x, "String", "AddString", zap.String, strs, true)
	fuScalar(x, "Complex128", "AddComplex128", zap.Complex128, c128, true)
	fuScalar(x, "Complex64", "AddComplex64", zap.Complex64, c64, true)
	fuScalar(x, "Duration", "AddDuration", zap.Duration, durs, true)
	fuScalar(x, "Time", "AddTime", zap.Time, times, true)
	fuScalar(x, "Binary", "AddBinary", zap.Binary, [][]byte{nil, {}, {0, 255}, []byte("text")}, true)
	fuScalar(x, "ByteString", "AddByteString", zap.ByteString, [][]byte{nil, {}, {0, 255}, []byte("text")}, false)
	// the typed key and value arrive converted to string
	x.covered["zapfield.Str"] = true
	for _, v := range []fuStr{"", "v", "\xff"} {
		if calls, _ := record(zapfield.Str(fuStr("k"), v)); len(calls) != 1 || calls[0].M != "AddString" || calls[0].K != "k" || calls[0].V != interface{}(string(v)) {
			x.bad("C03/delivered-value-differs:zapfield.Str", "zapfield.Str(%q) delivered %s", string(v), showCalls(calls))
		}
	}
	fuPtr(x, "Boolp", "AddBool", zap.Boolp, []bool{true, false})
	fuPtr(x, "Complex128p", "AddComplex128", zap.Complex128p, c128)
	fuPtr(x, "Complex64p", "AddComplex64", zap.Complex64p, c64)
	fuPtr(x, "Float64p", "AddFloat64", zap.Float64p, f64[:16])
	fuPtr(x, "Float32p", "AddFloat32", zap.Float32p, f32[:11])
	fuPtr(x, "Int64p", "AddInt64", zap.Int64p, i64[:23])
	fuPtr(x, "Int32p", "AddInt32", zap.Int32p, i32[:23])
	fuPtr(x, "Int16p", "AddInt16", zap.Int16p, i16[:23])
	fuPtr(x, "Int8p", "AddInt8", zap.Int8p, i8[:23])
	fuPtr(x, "Stringp", "AddString", zap.Stringp, strs)
	fuPtr(x, "Uint64p", "AddUint64", zap.Uint64p, u64[:18])
	fuPtr(x, "Uint32p", "AddUint32", zap.Uint32p, u32[:36])
	fuPtr(x, "Uint16p", "AddUint16", zap.Uint16p, u16[:36])
	fuPtr(x, "Uint8p", "AddUint8", zap.Uint8p, u8[:36])
	fuPtr(x, "Uintptrp", "AddUintptr", zap.Uintptrp, up[:18])
	fuPtr(x, "Timep", "AddTime", zap.Timep, times[:30])
	fuPtr(x, "Durationp", "AddDuration", zap.Durationp, durs[:6])
	for _, nm := range []string{"Intp", "Uintp"} {
		x.covered[nm] = true
	}
	for _, v := range in[:23] {
		v := v
		calls, _ := record(zap.Intp("k", &v))
		if len(calls) != 1 || calls[0].M != "AddInt64" || calls[0].V != interface{}(int64(v)) {
			x.bad("C03/delivered-value-differs:Intp", "Intp(&%d) delivered %s", v, showCalls(calls))
		}
	}
	for _, v := range un[:18] {
		v := v
		calls, _ := record(zap.Uintp("k", &v))
		if len(calls) != 1 || calls[0].M != "AddUint64" || calls[0].V != interface{}(uint64(v)) {
			x.bad("C03/delivered-value-differs:Uintp", "Uintp(&%d) delivered %s", v, showCalls(calls))
		}
	}
	if calls, _ := record(zap.Intp("k", nil)); len(calls) != 1 || calls[0].M != "AddReflected" || calls[0].V != nil {
		x.bad("C03/nil-pointer-not-null", "Intp(nil) delivered %s", showCalls(calls))
	}
	if calls, _ := record(zap.Uintp("k", nil)); len(calls) != 1 || calls[0].M != "AddReflected" || calls[0].V != nil {
		x.bad("C03/nil-pointer-not-null", "Uintp(nil) delivered %s", showCalls(calls))
	}
	// slices
	fuSlice(x, "Bools", "AppendBool", zap.Bools, []bool{true, false, true}, true)
	fuSlice(x, "ByteStrings", "AppendByteString", zap.ByteStrings, [][]byte{{1}, nil, []byte("x")}, false) // [][]byte is not among Any's supported types
	fuSlice(x, "Complex128s", "AppendComplex128", zap.Complex128s, c128, true)
	fuSlice(x, "Complex64s", "AppendComplex64", zap.Complex64s, c64, true)
	fuSlice(x, "Durations", "AppendDuration", zap.Durations, durs[:6], true)
	fuSlice(x, "Float64s", "AppendFloat64", zap.Float64s, f64[:16], true)
	fuSlice(x, "Float32s", "AppendFloat32", zap.Float32s, f32[:11], true)
	fuSlice(x, "Ints", "AppendInt", zap.Ints, in[:23], true)
	fuSlice(x, "Int64s", "AppendInt64", zap.Int64s, i64[:23], true)
	fuSlice(x, "Int32s", "AppendInt32", zap.Int32s, i32[:23], true)
	fuSlice(x, "Int16s", "AppendInt16", zap.Int16s, i16[:23], true)
	fuSlice(x, "Int8s", "AppendInt8", zap.Int8s, i8[:23], true)
	fuSlice(x, "Strings", "AppendString", zap.Strings, strs, true)
	fuSlice(x, "Times", "AppendTime", zap.Times, times, true)
	fuSlice(x, "Uints", "AppendUint", zap.Uints, un[:18], true)
	fuSlice(x, "Uint64s", "AppendUint64", zap.Uint64s, u64[:18], true)
	fuSlice(x, "Uint32s", "AppendUint32", zap.Uint32s, u32[:36], true)
	fuSlice(x, "Uint16s", "AppendUint16", zap.Uint16s, u16[:36], true)
	fuSlice(x, "Uint8s", "AppendUint8", zap.Uint8s, u8[:36], false) // Any([]byte) is Binary
	fuSlice(x, "Uintptrs", "AppendUintptr", zap.Uintptrs, up[:18], true)
	fuSlice(x, "zapfield.Strs", "AppendString", func(k string, v []fuStr) zap.Field { return zapfield.Strs(fuStr(k), v) }, nil, false)
	x.covered["zapfield.Strs"] = true
	if calls, _ := record(zapfield.Strs(fuStr("k"), []fuStr{"a", "\xff"})); len(calls) != 1 || len(calls[0].Sub) != 2 || calls[0].Sub[1].V != interface{}("\xff") {
		x.bad("C03/delivered-value-differs:zapfield.Strs", "Strs delivered %s", showCalls(calls))
	}
	// structured constructors
	fuStructured(x)
	// the Any priority table from the spec
	fuAnyTable(x, rows)
	// Equals by payload class from the spec
	fuEqualsTable(x, rows)
	// self-audit: every constructor in the source has tests here
	src, err := sourceConstructors()
	if err != nil {
		c.Inconclusive("cannot parse the repository's constructors: %v", err)
	} else {
		missing := []string{}
		for n := range src {
			if !x.covered[n] {
				missing = append(missing, n)
			}
		}
		sort.Strings(missing)
		if len(missing) > 0 {
			c.Inconclusive("constructors in the source without a case in the harness (uncovered, not a verdict): %v", missing)
		}
		c.Set("constructors_in_source", int64(len(src)))
	}
	for _, r := range rows.Ints {
		if !x.covered[r.Ctor] {
			c.Inconclusive("spec row %s has no implementation test", r.Ctor)
		}
	}
	for _, p := range rows.Ptrs {
		if !x.covered[p] {
			c.Inconclusive("spec row %s has no implementation test", p)
		}
	}
	c.Add("traces_validated_against_impl", int64(x.n))
	c.Set("constructor_cases", int64(x.n))
	c.Set("exhaustive", false)
	c.Set("rule", "every constructor in field.go / array.go / error.go / exp/zapfield x all boundary members of its value classes + seeded random members; every row of the spec's Any and Equals tables")
}

func fuStructured(x *fuCtx) {
	mark := func(ns ...string) {
		for _, n := range ns {
			x.covered[n] = true
		}
	}
	mark("Skip", "Reflect", "Namespace", "Stringer", "Stack", "StackSkip", "Object", "Inline", "Dict", "Any", "Array", "Objects", "ObjectValues", "Stringers", "Errors", "Error", "NamedError")
	one := func(name string, f zap.Field, want []recCall) {
		x.n++
		calls, pv := record(f)
		if pv != nil {
			x.bad("C03/panic", "%s: AddTo panicked: %v", name, pv)
			return
		}
		if !sameCalls(calls, want) {
			x.bad("C03/delivered-value-differs:"+strings.SplitN(name, "(", 2)[0], "%s delivered %s, want %s", name, showCalls(calls), showCalls(want))
		}
	}
	one("Skip()", zap.Skip(), nil)
	one("Namespace", zap.Namespace("ns"), []recCall{{M: "OpenNamespace", K: "ns"}})
	one("Reflect(struct)", zap.Reflect("k", fuObjErr{1}), []recCall{{M: "AddReflected", K: "k", V: fuObjErr{1}}})
	one("Reflect(nil)", zap.Reflect("k", nil), []recCall{{M: "AddReflected", K: "k", V: nil}})
	one("Stringer", zap.Stringer("k", fuErrStr{"s"}), []recCall{{M: "AddString", K: "k", V: "str:s"}})
	one("Stringer(nil ptr)", zap.Stringer("k", (*jePtrStringer)(nil)), []recCall{{M: "AddString", K: "k", V: "<nil>"}})
	one("Error(nil)", zap.Error(nil), nil)
	one("NamedError(nil)", zap.NamedError("k", nil), nil)
	e := errors.New("boom")
	one("Error", zap.Error(e), []recCall{{M: "AddString", K: "error", V: "boom"}})
	one("NamedError", zap.NamedError("k", e), []recCall{{M: "AddString", K: "k", V: "boom"}})
	// a typed nil pointer whose Error method works on nil is an ordinary error value: its message is delivered
	one("NamedError(nil-safe typed nil)", zap.NamedError("k", (*fuNilSafeErr)(nil)), []recCall{{M: "AddString", K: "k", V: "not found"}})
	one("Any(nil-safe typed nil error)", zap.Any("k", (*fuNilSafeErr)(nil)), []recCall{{M: "AddString", K: "k", V: "not found"}})
	one("Errors(nil-safe typed nil)", zap.Errors("k", []error{(*fuNilSafeErr)(nil)}), []recCall{{M: "AddArray", K: "k", Sub: []recCall{{M: "AppendObject", Sub: []recCall{{M: "AddString", K: "error", V: "not found"}}}}}})
	// types without a typed constructor fall back to reflection, with their dynamic type intact
	for _, v := range []interface{}{fuSecret("hunter2"), fuCount(7), map[int]string{1: "a"}, &struct{ P int }{1}, [][]byte{{1}}, [2]int{1, 2}, struct{ S fuSecret }{"x"}} {
		f := zap.Any("k", v)
		calls, _ := record(f)
		x.n++
		if f.Type != zapcore.ReflectType || len(calls) != 1 || calls[0].M != "AddReflected" || !reflect.DeepEqual(calls[0].V, v) || reflect.TypeOf(calls[0].V) != reflect.TypeOf(v) {
			x.bad("C03/any-differs:Reflect", "zap.Any(%T) has no typed constructor and must fall back to reflection with the value as given; got field type %v delivering %s", v, f.Type, showCalls(calls))
		}
	}
	one("Object", zap.Object("k", fuObj{7}), []recCall{{M: "AddObject", K: "k", Sub: []recCall{{M: "AddInt", K: "a", V: 7}}}})
	one("Inline", zap.Inline(fuObj{7}), []recCall{{M: "AddInt", K: "a", V: 7}})
	one("Dict", zap.Dict("k", zap.Int64("a", 1), zap.String("b", "x")), []recCall{{M: "AddObject", K: "k", Sub: []recCall{{M: "AddInt64", K: "a", V: int64(1)}, {M: "AddString", K: "b", V: "x"}}}})
	// a field list with no-op members ahead of real ones, given to Dict / Any and used again afterwards
	{
		mk := func() []zap.Field {
			return []zap.Field{zap.Skip(), zap.Error(nil), zap.String("user", "alice"), zap.Skip(), zap.Int64("attempt", 3), zap.NamedError("cause", nil), zap.Bool("last", true)}
		}
		want := []recCall{{M: "AddString", K: "user", V: "alice"}, {M: "AddInt64", K: "attempt", V: int64(3)}, {M: "AddBool", K: "last", V: true}}
		for name, ctor := range map[string]func([]zap.Field) zap.Field{
			"Dict":           func(fs []zap.Field) zap.Field { return zap.Dict("k", fs...) },
			"Any([]Field)":   func(fs []zap.Field) zap.Field { return zap.Any("k", fs) },
			"DictObject":     func(fs []zap.Field) zap.Field { return zap.Object("k", zap.DictObject(fs...)) },
		} {
			fs, pristine := mk(), mk()
			f := ctor(fs)
			calls, pv := record(f)
			if pv != nil || len(calls) != 1 || !sameCalls(calls[0].Sub, want) {
				x.bad("C03/delivered-value-differs:Dict", "%s of a list with no-op members delivered %s (panic %v)", name, showCalls(calls), pv)
			}
			for i := range fs {
				if !fs[i].Equals(pristine[i]) {
					x.bad("C03/caller-slice-modified:Dict", "%s rewrote the caller's field list: element %d is now %+v, it was %+v (the list is still the caller's and may be logged again)", name, i, fs[i], pristine[i])
					break
				}
			}
			// the same list logged directly afterwards delivers what it always did
			var again []recCall
			for _, ff := range fs {
				c2, _ := record(ff)
				again = append(again, c2...)
			}
			if !sameCalls(again, want) {
				x.bad("C03/caller-slice-modified:Dict", "after %s the caller's own list delivers %s, want %s", name, showCalls(again), showCalls(want))
			}
		}
	}
	one("Array", zap.Array("k", fuArrStr{1, 2}), []recCall{{M: "AddArray", K: "k", Sub: []recCall{{M: "AppendInt", V: 1}, {M: "AppendInt", V: 2}}}})
	one("Objects", zap.Objects("k", []fuObj{{1}, {2}}), []recCall{{M: "AddArray", K: "k", Sub: []recCall{{M: "AppendObject", Sub: []recCall{{M: "AddInt", K: "a", V: 1}}}, {M: "AppendObject", Sub: []recCall{{M: "AddInt", K: "a", V: 2}}}}}})
	one("ObjectValues", zap.ObjectValues("k", []fuObjPtr{{1}, {2}}), []recCall{{M: "AddArray", K: "k", Sub: []recCall{{M: "AppendObject", Sub: []recCall{{M: "AddInt", K: "v", V: 1}}}, {M: "AppendObject", Sub: []recCall{{M: "AddInt", K: "v", V: 2}}}}}})
	one("Stringers", zap.Stringers("k", []fuErrStr{{"a"}, {"b"}}), []recCall{{M: "AddArray", K: "k", Sub: []recCall{{M: "AppendString", V: "str:a"}, {M: "AppendString", V: "str:b"}}}})
	// nil elements (pointer and interface element types) at every position: rendered as <nil>, the others intact
	for pos := 0; pos < 4; pos++ {
		ptrs := []*fuPtrStr{{"a"}, {"b"}, {"c"}, {"d"}}
		ifs := []fmt.Stringer{fuErrStr{"a"}, fuErrStr{"b"}, fuErrStr{"c"}, fuErrStr{"d"}}
		wantP, wantI := []recCall{}, []recCall{}
		for i := range ptrs {
			if i == pos {
				ptrs[i], ifs[i] = nil, (*fuPtrStr)(nil)
				wantP = append(wantP, recCall{M: "AppendString", V: "<nil>"})
				wantI = append(wantI, recCall{M: "AppendString", V: "<nil>"})
			} else {
				wantP = append(wantP, recCall{M: "AppendString", V: "ptr:" + ptrs[i].s})
				wantI = append(wantI, recCall{M: "AppendString", V: "str:" + string(rune('a'+i))})
			}
		}
		one("Stringers", zap.Stringers("k", ptrs), []recCall{{M: "AddArray", K: "k", Sub: wantP}})
		one("Stringers", zap.Stringers("k", ifs), []recCall{{M: "AddArray", K: "k", Sub: wantI}})
	}
	one("Errors", zap.Errors("k", []error{e, nil, e}), []recCall{{M: "AddArray", K: "k", Sub: []recCall{{M: "AppendObject", Sub: []recCall{{M: "AddString", K: "error", V: "boom"}}}, {M: "AppendObject", Sub: []recCall{{M: "AddString", K: "error", V: "boom"}}}}}})
	// an encoder that encodes another error array while it is being handed the elements of the first one:
	// each array must still deliver its own errors (pooled element wrappers must not be shared)
	{
		ea, eb := errors.New("error-of-A"), errors.New("error-of-B")
		outer := &recEnc{}
		var inner []recCall
		outer.reenter = func() {
			e2 := &recEnc{}
			zap.Errors("b", []error{eb, eb}).AddTo(e2)
			inner = e2.calls
		}
		zap.Errors("a", []error{ea, ea, ea}).AddTo(outer)
		wantA := []recCall{{M: "AddArray", K: "a", Sub: []recCall{{M: "AppendObject", Sub: []recCall{{M: "AddString", K: "error", V: "error-of-A"}}}, {M: "AppendObject", Sub: []recCall{{M: "AddString", K: "error", V: "error-of-A"}}}, {M: "AppendObject", Sub: []recCall{{M: "AddString", K: "error", V: "error-of-A"}}}}}}
		wantB := []recCall{{M: "AddArray", K: "b", Sub: []recCall{{M: "AppendObject", Sub: []recCall{{M: "AddString", K: "error", V: "error-of-B"}}}, {M: "AppendObject", Sub: []recCall{{M: "AddString", K: "error", V: "error-of-B"}}}}}}
		x.n++
		if !sameCalls(outer.calls, wantA) || !sameCalls(inner, wantB) {
			x.bad("C03/delivered-value-differs:Errors", "two error arrays encoded in an overlapping fashion: the first delivered %s, the second %s", showCalls(outer.calls), showCalls(inner))
		}
	}
	// Stack: a string field naming the caller
	if f := zap.Stack("k"); f.Type != zapcore.StringType || !strings.Contains(f.String, "fuStructured") {
		x.bad("C03/delivered-value-differs:Stack", "Stack does not start at its caller: %q", f.String)
	}
	if f := func() zap.Field { return zap.StackSkip("k", 1) }(); f.Type != zapcore.StringType || !strings.HasPrefix(f.String, "main.fuStructured") {
		x.bad("C03/delivered-value-differs:StackSkip", "StackSkip(1) does not start at the caller's caller: %q", f.String)
	}
	// Equals on structured fields built twice from equal inputs
	x.equalsLaws("Object", zap.Object("k", fuObj{1}), zap.Object("k", fuObj{1}), "")
	x.equalsLaws("Dict", zap.Dict("k", zap.Int("a", 1)), zap.Dict("k", zap.Int("a", 1)), "")
	x.equalsLaws("Array", zap.Array("k", fuArrStr{1}), zap.Array("k", fuArrStr{1}), "")
	x.equalsLaws("Errors", zap.Errors("k", []error{e}), zap.Errors("k", []error{e}), "")
	x.equalsLaws("NamedError", zap.NamedError("k", e), zap.NamedError("k", e), "")
	x.equalsLaws("NamedError(separately built)", zap.NamedError("k", fuErrStr{"x"}), zap.NamedError("k", fuErrStr{"x"}), "")
	x.equalsLaws("Reflect(slice)", zap.Reflect("k", []int{1}), zap.Reflect("k", []int{1}), "")
	x.equalsLaws("Reflect(NaN)", zap.Reflect("k", math.NaN()), zap.Reflect("k", math.NaN()), "reflected-nan")
	x.equalsLaws("Namespace", zap.Namespace("k"), zap.Namespace("k"), "")
	x.equalsLaws("Skip", zap.Skip(), zap.Skip(), "")
}

func fuAnyTable(x *fuCtx, rows fuRows) {
	e := errors.New("e")
	for _, r := range rows.AnyTable {
		has := map[string]bool{}
		for _, i := range r.Ifaces {
			has[i] = true
		}
		var v interface{}
		switch {
		case r.Concrete == "Duration":
			v = time.Second // implements Stringer too; the concrete case wins unless a marshaler
			if has["obj"] || has["arr"] || has["err"] {
				continue
			}
		case r.Concrete == "Time":
			v = time.Unix(1, 0).UTC()
			if has["obj"] || has["arr"] || has["err"] {
				continue
			}
		case r.Concrete == "Binary":
			v = []byte("b")
			if len(r.Ifaces) != 0 {
				continue
			}
		case r.Concrete == "Errors":
			v = []error{e}
			if len(r.Ifaces) != 0 {
				continue
			}
		case has["obj"] && has["err"] && !has["arr"] && !has["str"]:
			v = fuObjErr{1}
		case has["obj"] && len(r.Ifaces) == 1:
			v = fuObj{1}
		case has["arr"] && has["str"] && len(r.Ifaces) == 2:
			v = fuArrStr{1}
		case has["err"] && has["str"] && len(r.Ifaces) == 2:
			v = fuErrStr{"x"}
		case has["err"] && len(r.Ifaces) == 1:
			v = e
		case has["str"] && len(r.Ifaces) == 1:
			v = fuDurLike(1)
		case len(r.Ifaces) == 0:
			v = struct{ A int }{1}
		default:
			continue // no harness type with exactly this interface set
		}
		x.n++
		fa := zap.Any("k", v)
		want := map[string]zapcore.FieldType{"Object": zapcore.ObjectMarshalerType, "Array": zapcore.ArrayMarshalerType, "NamedError": zapcore.ErrorType, "Stringer": zapcore.StringerType,
			"Reflect": zapcore.ReflectType, "Duration": zapcore.DurationType, "Time": zapcore.TimeType, "Binary": zapcore.BinaryType, "Errors": zapcore.ArrayMarshalerType}[r.Ctor]
		if fa.Type != want {
			x.bad("C03/any-differs:"+r.Ctor, "zap.Any(%T) (implements %v) chose field type %v, the documented choice is %s", v, r.Ifaces, fa.Type, r.Ctor)
		}
	}
}

func fuEqualsTable(x *fuCtx, rows fuRows) {
	for _, r := range rows.Equals {
		var mk func() zap.Field
		switch r.Type + "/" + r.Payload {
		case "Stringer/comparable":
			mk = func() zap.Field { return zap.Stringer("k", fuErrStr{"s"}) }
		case "Stringer/uncomparable":
			mk = func() zap.Field { return zap.Stringer("k", fuUncomparableStringer{"a", "b"}) }
		case "Stringer/pointer":
			p := &jePtrStringer{"p"}
			mk = func() zap.Field { return zap.Stringer("k", p) }
		case "Inline/comparable":
			mk = func() zap.Field { return zap.Inline(fuObj{1}) }
		case "Inline/uncomparable":
			mk = func() zap.Field { return zap.Inline(zap.DictObject(zap.Int("a", 1))) }
		case "Inline/pointer":
			p := &fuObjPtr{1}
			mk = func() zap.Field { return zap.Inline(p) }
		case "Object/uncomparable":
			mk = func() zap.Field { return zap.Object("k", zap.DictObject(zap.Int("a", 1))) }
		case "Array/uncomparable":
			mk = func() zap.Field { return zap.Array("k", fuArrStr{1, 2}) }
		case "Error/uncomparable":
			mk = func() zap.Field { return zap.NamedError("k", jeGroupErr{[]error{errors.New("x")}}) }
		case "Reflect/uncomparable":
			mk = func() zap.Field { return zap.Reflect("k", map[string]int{"a": 1}) }
		case "TimeFull/comparable":
			mk = func() zap.Field { return zap.Time("k", time.Date(3000, 1, 1, 0, 0, 0, 0, time.UTC)) }
		default:
			continue
		}
		x.n++
		x.equalsLaws("Equals row "+r.Type+"/"+r.Payload, mk(), mk(), "")
	}
}
