package main

import (
	"time"
	"unicode/utf8"
	"io"
	"encoding/json"
	"flag"
	"fmt"
	"math/rand"
	"net/http"
	"net/http/httptest"
	"net/url"
	"strings"

	"go.uber.org/zap"
	"go.uber.org/zap/zapcore"
	"go.uber.org/zap/zaptest/observer"
	"gopkg.in/yaml.v3"
)

// C20 — level names and the level HTTP endpoint set exactly the requested level.
// Spec: LevelHTTP.tla.

func init() { register("C20", checkC20) }

type lvlText struct {
	Kind string `json:"kind"`
	Lvl  string `json:"lvl"`
}
type lvlReq struct {
	M    string `json:"m"`
	Ct   string `json:"ct"`
	Body struct {
		K string  `json:"k"`
		T lvlText `json:"t"`
	} `json:"body"`
	Q struct {
		K string  `json:"k"`
		T lvlText `json:"t"`
	} `json:"q"`
}
type lvlStep struct {
	Req      lvlReq `json:"req"`
	Status   int    `json:"status"`
	Before   string `json:"before"`
	After    string `json:"after"`
	Reported string `json:"reported"`
}

var allLevels = []zapcore.Level{zapcore.DebugLevel, zapcore.InfoLevel, zapcore.WarnLevel, zapcore.ErrorLevel, zapcore.DPanicLevel, zapcore.PanicLevel, zapcore.FatalLevel}

// the spec models three levels; each abstract level is replayed with every member of its group
var lvlGroups = map[string][]zapcore.Level{
	"debug": {zapcore.DebugLevel, zapcore.WarnLevel, zapcore.DPanicLevel},
	"info":  {zapcore.InfoLevel},
	"error": {zapcore.ErrorLevel, zapcore.PanicLevel, zapcore.FatalLevel},
}

func mixCase(s string, rng *rand.Rand) string {
	b := []byte(s)
	for {
		for i := range b {
			if rng.Intn(2) == 0 {
				b[i] = byte(strings.ToUpper(string(b[i]))[0])
			} else {
				b[i] = byte(strings.ToLower(string(b[i]))[0])
			}
		}
		if string(b) != strings.ToLower(s) && string(b) != strings.ToUpper(s) {
			return string(b)
		}
	}
}

func textOf(t lvlText, l zapcore.Level, rng *rand.Rand) string {
	name := l.String()
	if l == zapcore.WarnLevel && rng.Intn(2) == 0 {
		name = "warning" // alias
	}
	switch t.Kind {
	case "exact":
		return name
	case "capital":
		return strings.ToUpper(name)
	case "mixed":
		return mixCase(name, rng)
	case "empty":
		return ""
	case "padded":
		return []string{" " + name, name + " ", "\t" + name, name + "\n"}[rng.Intn(4)]
	case "garbage":
		return []string{"verbose", "trace", "inf", "infoo", "debug,info", "0", "-1", "info\x00", "ｉｎｆｏ", "warnin"}[rng.Intn(10)]
	case "printed-invalid":
		return []string{"Level(42)", "LEVEL(-3)", "Level(0)", "level(1)"}[rng.Intn(4)]
	}
	return ""
}

func checkC20(c *Ctx) {
	c.Assume("the handler is memoryless apart from the level, so every (starting level, request class) pair is exhaustive for one step; sequences are sampled by simulation; request classes are concretised with varied bytes")
	c.MustTLC(TLCOpts{Module: "LevelHTTP", Cfg: "LevelHTTP.check"})
	c.MustTLC(TLCOpts{Module: "LevelHTTP", Cfg: "LevelHTTP.check", Consts: map[string]string{"SetBeforeCheck": "TRUE"}, ExpectViolation: true})
	c.MustTLC(TLCOpts{Module: "LevelHTTP", Cfg: "LevelHTTP.check", Consts: map[string]string{"QueryFirst": "TRUE"}, ExpectViolation: true})
	rng := rand.New(rand.NewSource(c.Seed))
	n := 0
	cb := func(raw json.RawMessage) {
		if c.Saturated() {
			return
		}
		var steps []lvlStep
		if err := json.Unmarshal(raw, &steps); err != nil {
			c.Inconclusive("bad LevelHTTP behaviour: %v", err)
			return
		}
		n++
		if n%5003 == 1 {
			c.Sample(steps)
		}
		for _, f := range replayLevelHTTP(steps, rng) {
			c.Violation(f.Key, f.What, map[string]interface{}{"steps": steps})
		}
		c.Add("traces_validated_against_impl", 1)
	}
	byBefore := map[string][]lvlStep{}
	c.MustTLC(TLCOpts{Module: "LevelHTTP", Cfg: "LevelHTTP.check", Gen: true, Consts: map[string]string{"Emit": "TRUE"}, OnBeh: func(raw json.RawMessage) {
		cb(raw)
		var steps []lvlStep
		if json.Unmarshal(raw, &steps) == nil && len(steps) == 1 {
			byBefore[steps[0].Before] = append(byBefore[steps[0].Before], steps[0])
		}
	}})
	c.Set("single_request_cases", int64(n))
	// histories: the spec's Serve steps chained (the only state carried between requests is the level)
	nh := c.Pick(4000, 60000)
	for k := 0; k < nh && len(byBefore) > 0 && !c.Saturated(); k++ {
		cur := []string{"debug", "info", "error"}[rng.Intn(3)]
		var hist []lvlStep
		for j := 0; j < 2+rng.Intn(4); j++ {
			cands := byBefore[cur]
			// favour state-changing requests so that histories really move
			st := cands[rng.Intn(len(cands))]
			for tries := 0; tries < 3 && st.After == st.Before; tries++ {
				st = cands[rng.Intn(len(cands))]
			}
			hist = append(hist, st)
			cur = st.After
		}
		for _, f := range replayLevelHTTP(hist, rng) {
			c.Violation(f.Key, f.What, map[string]interface{}{"steps": hist})
		}
		c.Add("traces_validated_against_impl", 1)
	}
	c.Set("request_histories", int64(nh))
	// overlapping requests: a PUT waits for its body while other changes land
	lvlConcChecks(c)
	// text forms: all 256 level values through every text surface
	for _, f := range levelTextChecks(rng, c.Pick(200, 5000)) {
		c.Violation(f.Key, f.What, nil)
	}
	c.Add("traces_validated_against_impl", 256)
}

func replayLevelHTTP(steps []lvlStep, rng *rand.Rand) (finds []Finding) {
	add := func(key, f string, a ...interface{}) { finds = append(finds, Finding{Key: key, What: fmt.Sprintf(f, a...)}) }
	pick := func(abs string) zapcore.Level { g := lvlGroups[abs]; return g[rng.Intn(len(g))] }
	if len(steps) == 0 {
		return
	}
	cur := pick(steps[0].Before)
	al := zap.NewAtomicLevelAt(cur)
	core, logs := observer.New(al)
	logger := zap.New(core)
	child := logger.With(zap.Int("c", 1)).Named("n")
	for i, st := range steps {
		r := st.Req
		// the level this request names (concrete), if the spec says it names one
		var named zapcore.Level
		hasNamed := st.Status == 200 && r.M == "PUT"
		if hasNamed {
			named = pick(st.After)
		}
		otherLvl := allLevels[rng.Intn(7)] // the level spelled by texts of a request that the model refuses
		mkText := func(t lvlText) string {
			if hasNamed {
				return textOf(t, named, rng)
			}
			return textOf(t, otherLvl, rng)
		}
		body := ""
		readErr := false // the body reader fails (connection lost) after delivering body
		switch r.Body.K {
		case "form":
			body = "level=" + url.QueryEscape(mkText(r.Body.T))
			if rng.Intn(2) == 0 {
				body = "other=1&" + body
			}
		case "formOther":
			body = "lvl=debug&Level=debug"
		case "formMalformed":
			body = "level=%zz;&&=="
		case "json":
			b, _ := json.Marshal(map[string]string{"level": mkText(r.Body.T)})
			body = string(b)
			if rng.Intn(3) == 0 {
				body = " \n" + body
			}
		case "jsonThenError":
			b, _ := json.Marshal(map[string]string{"level": mkText(r.Body.T)})
			body = string(b)
			readErr = true
		case "jsonCutShort":
			body = []string{`{"level":"deb`, `{"level":`, `{`}[rng.Intn(3)]
			readErr = true
		case "jsonNull":
			body = `{"level":null}`
		case "jsonMissing":
			body = []string{`{}`, `{"lvl":"debug"}`, `{"Level ":"debug"}`}[rng.Intn(3)]
		case "jsonNumber":
			body = []string{`{"level":1}`, `{"level":true}`, `{"level":["debug"]}`, `{"level":{"level":"debug"}}`}[rng.Intn(4)]
		case "jsonSyntax":
			body = []string{`{"level":`, `{"level":"debug"`, `{level:"debug"}`, `<level>debug</level>`, ``, "\x00\xff"}[rng.Intn(6)]
		case "jsonNotObject":
			body = []string{`"debug"`, `["debug"]`, `1`, `null`}[rng.Intn(4)]
		}
		target := "/log/level"
		if r.Q.K == "level" {
			// when the body names the level, the query names a *different* one so precedence is visible
			qt := textOf(r.Q.T, allLevels[rng.Intn(7)], rng)
			if hasNamed && !(r.Ct == "form" && r.Body.K == "form") && r.Ct == "form" {
				qt = textOf(r.Q.T, named, rng)
			}
			target += "?level=" + url.QueryEscape(qt)
		}
		var bodyReader io.Reader = strings.NewReader(body)
		if readErr {
			bodyReader = io.MultiReader(strings.NewReader(body), lvlFailReader{})
		}
		req := httptest.NewRequest(r.M, target, bodyReader)
		mayRefuse := r.Ct != "form" && r.Body.K == "jsonThenError"
		switch r.Ct {
		case "form":
			req.Header.Set("Content-Type", "application/x-www-form-urlencoded")
		case "json":
			req.Header.Set("Content-Type", "application/json")
		case "other":
			req.Header.Set("Content-Type", []string{"text/plain", "application/xml", "APPLICATION/X-WWW-FORM-URLENCODED "}[rng.Intn(3)])
		case "form-with-charset":
			req.Header.Set("Content-Type", "application/x-www-form-urlencoded; charset=utf-8")
		}
		before := al.Level()
		rec := httptest.NewRecorder()
		func() {
			defer func() {
				if p := recover(); p != nil {
					add("C20/panic", "handler panicked on %s %s body=%q: %v", r.M, target, body, p)
				}
			}()
			al.ServeHTTP(rec, req)
		}()
		after := al.Level()
		desc := fmt.Sprintf("request #%d %s %s content-type=%q body=%q (level before: %v)", i, r.M, target, req.Header.Get("Content-Type"), body, before)
		// the property's predicates
		if hasNamed && mayRefuse && after == before && rec.Code >= 400 && rec.Code < 500 {
			// a complete document followed by a read error: refusing the request is allowed too
		} else if hasNamed {
			if after != named {
				add("C20/put-valid-not-applied", "%s names level %v; level afterwards is %v", desc, named, after)
			}
			if rec.Code != 200 {
				add("C20/put-valid-status", "%s names level %v; status %d", desc, named, rec.Code)
			}
		} else if k := r.Body.T.Kind; mayRefuse && r.M == "PUT" && rec.Code == 200 &&
			(((k == "exact" || k == "capital" || k == "mixed") && after == otherLvl) || (k == "empty" && after == zapcore.InfoLevel)) {
			// the model chose "refused" for this request but its document names a level: honouring it is allowed
		} else {
			if after != before {
				add("C20/level-changed-without-valid-put", "%s changed the level to %v", desc, after)
			}
			if r.M != "GET" && (rec.Code < 400 || rec.Code >= 500) {
				add("C20/bad-request-not-4xx", "%s answered with status %d, want 4xx", desc, rec.Code)
			}
		}
		if rec.Code == 200 {
			var resp struct {
				Level *zapcore.Level `json:"level"`
			}
			if err := json.Unmarshal(rec.Body.Bytes(), &resp); err != nil || resp.Level == nil {
				add("C20/response-malformed", "%s: 200 response body %q is not {\"level\":...}", desc, rec.Body.String())
			} else if *resp.Level != al.Level() {
				add("C20/response-misreports", "%s: response reports %v, level in force is %v", desc, *resp.Level, al.Level())
			}
		}
		if r.M == "GET" && rec.Code != 200 {
			add("C20/get-status", "%s: GET answered %d", desc, rec.Code)
		}
		if rec.Code != st.Status {
			// conformance with the model only (e.g. 405 vs 400): not a verdict by itself
			_ = st
		}
		// shared with live loggers: honoured on the next call (C05)
		logs.TakeAll()
		for _, l := range []*zap.Logger{logger, child} {
			for _, lv := range allLevels[:5] {
				if ce := l.Check(lv, "probe"); ce != nil {
					ce.Write()
				}
			}
		}
		wantN := 0
		for _, lv := range allLevels[:5] {
			if lv >= after {
				wantN += 2
			}
		}
		if logs.Len() != wantN {
			add("C20/live-logger-not-following", "%s: after the request the level is %v but loggers sharing the AtomicLevel delivered %d of 10 probe entries (want %d)", desc, after, logs.Len(), wantN)
		}
		cur = after
	}
	return finds
}

func levelTextChecks(rng *rand.Rand, nrand int) (finds []Finding) {
	add := func(key, f string, a ...interface{}) { finds = append(finds, Finding{Key: key, What: fmt.Sprintf(f, a...)}) }
	for v := -128; v <= 127; v++ {
		l := zapcore.Level(v)
		valid := l >= zapcore.DebugLevel && l <= zapcore.FatalLevel
		forms := []string{l.String(), l.CapitalString()}
		if mt, err := l.MarshalText(); err == nil {
			forms = append(forms, string(mt))
		} else if valid {
			add("C20/roundtrip", "MarshalText(%d) failed: %v", v, err)
		}
		if valid {
			forms = append(forms, mixCase(l.String(), rng))
		}
		for _, txt := range forms {
			lvlAllSurfaces(add, txt, valid, l)
		}
		if valid {
			jb, err := json.Marshal(l)
			var back zapcore.Level = -100
			if err != nil || json.Unmarshal(jb, &back) != nil || back != l {
				add("C20/roundtrip", "JSON round trip of %v gives %v (%s)", l, back, jb)
			}
			yb, err := yaml.Marshal(l)
			back = -100
			if err != nil || yaml.Unmarshal(yb, &back) != nil || back != l {
				add("C20/roundtrip", "YAML round trip of %v gives %v (%s)", l, back, yb)
			}
			al := zap.NewAtomicLevelAt(l)
			if al.String() != l.String() {
				add("C20/roundtrip", "AtomicLevel.String() = %q for %v", al.String(), l)
			}
		}
	}
	// U+0130 lower-cases to ASCII i under bytes.ToLower: "İNFO" is accepted although it is no case variant
	for _, txt := range []string{"İNFO", "İnfo", "dpanİc", "PANİC", "warnİng"} {
		got := zapcore.Level(5)
		if err := got.UnmarshalText([]byte(txt)); err == nil {
			add("C20/invalid-text-accepted:unicode-case-fold", "Level.UnmarshalText(%q) was accepted as %v", txt, got)
		}
	}
	// level names with some letters replaced by every non-ASCII byte that shares their low bits (a sloppy case fold
	// that masks bits would accept them): none of these spells a level
	for name := range map[string]bool{"debug": true, "info": true, "warn": true, "error": true, "dpanic": true, "panic": true, "fatal": true, "warning": true} {
		for pos := 0; pos < len(name); pos++ {
			for _, mask := range []byte{0x80, 0xA0, 0x40 | 0x80} {
				b := []byte(name)
				b[pos] = (b[pos] & 0x1f) | mask | (b[pos] & 0x40)
				if b[pos] < 0x80 {
					continue
				}
				for _, all := range []bool{false, true} {
					txt := append([]byte(nil), b...)
					if all {
						for q := range txt {
							txt[q] = (txt[q] & 0x5f) | 0x80 | (name[q] & 0x20)
						}
					}
					got := zapcore.Level(3)
					err := got.UnmarshalText(txt)
					checkParse(add, "Level.UnmarshalText(high-bit bytes)", string(txt), false, 0, 3, got, err)
				}
			}
		}
	}
	// empty string reads as info
	var e zapcore.Level = zapcore.ErrorLevel
	if err := e.UnmarshalText([]byte("")); err != nil || e != zapcore.InfoLevel {
		add("C20/empty-is-info", "UnmarshalText(\"\") = %v, %v", e, err)
	}
	// random byte strings: rejected unless they spell a level (case-insensitively), target untouched on rejection
	names := map[string]zapcore.Level{"debug": -1, "info": 0, "": 0, "warn": 1, "warning": 1, "error": 2, "dpanic": 3, "panic": 4, "fatal": 5}
	alphabet := []string{"d", "e", "b", "u", "g", "i", "n", "f", "o", "w", "a", "r", "p", "c", "t", "l", "D", "I", "W", " ", "\n", "\x00", "é", "1", "("}
	for k := 0; k < nrand; k++ {
		n := rng.Intn(8)
		txt := ""
		for j := 0; j < n; j++ {
			txt += alphabet[rng.Intn(len(alphabet))]
		}
		want, ok := names[txt]
		if !ok {
			want, ok = names[string(asciiLower([]byte(txt)))]
		}
		got := zapcore.Level(3)
		err := got.UnmarshalText([]byte(txt))
		checkParse(add, "Level.UnmarshalText(random)", txt, ok, want, 3, got, err)
		if utf8.ValidString(txt) && !strings.ContainsAny(txt, "\x00\n") && !strings.HasPrefix(txt, "-") {
			lvlAllSurfaces(add, txt, ok, want)
		}
	}
	// level names with something in front of or behind them: no prefix or suffix of a text is a level
	for name := range names {
		if name == "" {
			continue
		}
		for _, txt := range []string{name + "s", name + " ", name + "\x00", name + "ing", strings.ToUpper(name) + ": disk almost full", "x" + name, " " + name, name + name, name[:len(name)-1]} {
			if _, ok := names[strings.ToLower(txt)]; ok {
				continue
			}
			if utf8.ValidString(txt) && !strings.ContainsAny(txt, "\x00") {
				lvlAllSurfaces(add, txt, false, 0)
			} else {
				got := zapcore.Level(3)
				err := got.UnmarshalText([]byte(txt))
				checkParse(add, "Level.UnmarshalText", txt, false, 0, 3, got, err)
			}
		}
	}
	// the text a level marshals to belongs to the caller: scribbling over it changes nothing for anybody else
	for _, l := range allLevels {
		if b, err := l.MarshalText(); err == nil {
			for i := range b {
				b[i] = 'X'
			}
			_ = append(b[:0], "off"...)
		}
		al := zap.NewAtomicLevelAt(l)
		if b, err := al.MarshalText(); err == nil {
			for i := range b {
				b[i] = 'Y'
			}
		}
		b2, err := l.MarshalText()
		b3, err3 := zap.NewAtomicLevelAt(l).MarshalText()
		jb, _ := json.Marshal(zap.NewAtomicLevelAt(l))
		if err != nil || string(b2) != l.String() || err3 != nil || string(b3) != l.String() || string(jb) != `"`+l.String()+`"` {
			add("C20/roundtrip", "after a caller overwrote the slice an earlier MarshalText returned, level %d marshals as %q / %q / %s (want %q)", int8(l), b2, b3, jb, l.String())
		}
	}
	// levels of separately made configurations are separate
	{
		p1, p2 := zap.NewProductionConfig(), zap.NewProductionConfig()
		d1, d2 := zap.NewDevelopmentConfig(), zap.NewDevelopmentConfig()
		p1.Level.SetLevel(zapcore.ErrorLevel)
		d1.Level.SetLevel(zapcore.FatalLevel)
		req := httptest.NewRequest("PUT", "/", strings.NewReader(`{"level":"warn"}`))
		p1.Level.ServeHTTP(httptest.NewRecorder(), req)
		p3 := zap.NewProductionConfig()
		if p2.Level.Level() != zapcore.InfoLevel || p3.Level.Level() != zapcore.InfoLevel || d2.Level.Level() != zapcore.DebugLevel || zap.NewDevelopmentConfig().Level.Level() != zapcore.DebugLevel {
			add("C20/level-changed-without-valid-put", "changing the level of one default configuration (SetLevel and a PUT on its own endpoint) changed others: a second production config is at %v, a later one at %v (want info); a second development config at %v (want debug)", p2.Level.Level(), p3.Level.Level(), d2.Level.Level())
		}
	}
	// plausible but wrong names, short enough for any table of level names
	for _, txt := range []string{"off", "trace", "none", "all", "warnn", "inf", "fata", "INFOO", "verbose", "crit", "notice", "err", "dbg", "1", "-1", "0"} {
		if strings.HasPrefix(txt, "-") {
			continue
		}
		lvlAllSurfaces(add, txt, false, 0)
	}
	return finds
}

func asciiLower(b []byte) []byte {
	o := make([]byte, len(b))
	for i, c := range b {
		if c >= 'A' && c <= 'Z' {
			c += 32
		}
		o[i] = c
	}
	return o
}

func checkParse(add func(string, string, ...interface{}), surface, txt string, valid bool, want, start, got zapcore.Level, err error) {
	if valid {
		if err != nil || got != want {
			add("C20/roundtrip", "%s(%q) = %v, err=%v; want %v", surface, txt, got, err, want)
		}
		return
	}
	if err == nil {
		add("C20/invalid-text-accepted", "%s(%q) was accepted as %v", surface, txt, got)
	} else if got != start {
		add("C20/rejected-text-modified-target", "%s(%q) was rejected (%v) but changed the target from %v to %v", surface, txt, err, start, got)
	}
}

var _ = http.MethodGet

// lvlFailReader: the connection breaks.
type lvlFailReader struct{}

func (lvlFailReader) Read([]byte) (int, error) { return 0, fmt.Errorf("read tcp 10.0.0.1:443: connection reset by peer") }


// lvlAllSurfaces sends one text through every parsing surface, twice per surface with different targets: the
// verdict on a text may not depend on what was parsed before.
func lvlAllSurfaces(add func(string, string, ...interface{}), txt string, valid bool, l zapcore.Level) {
	for _, start := range []zapcore.Level{zapcore.ErrorLevel, zapcore.DebugLevel} {
				// Level.UnmarshalText
				got := start
				err := got.UnmarshalText([]byte(txt))
				checkParse(add, "Level.UnmarshalText", txt, valid, l, start, got, err)
				// Level.Set (flag.Value)
				got = start
				err = got.Set(txt)
				checkParse(add, "Level.Set", txt, valid, l, start, got, err)
				// flag parsing
				fs := flag.NewFlagSet("t", flag.ContinueOnError)
				fs.SetOutput(new(strings.Builder))
				got = start
				fs.Var(&got, "level", "")
				err = fs.Parse([]string{"-level", txt})
				checkParse(add, "flag", txt, valid, l, start, got, err)
				// JSON
				got = start
				jb, _ := json.Marshal(txt)
				err = json.Unmarshal(jb, &got)
				checkParse(add, "JSON", txt, valid, l, start, got, err)
				// YAML
				got = start
				yb, _ := yaml.Marshal(txt)
				err = yaml.Unmarshal(yb, &got)
				checkParse(add, "YAML", txt, valid, l, start, got, err)
				// AtomicLevel
				al := zap.NewAtomicLevelAt(start)
				err = al.UnmarshalText([]byte(txt))
				checkParse(add, "AtomicLevel.UnmarshalText", txt, valid, l, start, al.Level(), err)
				// ParseLevel / ParseAtomicLevel
				pl, err := zapcore.ParseLevel(txt)
				if valid && (err != nil || pl != l) {
					add("C20/roundtrip", "ParseLevel(%q) = %v, %v; want %v", txt, pl, err, l)
				}
				if !valid && err == nil {
					add("C20/invalid-text-accepted", "ParseLevel(%q) accepted as %v", txt, pl)
				}
				pal, err := zap.ParseAtomicLevel(txt)
				if valid && (err != nil || pal.Level() != l) {
					add("C20/roundtrip", "ParseAtomicLevel(%q) = %v, %v; want %v", txt, pal, err, l)
				}
				if !valid && err == nil {
					add("C20/invalid-text-accepted", "ParseAtomicLevel(%q) accepted as %v", txt, pal.Level())
				}
	}
}
// ---- overlapping requests (LevelHTTPConc.tla) ----

type lvlConcAct struct {
	A     string `json:"a"`
	R     int    `json:"r"`
	Lvl   string `json:"lvl"`
	After string `json:"after"`
}

// lvlGateBody blocks in its first Read until released, then delivers the body.
type lvlGateBody struct {
	g    *Gate
	data *strings.Reader
	once bool
}

func (b *lvlGateBody) Read(p []byte) (int, error) {
	if !b.once {
		b.once = true
		b.g.At("body", 0, 0)
	}
	return b.data.Read(p)
}

var lvlConcrete = map[string]zapcore.Level{"debug": zapcore.DebugLevel, "info": zapcore.InfoLevel, "error": zapcore.ErrorLevel}

func replayLevelHTTPConc(h []lvlConcAct, start string, variant int) (finds []Finding, diverged string) {
	add := func(key, f string, a ...interface{}) { finds = append(finds, Finding{Key: key, What: fmt.Sprintf(f, a...)}) }
	g := NewGate()
	defer g.Drain()
	al := zap.NewAtomicLevelAt(lvlConcrete[start])
	recs := map[int]*httptest.ResponseRecorder{}
	sched := []string{}
	const to = 3 * time.Second
	for i, a := range h {
		proc := fmt.Sprint("r", a.R)
		sched = append(sched, fmt.Sprintf("%s(%d,%s)", a.A, a.R, a.Lvl))
		before := al.Level()
		switch a.A {
		case "Start":
			body, ct := "", "application/json"
			if a.Lvl != "none" {
				body = `{"level":"` + a.Lvl + `"}`
				if variant%2 == 1 {
					body, ct = "level="+a.Lvl, "application/x-www-form-urlencoded"
				}
			} else {
				bad := []string{`{"level":"verbose"}`, `{"level":`, `{}`, `level=loud`}
				body = bad[(variant+i)%len(bad)]
				if strings.HasPrefix(body, "level=") {
					ct = "application/x-www-form-urlencoded"
				}
			}
			req := httptest.NewRequest("PUT", "/level", &lvlGateBody{g: g, data: strings.NewReader(body)})
			req.Header.Set("Content-Type", ct)
			rec := httptest.NewRecorder()
			recs[a.R] = rec
			g.Go(proc, func() { al.ServeHTTP(rec, req) })
			if s, _ := g.WaitParked(proc, to, "body"); s != "body" {
				return finds, fmt.Sprintf("request %d did not block reading its body (%s)", a.R, s)
			}
			if al.Level() != before {
				add("C20/level-changed-without-valid-put", "schedule %v: a PUT that has not yet received its body changed the level from %v to %v", sched, before, al.Level())
			}
		case "AppSet":
			if variant%3 == 0 {
				al.SetLevel(lvlConcrete[a.Lvl])
			} else {
				// a complete, valid PUT from another client
				req := httptest.NewRequest("PUT", "/level", strings.NewReader(`{"level":"`+a.Lvl+`"}`))
				rec := httptest.NewRecorder()
				al.ServeHTTP(rec, req)
				if rec.Code != 200 {
					add("C20/put-valid-status", "schedule %v: a valid PUT answered %d while other requests were waiting for their bodies", sched, rec.Code)
				}
			}
		case "Finish":
			g.Release(proc)
			if !g.WaitDone(proc, 1, to) {
				return finds, fmt.Sprintf("request %d did not return after its body arrived", a.R)
			}
			rec := recs[a.R]
			if a.Lvl == "none" {
				if al.Level() != before {
					add("C20/level-changed-without-valid-put", "schedule %v: request %d was rejected (status %d) but changed the level from %v to %v (it entered the handler while the level was still different)", sched, a.R, rec.Code, before, al.Level())
				}
				if rec.Code < 400 || rec.Code >= 500 {
					add("C20/bad-request-not-4xx", "schedule %v: malformed request %d answered %d", sched, a.R, rec.Code)
				}
			} else {
				if al.Level() != lvlConcrete[a.Lvl] {
					add("C20/put-valid-not-applied", "schedule %v: request %d names %s; level afterwards is %v", sched, a.R, a.Lvl, al.Level())
				}
				if rec.Code != 200 {
					add("C20/put-valid-status", "schedule %v: request %d names %s; status %d", sched, a.R, a.Lvl, rec.Code)
				}
			}
		}
		if len(finds) > 0 {
			return
		}
	}
	return
}

func lvlConcChecks(c *Ctx) {
	c.MustTLC(TLCOpts{Module: "LevelHTTPConc", Cfg: "LevelHTTPConc.check"})
	c.MustTLC(TLCOpts{Module: "LevelHTTPConc", Cfg: "LevelHTTPConc.check", Consts: map[string]string{"RejectRule": `"restore"`}, ExpectViolation: true})
	n, ndiv := 0, 0
	c.MustTLC(TLCOpts{Module: "LevelHTTPConc", Cfg: "LevelHTTPConc.check", Gen: true, Consts: map[string]string{"Emit": "TRUE", "MaxAppSets": fmt.Sprint(c.Pick(1, 2))}, OnBeh: func(raw json.RawMessage) {
		if c.Saturated() {
			return
		}
		var b struct {
			H []lvlConcAct `json:"h"`
		}
		if err := json.Unmarshal(raw, &b); err != nil || len(b.H) == 0 {
			c.Inconclusive("bad LevelHTTPConc behaviour: %v", err)
			return
		}
		if ndiv >= 15 {
			return // requests no longer block where the model has them: stop paying timeouts
		}
		n++
		if !c.Thorough() && n%3 != 0 {
			return
		}
		// the starting level is whatever makes the first AppSet / rejected Finish observable: try all three
		for si, start := range []string{"debug", "info", "error"} {
			f, div := replayLevelHTTPConc(b.H, start, n+si)
			if div != "" {
				ndiv++
				c.Note("LevelHTTPConc replay diverged: %s", div)
				continue
			}
			for _, x := range f {
				c.Violation(x.Key, x.What, map[string]interface{}{"mode": "overlapping-requests", "h": b.H, "start": start})
			}
			c.Add("traces_validated_against_impl", 1)
		}
		if n%401 == 0 {
			c.Sample(map[string]interface{}{"mode": "overlapping-requests", "h": b.H})
		}
	}})
	c.Set("overlapping_request_schedules", int64(n))
	if ndiv*10 > n {
		c.Inconclusive("too many overlapping-request replays diverged (%d of %d)", ndiv, n)
	}
}
