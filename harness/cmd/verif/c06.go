package main

import (
	"sync/atomic"
	"bytes"
	"io"
	"encoding/json"
	"fmt"
	"os"
	"os/exec"
	"path/filepath"
	"strings"
	"sync"
	"time"

	"go.uber.org/zap"
	"go.uber.org/zap/zapcore"
	"go.uber.org/zap/zapgrpc"
)

// C06 — Panic and Fatal always terminate, after the entry is written and flushed.
// Spec: Terminal.tla. Every case (front end x level x development x hook setting x core
// composition) TLC enumerates is executed: in-process with a recording custom hook or
// recover for panics, and in a child process for the default fatal action (os.Exit(1)).

func init() {
	register("C06", checkC06)
	children["c06"] = childC06
}

type termLeaf struct {
	Acc  bool `json:"acc"`
	Bws  bool `json:"bws"`
	Fail bool `json:"fail"`
}

// termFailSink refuses every write (a broken pipe / full disk).
type termFailSink struct{ zapcore.WriteSyncer }

func (termFailSink) Write(p []byte) (int, error) { return 0, fmt.Errorf("sink broken") }
type termSnap struct {
	InSink bool `json:"inSink"`
	InBuf  bool `json:"inBuf"`
	Synced bool `json:"synced"`
}
type termBeh struct {
	Fe     string     `json:"fe"`
	Lvl    int        `json:"lvl"`
	Dev    bool       `json:"dev"`
	Hook   string     `json:"hook"`
	Core   string     `json:"core"`
	Msg    string     `json:"msg"`
	Ran    string     `json:"ran"`
	Leaves []termLeaf `json:"leaves"`
	Final  []termSnap `json:"final"`
}

var termMutants = []map[string]string{
	{"SyncRule": `"never"`}, {"AttachRule": `"willWrite"`}, {"OverrideRule": `"raw"`}, {"GrpcGuard": `"plain"`}, {"SugarGuard": `"plain"`}, {"WriteLoop": `"break"`},
}

func checkC06(c *Ctx) {
	c.Assume("the default fatal action is observed as exit status 1 of a child process whose sinks are real files (a BufferedWriteSyncer over a file for the buffered case); the default panic action by recover in-process (and in a child process in the thorough tier)")
	c.Assume("custom hooks are recording hooks that return; 'flushed' means: at the moment the terminal action runs every accepting IO core's sink holds the complete line and has been synced after it")
	if c.Replay != "" {
		var rp struct {
			Replay struct {
				Beh termBeh `json:"beh"`
			} `json:"replay"`
		}
		if err := readJSON(c.Replay, &rp); err != nil {
			c.Fatalf("replay file: %v", err)
		}
		for _, f := range replayC06(c, rp.Replay.Beh, true) {
			c.Violation(f.Key, f.What, rp.Replay)
		}
		return
	}
	c.MustTLC(TLCOpts{Module: "Terminal", Cfg: "Terminal.check"})
	for _, m := range termMutants {
		c.MustTLC(TLCOpts{Module: "Terminal", Cfg: "Terminal.check", Consts: m, ExpectViolation: true})
	}
	var behs []termBeh
	c.MustTLC(TLCOpts{Module: "Terminal", Cfg: "Terminal.check", Gen: true, Consts: map[string]string{"Emit": "TRUE"}, OnBeh: func(raw json.RawMessage) {
		var b termBeh
		if err := json.Unmarshal(raw, &b); err != nil {
			c.Inconclusive("bad Terminal behaviour: %v", err)
			return
		}
		behs = append(behs, b)
	}})
	// in-process cases sequentially (panics, custom hooks); child-process cases in parallel
	var wg sync.WaitGroup
	sem := make(chan struct{}, 12)
	nchild := 0
	for i, b := range behs {
		if c.Saturated() {
			break
		}
		if i%401 == 0 {
			c.Sample(b)
		}
		needChild := b.Ran == "exit1" || (b.Ran == "panic" && c.Thorough() && i%5 == 0)
		if needChild {
			// quick tier: every third default-fatal case in a child process (all of them in thorough)
			if !c.Thorough() && (i+int(c.Seed))%3 != 0 {
				continue
			}
			nchild++
			wg.Add(1)
			sem <- struct{}{}
			go func(b termBeh) {
				defer wg.Done()
				defer func() { <-sem }()
				for _, f := range replayC06(c, b, true) {
					c.Violation(f.Key, f.What, map[string]interface{}{"beh": b})
				}
				c.Add("traces_validated_against_impl", 1)
			}(b)
			if b.Ran == "exit1" {
				continue
			}
		}
		for _, f := range replayC06(c, b, false) {
			c.Violation(f.Key, f.What, map[string]interface{}{"beh": b})
		}
		c.Add("traces_validated_against_impl", 1)
	}
	wg.Wait()
	for _, f := range replayTickBeforeTerminalSync() {
		c.Violation(f.Key, f.What, map[string]interface{}{"scenario": "tick-before-terminal-sync"})
	}
	for _, f := range replayLockedSyncContention() {
		c.Violation(f.Key, f.What, map[string]interface{}{"scenario": "locked-sync-contention"})
	}
	c.Add("traces_validated_against_impl", 3)
	c.Set("cases", int64(len(behs)))
	c.Set("child_process_cases", int64(nchild))
	c.Set("exhaustive", c.Thorough())
	c.Set("rule", "every (front end, level, development, hook setting, core composition) case of Terminal.tla; default-fatal cases run in child processes (quick: one third of them, rotating with the seed)")
}

// ---- building the case on real objects --------------------------------------

type termSink struct {
	mu     sync.Mutex
	lines  []string
	syncs  int
	syncAt int // number of lines present at the last Sync
}

func (s *termSink) Write(p []byte) (int, error) {
	s.mu.Lock()
	defer s.mu.Unlock()
	s.lines = append(s.lines, string(p))
	return len(p), nil
}
func (s *termSink) Sync() error {
	s.mu.Lock()
	defer s.mu.Unlock()
	s.syncs++
	s.syncAt = len(s.lines)
	return nil
}

const termMsgText = "final-message \"quoted\""

// termNeedle: how the case's message appears in the JSON line
func termNeedle(b termBeh) string {
	q, _ := json.Marshal(termMsgOf(b))
	return `"m":` + string(q)
}

// termMsgOf: the message of the case (an empty message must terminate just the same)
func termMsgOf(b termBeh) string {
	if b.Msg == "empty" {
		return ""
	}
	return termMsgText
}

type termWorld struct {
	core    zapcore.Core
	sinks   []zapcore.WriteSyncer // innermost sinks, one per leaf
	bws     []*zapcore.BufferedWriteSyncer
	hookRan int
}

func termEnc() zapcore.Encoder {
	return zapcore.NewJSONEncoder(zapcore.EncoderConfig{MessageKey: "m", LevelKey: "l", LineEnding: "\n", EncodeLevel: zapcore.LowercaseLevelEncoder})
}

// termBuild builds the composition; mkSink supplies the innermost sink of leaf i.
func termBuild(b termBeh, mkSink func(i int) zapcore.WriteSyncer) *termWorld {
	w := &termWorld{}
	lvl := zapcore.Level(b.Lvl)
	off := zap.LevelEnablerFunc(func(l zapcore.Level) bool { return l != lvl && l >= zapcore.DebugLevel })
	leaf := func(i int) zapcore.Core {
		lf := b.Leaves[i]
		s := mkSink(i)
		w.sinks = append(w.sinks, s)
		var ws zapcore.WriteSyncer = s
		if lf.Fail {
			ws = termFailSink{s}
			if (b.Lvl+len(b.Fe))%2 == 0 {
				// the failing destination is lock-protected (what zap.Open returns) and has failed before
				ws = zapcore.Lock(ws)
				ws.Write([]byte("an earlier entry\n"))
			}
		}
		if lf.Bws {
			bw := &zapcore.BufferedWriteSyncer{WS: s, Size: 4096, FlushInterval: time.Hour}
			w.bws = append(w.bws, bw)
			ws = bw
			if b.Core == "bws-multi" {
				ws = zapcore.NewMultiWriteSyncer(bw, termUnderCount{})
			}
		}
		var en zapcore.LevelEnabler = zapcore.DebugLevel
		if !lf.Acc && b.Core != "sampled-out" && b.Core != "inc-off" && b.Core != "tee-on-sampledout" {
			en = off
		}
		return zapcore.NewCore(termEnc(), ws, en)
	}
	switch b.Core {
	case "nop":
		w.core = zapcore.NewNopCore()
	case "off", "on", "bws", "bws-multi":
		w.core = leaf(0)
	case "bws-stopped":
		// shutdown path: the buffered sink has been used and stopped before the terminal call
		w.core = leaf(0)
		w.core.Write(zapcore.Entry{Level: zapcore.InfoLevel, Message: "earlier"}, nil)
		if err := w.bws[0].Stop(); err != nil {
			panic("HARNESS: Stop: " + err.Error())
		}
	case "tee-on-on", "tee-off-on", "tee-on-bws", "tee-fail-on", "tee-fail-bws":
		w.core = zapcore.NewTee(leaf(0), leaf(1))
	case "sampled-out":
		w.core = zapcore.NewSamplerWithOptions(leaf(0), time.Hour, 0, 0)
	case "tee-on-sampledout":
		// an audit core that takes everything, then a core behind a sampler that drops this entry
		w.core = zapcore.NewTee(leaf(0), zapcore.NewSamplerWithOptions(leaf(1), time.Hour, 0, 0))
	case "hooked-on":
		w.core = zapcore.RegisterHooks(leaf(0), func(zapcore.Entry) error { return nil })
	case "inc-off":
		c, err := zapcore.NewIncreaseLevelCore(leaf(0), off)
		if err != nil {
			panic("HARNESS: " + err.Error())
		}
		w.core = c
	default:
		panic("HARNESS: unknown core " + b.Core)
	}
	return w
}

// termUnderCount accepts everything and reports one byte less (it trimmed the line ending), without an error.
type termUnderCount struct{}

func (termUnderCount) Write(p []byte) (int, error) {
	if len(p) == 0 {
		return 0, nil
	}
	return len(p) - 1, nil
}
func (termUnderCount) Sync() error { return nil }

var termHangs int32

func (w *termWorld) stop() {
	for _, b := range w.bws {
		b.Stop()
	}
}

// termLogger builds the logger of the case. How the options reach it is varied deterministically with the case:
// all at construction; the hook options applied afterwards through WithOptions (as Config.Build and NewProduction do
// with caller-supplied options); and with caller annotation configured but unresolvable (a skip beyond the stack).
func termLogger(b termBeh, core zapcore.Core, custom zapcore.CheckWriteHook) *zap.Logger {
	opts := termOptions(b, custom)
	quiet := zap.ErrorOutput(zapcore.AddSync(io.Discard))
	h := len(b.Fe) + b.Lvl + len(b.Core) + len(b.Hook)
	var lg *zap.Logger
	if h%5 == 4 {
		// through zap.Config: development mode is a field of the configuration, next to unrelated ones
		cfg := zap.Config{Level: zap.NewAtomicLevelAt(zapcore.DebugLevel), Development: b.Dev, DisableStacktrace: h%2 == 0, DisableCaller: h%3 == 0,
			Encoding: "json", EncoderConfig: zap.NewProductionEncoderConfig()}
		nb := b
		nb.Dev = false
		copts := append(termOptions(nb, custom), quiet, zap.WrapCore(func(zapcore.Core) zapcore.Core { return core }))
		if l, err := cfg.Build(copts...); err == nil {
			return l
		}
	}
	switch h % 3 {
	case 0:
		lg = zap.New(core, append(opts, quiet)...)
	case 1:
		lg = zap.New(core, quiet).WithOptions(opts...)
	default:
		lg = zap.New(core, quiet).With(zap.Int("derived", 1)).Named("n").WithOptions(opts...)
	}
	if h%4 == 0 {
		lg = lg.WithOptions(zap.AddCaller(), zap.AddCallerSkip(100000))
	}
	return lg
}

func termOptions(b termBeh, custom zapcore.CheckWriteHook) []zap.Option {
	var opts []zap.Option
	if b.Dev {
		opts = append(opts, zap.Development())
	}
	switch b.Hook {
	case "nil":
		opts = append(opts, zap.WithFatalHook(nil), zap.WithPanicHook(nil))
	case "noop":
		opts = append(opts, zap.WithFatalHook(zapcore.WriteThenNoop), zap.WithPanicHook(zapcore.WriteThenNoop))
	case "custom":
		opts = append(opts, zap.WithFatalHook(custom), zap.WithPanicHook(custom))
	}
	return opts
}

// termCall performs the logging call of front end fe at level lvl.
func termCall(lg *zap.Logger, fe string, lvl zapcore.Level, termMsg string) {
	i := int(lvl) - int(zapcore.DPanicLevel)
	s := lg.Sugar()
	switch fe {
	case "logger":
		[]func(string, ...zap.Field){lg.DPanic, lg.Panic, lg.Fatal}[i](termMsg)
	case "logger.Log":
		lg.Log(lvl, termMsg)
	case "check":
		if ce := lg.Check(lvl, termMsg); ce != nil {
			ce.Write()
		}
	case "sugar":
		[]func(...interface{}){s.DPanic, s.Panic, s.Fatal}[i](termMsg)
	case "sugarf":
		[]func(string, ...interface{}){s.DPanicf, s.Panicf, s.Fatalf}[i]("%s", termMsg)
	case "sugarw":
		[]func(string, ...interface{}){s.DPanicw, s.Panicw, s.Fatalw}[i](termMsg, "k", 1)
	case "sugarln":
		[]func(...interface{}){s.DPanicln, s.Panicln, s.Fatalln}[i](termMsg)
	case "sugar.Logw":
		s.Logw(lvl, termMsg, "k", 1)
	case "stdlog":
		sl, err := zap.NewStdLogAt(lg, lvl)
		if err != nil {
			panic("HARNESS: NewStdLogAt: " + err.Error())
		}
		sl.Print(termMsg)
	case "grpc":
		zapgrpc.NewLogger(lg).Fatal(termMsg)
	case "grpcf":
		zapgrpc.NewLogger(lg).Fatalf("%s", termMsg)
	case "grpcln":
		zapgrpc.NewLogger(lg).Fatalln(termMsg)
	default:
		panic("HARNESS: unknown front end " + fe)
	}
}

type termHook struct {
	ran   int
	snap  func()
	other *zap.Logger
	saw   string
	sawL  zapcore.Level
}

func (h *termHook) OnWrite(ce *zapcore.CheckedEntry, _ []zapcore.Field) {
	h.ran++
	h.snap()
	// a crash reporter may log (through an unrelated logger) before it looks at the entry it was given
	if h.other != nil {
		h.other.Info("terminal hook invoked, flushing")
	}
	h.saw, h.sawL = ce.Message, ce.Level
}

func replayC06(c *Ctx, b termBeh, child bool) (finds []Finding) {
	if atomic.LoadInt32(&termHangs) >= 3 {
		// logging calls have stopped returning on failing destinations: reported; every further case of that kind
		// would only cost its watchdog time
		for _, lf := range b.Leaves {
			if lf.Fail {
				return nil
			}
		}
	}
	add := func(key, f string, a ...interface{}) {
		finds = append(finds, Finding{Key: key, What: fmt.Sprintf(f, a...)})
	}
	desc := fmt.Sprintf("%s at level %v (development=%v, hook=%s) on core %s", b.Fe, zapcore.Level(b.Lvl), b.Dev, b.Hook, b.Core)
	if child {
		return replayC06Child(c, b, desc)
	}
	if b.Ran == "exit1" {
		return nil
	}
	var snaps []termSnap
	w := termBuild(b, func(int) zapcore.WriteSyncer { return &termSink{} })
	defer w.stop()
	snapshot := func() {
		snaps = nil
		for _, s := range w.sinks {
			ts := s.(*termSink)
			ts.mu.Lock()
			has := false
			for _, l := range ts.lines {
				if strings.Contains(l, termNeedle(b)) && strings.HasSuffix(l, "\n") {
					has = true
				}
			}
			snaps = append(snaps, termSnap{InSink: has, Synced: has && ts.syncAt == len(ts.lines)})
			ts.mu.Unlock()
		}
	}
	hook := &termHook{snap: snapshot, other: zap.New(zapcore.NewCore(termEnc(), zapcore.AddSync(io.Discard), zapcore.DebugLevel))}
	lg := termLogger(b, w.core, hook)
	var recovered interface{}
	returned := false
	callDone := make(chan struct{})
	go func() {
		defer close(callDone)
		defer func() {
			recovered = recover()
			if hook.ran == 0 {
				snapshot()
			}
		}()
		termCall(lg, b.Fe, zapcore.Level(b.Lvl), termMsgOf(b))
		returned = true
	}()
	select {
	case <-callDone:
	case <-time.After(10 * time.Second):
		atomic.AddInt32(&termHangs, 1)
		add("C06/terminal-not-run", "%s: the logging call neither returned nor panicked within 10 s\n%s", desc, zapStacks())
		return finds
	}
	if s, ok := recovered.(string); ok && strings.HasPrefix(s, "HARNESS") {
		c.Inconclusive("%s: %s", desc, s)
		return nil
	}
	switch b.Ran {
	case "none":
		if recovered != nil {
			add("C06/terminal-ran-unexpectedly", "%s: panicked with %v although no terminal action applies", desc, recovered)
		}
		if hook.ran != 0 {
			add("C06/terminal-ran-unexpectedly", "%s: the custom hook ran although no terminal action applies", desc)
		}
	case "custom":
		if hook.ran != 1 {
			add("C06/terminal-not-run", "%s: the configured terminal hook ran %d times (returned=%v, recovered=%v)", desc, hook.ran, returned, recovered)
		}
		if recovered != nil {
			add("C06/panic", "%s: panicked with %v although a custom hook is configured", desc, recovered)
		}
		if hook.ran == 1 && (hook.saw != termMsgOf(b) || hook.sawL != zapcore.Level(b.Lvl)) {
			add("C06/hook-sees-other-entry", "%s: the terminal hook was handed an entry reading %v %q; it logged %v %q", desc, hook.sawL, hook.saw, zapcore.Level(b.Lvl), termMsgOf(b))
		}
	case "panic":
		if recovered == nil {
			add("C06/terminal-not-run", "%s: the call returned normally; the panic action did not run", desc)
		} else if fmt.Sprint(recovered) != termMsgOf(b) {
			add("C06/panic-value", "%s: panic value %q does not carry the message %q", desc, fmt.Sprint(recovered), termMsgOf(b))
		}
		if hook.ran != 0 {
			add("C06/terminal-ran-unexpectedly", "%s: custom hook ran for hook setting %s", desc, b.Hook)
		}
	}
	if b.Ran != "none" {
		for i, lf := range b.Leaves {
			if !lf.Acc || lf.Fail {
				continue
			}
			if i >= len(snaps) || !snaps[i].InSink {
				add("C06/not-written-before-terminal", "%s: accepting core %d did not have the complete line in its sink when the terminal action ran", desc, i)
			} else if !snaps[i].Synced {
				add("C06/not-synced-before-terminal", "%s: the sink of accepting core %d was not synced after the final line when the terminal action ran", desc, i)
			}
		}
	}
	for i, lf := range b.Leaves {
		if !lf.Acc && i < len(snaps) && snaps[i].InSink {
			add("C06/written-to-disabled-core", "%s: core %d does not accept the level but received the entry", desc, i)
		}
	}
	return finds
}

// ---- child process: default fatal (and panic) actions -----------------------

func replayC06Child(c *Ctx, b termBeh, desc string) (finds []Finding) {
	add := func(key, f string, a ...interface{}) {
		finds = append(finds, Finding{Key: key, What: fmt.Sprintf(f, a...)})
	}
	dir, err := os.MkdirTemp(filepath.Join(Root, "out"), "c06-")
	if err != nil {
		c.Inconclusive("tempdir: %v", err)
		return nil
	}
	defer os.RemoveAll(dir)
	arg, _ := json.Marshal(b)
	exe, _ := os.Executable()
	cmd := exec.Command(exe, "child", "c06", string(arg), dir)
	var out bytes.Buffer
	cmd.Stdout = &out
	cmd.Stderr = &out
	done := make(chan error, 1)
	if err := cmd.Start(); err != nil {
		c.Inconclusive("child start: %v", err)
		return nil
	}
	go func() { done <- cmd.Wait() }()
	select {
	case err = <-done:
	case <-time.After(60 * time.Second):
		cmd.Process.Kill()
		c.Inconclusive("%s: child process hung", desc)
		return nil
	}
	code := 0
	if ee, ok := err.(*exec.ExitError); ok {
		code = ee.ExitCode()
	} else if err != nil {
		c.Inconclusive("child: %v", err)
		return nil
	}
	o := out.String()
	if strings.Contains(o, "HARNESS") {
		c.Inconclusive("%s: child: %s", desc, o)
		return nil
	}
	switch b.Ran {
	case "exit1":
		if strings.Contains(o, "C06-RETURNED") {
			add("C06/terminal-not-run", "%s: control returned to the caller after a Fatal entry (the process did not exit)", desc)
		} else if code != 1 {
			add("C06/exit-status", "%s: process ended with status %d, want 1; output: %.300s", desc, code, o)
		}
	case "panic":
		if strings.Contains(o, "C06-RETURNED") {
			add("C06/terminal-not-run", "%s: control returned to the caller; the panic action did not run", desc)
		} else if code != 2 || !strings.Contains(o, "panic: ") || !strings.Contains(o, strings.SplitN(termMsgOf(b), " ", 2)[0]) {
			add("C06/panic-value", "%s: process ended with status %d and output %.300s; want a panic carrying the message", desc, code, o)
		}
	}
	for i, lf := range b.Leaves {
		data, _ := os.ReadFile(filepath.Join(dir, fmt.Sprintf("sink%d.log", i)))
		has := strings.Contains(string(data), termNeedle(b)) && strings.HasSuffix(string(data), "\n")
		if lf.Acc && !lf.Fail && !has {
			add("C06/not-written-before-terminal", "%s: after the process ended, the file of accepting core %d does not contain the complete final line (content %q)", desc, i, string(data))
		}
		if !lf.Acc && has {
			add("C06/written-to-disabled-core", "%s: core %d does not accept the level but its file has the entry", desc, i)
		}
	}
	return finds
}

func childC06(args []string) {
	var b termBeh
	if err := json.Unmarshal([]byte(args[0]), &b); err != nil {
		fmt.Println("HARNESS bad case:", err)
		os.Exit(3)
	}
	dir := args[1]
	w := termBuild(b, func(i int) zapcore.WriteSyncer {
		f, err := os.OpenFile(filepath.Join(dir, fmt.Sprintf("sink%d.log", i)), os.O_CREATE|os.O_WRONLY|os.O_APPEND, 0o644)
		if err != nil {
			fmt.Println("HARNESS open:", err)
			os.Exit(3)
		}
		return f
	})
	lg := termLogger(b, w.core, nil)
	termCall(lg, b.Fe, zapcore.Level(b.Lvl), termMsgOf(b))
	fmt.Println("C06-RETURNED")
	os.Exit(0)
}

// ---- a terminal entry through a lock-protected buffering sink while another goroutine holds that lock ----
// (Terminal.tla: SinkWrite(i) and SyncSink(i) of the terminal call are separate steps; between them another
// goroutine may enter the same lock-protected sink. SyncSink must then wait for the lock, not skip.)

type termBufSink struct {
	mu      sync.Mutex
	buf     []string
	flushed []string
	park    chan struct{} // when non-nil, a Write of "chatter" parks here (inside the lock wrapper)
	parked  chan struct{}
}

func (s *termBufSink) Write(p []byte) (int, error) {
	if strings.Contains(string(p), "chatter") && s.park != nil {
		close(s.parked)
		<-s.park
	}
	s.mu.Lock()
	s.buf = append(s.buf, string(p))
	s.mu.Unlock()
	return len(p), nil
}
func (s *termBufSink) Sync() error {
	s.mu.Lock()
	s.flushed = append(s.flushed, s.buf...)
	s.buf = nil
	s.mu.Unlock()
	return nil
}

type termGate2 struct {
	reached chan struct{}
	release chan struct{}
	once    sync.Once
}

func (g *termGate2) Write(p []byte) (int, error) {
	if strings.Contains(string(p), "final-message") {
		g.once.Do(func() { close(g.reached); <-g.release })
	}
	return len(p), nil
}
func (g *termGate2) Sync() error { return nil }

func replayLockedSyncContention() (finds []Finding) {
	for _, lvl := range []zapcore.Level{zapcore.PanicLevel, zapcore.FatalLevel, zapcore.DPanicLevel} {
		inner := &termBufSink{park: make(chan struct{}), parked: make(chan struct{})}
		locked := zapcore.Lock(inner)
		gate := &termGate2{reached: make(chan struct{}), release: make(chan struct{})}
		// the terminal call writes to the locked buffering sink first, then (outside that lock) to the gate
		core := zapcore.NewCore(termEnc(), zapcore.NewMultiWriteSyncer(locked, gate), zapcore.DebugLevel)
		var atHook []string
		hook := &termHook{snap: func() {
			inner.mu.Lock()
			atHook = append([]string(nil), inner.flushed...)
			inner.mu.Unlock()
		}}
		lg := zap.New(core, zap.WithFatalHook(hook), zap.WithPanicHook(hook), zap.Development(), zap.ErrorOutput(zapcore.AddSync(io.Discard)))
		done := make(chan struct{})
		go func() {
			defer close(done)
			defer func() { recover() }()
			lg.Log(lvl, termMsgText)
		}()
		select {
		case <-gate.reached:
		case <-time.After(3 * time.Second):
			continue
		}
		// another goroutine enters the locked sink and stays inside
		chatter := make(chan struct{})
		go func() { defer close(chatter); locked.Write([]byte("chatter\n")) }()
		select {
		case <-inner.parked:
		case <-time.After(3 * time.Second):
			close(gate.release)
			continue
		}
		close(gate.release) // the terminal call goes on to Sync the locked sink: it has to wait for the lock
		time.Sleep(20 * time.Millisecond)
		close(inner.park)
		<-chatter
		select {
		case <-done:
		case <-time.After(5 * time.Second):
			finds = append(finds, Finding{Key: "C06/terminal-not-run", What: fmt.Sprintf("a %v entry through a lock-protected sink never completed while another writer used the sink", lvl)})
			continue
		}
		ok := false
		for _, l := range atHook {
			if strings.Contains(l, "final-message") {
				ok = true
			}
		}
		if hook.ran != 1 {
			finds = append(finds, Finding{Key: "C06/terminal-not-run", What: fmt.Sprintf("%v entry: the terminal hook ran %d times", lvl, hook.ran)})
		} else if !ok {
			finds = append(finds, Finding{Key: "C06/not-synced-before-terminal", What: fmt.Sprintf("a %v entry was written to a lock-protected buffering sink; another goroutine held that sink's lock when the entry's Sync was due; when the terminal action ran the entry was still in the buffer (flushed so far: %q)", lvl, atHook)})
		}
	}
	return finds
}

// ---- a flush tick between the terminal entry's Write and its Sync, on a slow destination ----

type termSlowSink struct {
	mu      sync.Mutex
	data    []byte
	entered chan struct{}
	release chan struct{}
	once    sync.Once
}

func (s *termSlowSink) Write(p []byte) (int, error) {
	cp := append([]byte(nil), p...)
	s.once.Do(func() { close(s.entered); <-s.release })
	s.mu.Lock()
	s.data = append(s.data, cp...)
	s.mu.Unlock()
	return len(p), nil
}
func (s *termSlowSink) Sync() error { return nil }

// replayTickBeforeTerminalSync: the entry is in the BufferedWriteSyncer's buffer; the periodic flush fires and is
// busy writing to a slow destination when the entry's own Sync (before the terminal action) arrives. When the
// terminal action runs, the entry is at the destination.
func replayTickBeforeTerminalSync() (finds []Finding) {
	defer func() { zapcore.VerifHook = nil }()
	for _, lvl := range []zapcore.Level{zapcore.FatalLevel, zapcore.PanicLevel} {
		sink := &termSlowSink{entered: make(chan struct{}), release: make(chan struct{})}
		clk := newHarnessClock()
		bws := &zapcore.BufferedWriteSyncer{WS: sink, Size: 4096, FlushInterval: time.Hour, Clock: clk}
		core := zapcore.NewCore(termEnc(), bws, zapcore.DebugLevel)
		atHook := ""
		hook := &termHook{snap: func() { sink.mu.Lock(); atHook = string(sink.data); sink.mu.Unlock() }}
		lg := zap.New(core, zap.WithFatalHook(hook), zap.WithPanicHook(hook), zap.ErrorOutput(zapcore.AddSync(io.Discard)))
		lg.Info("warm-up") // starts the flush loop; stays in the buffer
		var fired int32
		zapcore.VerifHook = func(site string, obj interface{}, a, b int64) {
			if site != "bws.y.enter" || obj != interface{}(bws) || !atomic.CompareAndSwapInt32(&fired, 0, 1) {
				return
			}
			// the entry's own Sync is about to start: the periodic flush gets in first and reaches the destination
			clk.ch <- time.Now()
			select {
			case <-sink.entered:
			case <-time.After(2 * time.Second):
			}
			go func() { time.Sleep(60 * time.Millisecond); close(sink.release) }()
		}
		done := make(chan struct{})
		go func() {
			defer close(done)
			defer func() { recover() }()
			lg.Log(lvl, termMsgText)
		}()
		select {
		case <-done:
		case <-time.After(5 * time.Second):
			finds = append(finds, Finding{Key: "C06/terminal-not-run", What: fmt.Sprintf("a %v entry through a BufferedWriteSyncer never completed when a flush tick fired before its Sync", lvl)})
			continue
		}
		zapcore.VerifHook = nil
		if atomic.LoadInt32(&fired) == 0 {
			finds = append(finds, Finding{Key: "HARNESS/C06-tick", What: "the entry's Sync was never observed"})
			continue
		}
		if hook.ran != 1 {
			finds = append(finds, Finding{Key: "C06/terminal-not-run", What: fmt.Sprintf("%v entry: the terminal hook ran %d times", lvl, hook.ran)})
		} else if !strings.Contains(atHook, "final-message") {
			finds = append(finds, Finding{Key: "C06/not-written-before-terminal", What: fmt.Sprintf("a %v entry was written to a BufferedWriteSyncer; the periodic flush fired before the entry's own Sync and was still writing to a slow destination; when the terminal action ran the destination held %q", lvl, atHook)})
		}
		go func() { defer func() { recover() }(); bws.Stop() }()
	}
	return finds
}
