package main

import (
	"time"
	"io"
	"sync"
	"context"
	"encoding/json"
	"fmt"
	"log"
	"log/slog"
	"math/rand"
	"runtime"
	"strings"

	"go.uber.org/zap"
	"go.uber.org/zap/exp/zapslog"
	"go.uber.org/zap/zapcore"
	"go.uber.org/zap/zaptest/observer"
)

// C15 — caller and stack annotations identify the user's call site.
// Spec: CallerSkip.tla. Every chain of conversions / options TLC generates is applied to a
// real logger and every front end is called from generated call sites that record their own
// line; real frames come from the Go runtime, so a wrong constant or an extra helper frame shows.

func init() { register("C15", checkC15) }

type csBeh struct {
	Chain   []string `json:"chain"`
	Sugared bool     `json:"sugared"`
	Extra   int      `json:"extra"`
	Skip    int      `json:"skip"`
}

var csMutants = []map[string]string{
	{"Offset": "1"}, {"Offset": "3"}, {"SugarAdd": "1"}, {"DesugarSub": "0"}, {"StdDepth": "2"}, {"GrowSkip": "1"}, {"GrowTest": `"gt"`},
}

// c15w: the logger under test and what the call sites recorded about themselves.
type c15w struct {
	l     *zap.Logger
	s     *zap.SugaredLogger
	std   *log.Logger
	slg   *slog.Logger
	fe    int
	lines [12]int
	lvl   zapcore.Level
}

func c15ln() int { _, _, l, _ := runtime.Caller(1); return l }

const c15NumFE = 16

// c15f0 holds the log calls; each records its own line on the same source line.
//
//go:noinline
func c15f0(w *c15w) {
	switch w.fe {
	case 0:
		w.lines[0] = c15ln(); w.l.Log(w.lvl, "m")
	case 1:
		w.lines[0] = c15ln(); ce := w.l.Check(w.lvl, "m")
		if ce != nil {
			ce.Write()
		}
	case 2:
		if w.lvl == zapcore.WarnLevel {
			w.lines[0] = c15ln(); w.l.Warn("m")
		} else {
			w.lines[0] = c15ln(); w.l.Info("m")
		}
	case 3:
		w.lines[0] = c15ln(); w.l.With(zap.Int("a", 1)).Named("n").Log(w.lvl, "m")
	case 4:
		w.lines[0] = c15ln(); w.s.Logw(w.lvl, "m", "k", 1)
	case 5:
		w.lines[0] = c15ln(); w.s.Logf(w.lvl, "m%d", 1)
	case 6:
		w.lines[0] = c15ln(); w.s.Log(w.lvl, "m")
	case 7:
		w.lines[0] = c15ln(); w.s.Logln(w.lvl, "m")
	case 8:
		if w.lvl == zapcore.WarnLevel {
			w.lines[0] = c15ln(); w.s.Warnw("m", "k", 1)
		} else {
			w.lines[0] = c15ln(); w.s.Infow("m", "k", 1)
		}
	case 9:
		if w.lvl == zapcore.WarnLevel {
			w.lines[0] = c15ln(); w.s.Warnf("m%d", 1)
		} else {
			w.lines[0] = c15ln(); w.s.Infof("m%d", 1)
		}
	case 10:
		if w.lvl == zapcore.WarnLevel {
			w.lines[0] = c15ln(); w.s.Warn("m")
		} else {
			w.lines[0] = c15ln(); w.s.Info("m")
		}
	case 11:
		if w.lvl == zapcore.WarnLevel {
			w.lines[0] = c15ln(); w.s.Warnln("m")
		} else {
			w.lines[0] = c15ln(); w.s.Infoln("m")
		}
	case 12:
		w.lines[0] = c15ln(); w.s.With("a", 1).Named("n").Logw(w.lvl, "m")
	case 13:
		w.lines[0] = c15ln(); w.std.Print("m")
	case 14:
		w.lines[0] = c15ln(); w.std.Printf("m%d", 1)
	case 15:
		w.lines[0] = c15ln(); log.Print("m") // the global logger, redirected
	}
}

//go:noinline
func c15deep(n int, w *c15w, f func(*c15w)) {
	if n <= 1 {
		f(w)
		return
	}
	c15deep(n-1, w, f)
}

//go:noinline
func c15f1(w *c15w) { w.lines[1] = c15ln(); c15f0(w) }

//go:noinline
func c15f2(w *c15w) { w.lines[2] = c15ln(); c15f1(w) }

//go:noinline
func c15f3(w *c15w) { w.lines[3] = c15ln(); c15f2(w) }

//go:noinline
func c15f4(w *c15w) { w.lines[4] = c15ln(); c15f3(w) }

//go:noinline
func c15f5(w *c15w) { w.lines[5] = c15ln(); c15f4(w) }

//go:noinline
func c15f6(w *c15w) { w.lines[6] = c15ln(); c15f5(w) }

//go:noinline
func c15f7(w *c15w) { w.lines[7] = c15ln(); c15f6(w) }

//go:noinline
func c15f8(w *c15w) { w.lines[8] = c15ln(); c15f7(w) }

//go:noinline
func c15f9(w *c15w) { w.lines[9] = c15ln(); c15f8(w) }

//go:noinline
func c15f10(w *c15w) { w.lines[10] = c15ln(); c15f9(w) }

//go:noinline
func c15f11(w *c15w) { w.lines[11] = c15ln(); c15f10(w) }

var c15fs = []func(*c15w){c15f0, c15f1, c15f2, c15f3, c15f4, c15f5, c15f6, c15f7, c15f8, c15f9, c15f10, c15f11}

func checkC15(c *Ctx) {
	c.Assume("call sites are generated functions c15f0..c15f11 that record their own line on the line of the call; the expected frame for a configured extra skip k is c15f<k> at the line where it calls the next function")
	c.Assume("slog: the handler reports the PC slog itself recorded (through slog.Logger methods); its stack trace threshold is compared on slog levels")
	c.MustTLC(TLCOpts{Module: "CallerSkip", Cfg: "CallerSkip.check"})
	for _, m := range csMutants {
		c.MustTLC(TLCOpts{Module: "CallerSkip", Cfg: "CallerSkip.check", Consts: m, ExpectViolation: true})
	}
	depths := []int{1, 2, 62, 63, 64, 65, 127, 128, 129, 300}
	n := 0
	rng := rand.New(rand.NewSource(c.Seed))
	for _, mc := range []int{0, 1, 2, 3, c.Pick(4, 5)} {
		c.MustTLC(TLCOpts{Module: "CallerSkip", Cfg: "CallerSkip.check", Gen: true, Workers: 1, Consts: map[string]string{"MaxChain": fmt.Sprint(mc), "Emit": "TRUE"}, OnBeh: func(raw json.RawMessage) {
			if c.Saturated() {
				return
			}
			var b csBeh
			if err := json.Unmarshal(raw, &b); err != nil {
				c.Inconclusive("bad CallerSkip behaviour: %v", err)
				return
			}
			n++
			if b.Extra > 11 {
				return
			}
			if n%997 == 1 {
				c.Sample(b)
			}
			depth := 0
			if n%7 == 0 || mc <= 1 {
				depth = depths[rng.Intn(len(depths))]
			}
			for _, f := range replayCallerSkip(b, rng.Int63(), depth) {
				c.Violation(f.Key, f.What, map[string]interface{}{"beh": b, "depth": depth})
			}
			c.Add("traces_validated_against_impl", 1)
		}})
	}
	// deep stacks on every depth class, with the stack pool emptied first
	for _, d := range depths {
		for _, sug := range []bool{false, true} {
			chain := []string{}
			if sug {
				chain = []string{"Sugar"}
			}
			runtime.GC()
			runtime.GC()
			for _, f := range replayCallerSkip(csBeh{Chain: chain, Sugared: sug}, int64(d), d) {
				c.Violation(f.Key, f.What, map[string]interface{}{"depth": d, "sugared": sug})
			}
			c.Add("traces_validated_against_impl", 1)
		}
	}
	// stack-trace levels are enablers: thresholds, AtomicLevels moved at run time, arbitrary sets
	c.MustTLC(TLCOpts{Module: "StackLevels", Cfg: "StackLevels.check"})
	c.MustTLC(TLCOpts{Module: "StackLevels", Cfg: "StackLevels.check", Consts: map[string]string{"Read": `"frozen"`}, ExpectViolation: true})
	nsl := 0
	c.MustTLC(TLCOpts{Module: "StackLevels", Cfg: "StackLevels.check", Gen: true, Consts: map[string]string{"Emit": "TRUE", "MaxSteps": fmt.Sprint(c.Pick(3, 4))}, OnBeh: func(raw json.RawMessage) {
		if c.Saturated() {
			return
		}
		var b slBeh
		if err := json.Unmarshal(raw, &b); err != nil {
			c.Inconclusive("bad StackLevels behaviour: %v", err)
			return
		}
		nsl++
		if b.Kind != "set" && len(b.En0) == 0 {
			return
		}
		for _, f := range replayStackLevels(b, nsl) {
			c.Violation(f.Key, f.What, map[string]interface{}{"mode": "stack-levels", "beh": b, "variant": nsl})
		}
		c.Add("traces_validated_against_impl", 1)
	}})
	c.Set("stack_level_histories", int64(nsl))
	for _, f := range replayCallerConcurrent(c.Pick(6, 60)) {
		c.Violation(f.Key, f.What, map[string]interface{}{"mode": "concurrent-after-unresolvable-caller"})
	}
	for _, f := range replaySlogCaller() {
		c.Violation(f.Key, f.What, nil)
	}
	for _, f := range replaySlogCallerConcurrent() {
		c.Violation(f.Key, f.What, map[string]interface{}{"mode": "slog-caller-concurrent"})
	}
	for _, f := range replayVolatileStackEnabler() {
		c.Violation(f.Key, f.What, map[string]interface{}{"mode": "volatile-stack-enabler"})
	}
	for _, f := range replaySlogSkip() {
		c.Violation(f.Key, f.What, map[string]interface{}{"mode": "slog-caller-skip"})
	}
	for _, f := range replayPanicStack() {
		c.Violation(f.Key, f.What, nil)
	}
	c.Set("chains", int64(n))
	c.Set("exhaustive", true)
	c.Set("rule", "every chain of <=4 (thorough 5) conversions/options of CallerSkip.tla x every front end of the resulting logger kind x Info and Warn (stack threshold); deep stacks of 1..300 frames with an emptied stack pool; the slog handler for slog levels -8..12 x thresholds")
}

func replayCallerSkip(b csBeh, seed int64, depth int) (finds []Finding) {
	rng := rand.New(rand.NewSource(seed))
	add := func(key, f string, a ...interface{}) {
		if len(finds) < 4 {
			finds = append(finds, Finding{Key: key, What: fmt.Sprintf(f, a...) + fmt.Sprintf(" [chain %v, extra skip %d, stack depth %d]", b.Chain, b.Extra, depth)})
		}
	}
	defer func() {
		if p := recover(); p != nil {
			add("C15/panic", "panicked: %v", p)
		}
	}()
	core, logs := observer.New(zapcore.DebugLevel)
	annotateAt := rng.Intn(len(b.Chain) + 1)
	if seed%2 == 0 {
		annotateAt = 0 // then every logger met along the chain is annotated and is re-used at the end
	}
	type snap struct {
		l     *zap.Logger
		s     *zap.SugaredLogger
		sug   bool
		extra int
	}
	var snaps []snap
	extraNow := 0
	annot := []zap.Option{zap.AddCaller(), zap.AddStacktrace(zapcore.WarnLevel)}
	var l *zap.Logger
	var s *zap.SugaredLogger
	if annotateAt == 0 {
		l = zap.New(core, annot...)
	} else {
		l = zap.New(core)
	}
	sug := false
	for i, op := range b.Chain {
		switch op {
		case "Sugar":
			s, sug = l.Sugar(), true
		case "Desugar":
			l, sug = s.Desugar(), false
		case "AddCallerSkip1", "AddCallerSkip2":
			k := 1
			if op == "AddCallerSkip2" {
				k = 2
			}
			if sug {
				s = s.WithOptions(zap.AddCallerSkip(k))
			} else {
				l = l.WithOptions(zap.AddCallerSkip(k))
			}
		case "With":
			if sug {
				s = s.With("w", i)
			} else {
				l = l.With(zap.Int("w", i))
			}
		case "Named":
			if sug {
				s = s.Named("n")
			} else {
				l = l.Named("n")
			}
		}
		if annotateAt == i+1 {
			if sug {
				s = s.WithOptions(annot...)
			} else {
				l = l.WithOptions(annot...)
			}
		}
		if op == "AddCallerSkip1" {
			extraNow++
		} else if op == "AddCallerSkip2" {
			extraNow += 2
		}
		snaps = append(snaps, snap{l, s, sug, extraNow})
	}
	// converting or deriving must not disturb the loggers it started from: every logger met along the chain is
	// used again now, after all later conversions
	if annotateAt == 0 && depth == 0 {
		for si, sn := range snaps[:max0(len(snaps)-1)] {
			if sn.extra > 11 {
				continue
			}
			w := &c15w{l: sn.l, s: sn.s, fe: 2, lvl: zapcore.InfoLevel}
			if sn.sug {
				w.fe = 8
			}
			logs.TakeAll()
			c15fs[sn.extra](w)
			es := logs.TakeAll()
			wantFn := fmt.Sprintf("main.c15f%d", sn.extra)
			if len(es) != 1 || !es[0].Caller.Defined || es[0].Caller.Function != wantFn || es[0].Caller.Line != w.lines[sn.extra] {
				got := "nothing"
				if len(es) == 1 {
					got = fmt.Sprintf("%s:%d (%s)", es[0].Caller.File, es[0].Caller.Line, es[0].Caller.Function)
				}
				add("C15/caller-differs", "the logger obtained after step %d of the chain, used again after the later conversions, reports caller %s; its call site is c15.go:%d (%s)", si+1, got, w.lines[sn.extra], wantFn)
			}
		}
	}
	w := &c15w{l: l, s: s}
	fes := []int{0, 1, 2, 3, 13, 14, 15}
	if sug {
		fes = []int{4, 5, 6, 7, 8, 9, 10, 11, 12}
	} else {
		w.std = zap.NewStdLog(l)
	}
	for _, fe := range fes {
		for _, lvl := range []zapcore.Level{zapcore.InfoLevel, zapcore.WarnLevel} {
			if fe >= 13 && lvl == zapcore.WarnLevel {
				// the std-log bridge logs at one level: use NewStdLogAt for the other
				sl, err := zap.NewStdLogAt(l, zapcore.WarnLevel)
				if err != nil {
					add("C15/error", "NewStdLogAt: %v", err)
					continue
				}
				w.std = sl
			} else if fe >= 13 {
				w.std = zap.NewStdLog(l)
			}
			var undo func()
			if fe == 15 {
				if lvl == zapcore.WarnLevel {
					u, err := zap.RedirectStdLogAt(l, zapcore.WarnLevel)
					if err != nil {
						continue
					}
					undo = u
				} else {
					undo = zap.RedirectStdLog(l)
				}
			}
			w.fe, w.lvl = fe, lvl
			logs.TakeAll()
			entry := c15fs[b.Extra]
			if depth > 0 {
				c15deep(depth, w, entry)
			} else {
				entry(w)
			}
			if undo != nil {
				undo()
			}
			es := logs.TakeAll()
			what := fmt.Sprintf("front end %d at %v", fe, lvl)
			if len(es) != 1 {
				add("C15/entry-count", "%s: %d entries recorded", what, len(es))
				continue
			}
			e := es[0]
			wantFn := fmt.Sprintf("main.c15f%d", b.Extra)
			wantLine := w.lines[b.Extra]
			if !e.Caller.Defined {
				add("C15/caller-undefined", "%s: entry carries no caller although AddCaller is configured", what)
			} else if e.Caller.Function != wantFn || e.Caller.Line != wantLine || !strings.HasSuffix(e.Caller.File, "/c15.go") {
				add("C15/caller-differs", "%s: caller %s:%d (%s), the user's call site moved out by %d is c15.go:%d (%s)", what, e.Caller.File, e.Caller.Line, e.Caller.Function, b.Extra, wantLine, wantFn)
			}
			if lvl < zapcore.WarnLevel {
				if e.Stack != "" {
					add("C15/stack-attached-below-threshold", "%s: a stack trace is attached below the configured level", what)
				}
				continue
			}
			if e.Stack == "" {
				add("C15/stack-missing", "%s: no stack trace at the configured level", what)
				continue
			}
			first := strings.SplitN(e.Stack, "\n", 2)[0]
			if first != wantFn {
				add("C15/stack-first-frame", "%s: stack starts at %q, want %s (the reported caller)", what, first, wantFn)
			}
			if depth > 0 {
				if got := strings.Count(e.Stack, "main.c15deep\n"); got != depth {
					add("C15/stack-incomplete", "%s: stack shows %d of %d recursion frames", what, got, depth)
				}
			}
			if !strings.Contains(e.Stack, "main.replayCallerSkip\n") || !strings.Contains(e.Stack, "main.main\n") {
				add("C15/stack-incomplete", "%s: stack does not reach the bottom of the call chain: …%q", what, tailStr(e.Stack, 200))
			}
		}
	}
	return finds
}

func tailStr(s string, n int) string {
	if len(s) > n {
		return s[len(s)-n:]
	}
	return s
}

//go:noinline
func c15slog(lg *slog.Logger, lvl slog.Level, line *int) {
	*line = c15ln(); lg.Log(context.Background(), lvl, "m")
}

//go:noinline
func c15slogInfo(lg *slog.Logger, line *int) {
	*line = c15ln(); lg.Info("m", "k", 1)
}

//go:noinline
func c15panicInner(p *int) int { return *p } // nil dereference

//go:noinline
func c15panicOuter(l *zap.Logger, s *zap.SugaredLogger) {
	defer func() {
		r := recover()
		if s != nil {
			s.Warnw("recovered", "r", fmt.Sprint(r))
		} else {
			l.Warn("recovered", zap.Any("r", fmt.Sprint(r)))
		}
	}()
	c15panicInner(nil)
}

//go:noinline
func c15slogW1(lg *slog.Logger, lvl slog.Level, line *int) { c15slog(lg, lvl, line) }

//go:noinline
func c15slogW2(lg *slog.Logger, lvl slog.Level, line *int) { c15slogW1(lg, lvl, line) }

// replaySlogSkip: WithCallerSkip(k) moves the start of the stack trace out by k wrapper frames, on the handler
// it was given to and on every handler derived from it; the caller stays the call site slog recorded.
func replaySlogSkip() (finds []Finding) {
	add := func(key, f string, a ...interface{}) {
		if len(finds) < 4 {
			finds = append(finds, Finding{Key: key, What: fmt.Sprintf(f, a...)})
		}
	}
	wantFirst := []string{"main.c15slog", "main.c15slogW1", "main.c15slogW2"}
	for k := 0; k <= 2; k++ {
		core, logs := observer.New(zapcore.DebugLevel)
		h := zapslog.NewHandler(core, zapslog.WithCaller(true), zapslog.WithCallerSkip(k), zapslog.AddStacktraceAt(slog.LevelWarn))
		hs := map[string]slog.Handler{
			"the handler itself":    h,
			"WithAttrs":             h.WithAttrs([]slog.Attr{slog.Int("a", 1)}),
			"WithGroup":             h.WithGroup("g"),
			"WithGroup+WithAttrs":   h.WithGroup("g").WithAttrs([]slog.Attr{slog.Int("a", 1)}),
			"WithAttrs+WithGroup x2": h.WithAttrs([]slog.Attr{slog.Int("a", 1)}).WithGroup("g").WithGroup("h"),
		}
		for name, hh := range hs {
			logs.TakeAll()
			line := 0
			c15slogW2(slog.New(hh), slog.LevelError, &line)
			es := logs.TakeAll()
			if len(es) != 1 {
				add("C15/entry-count", "slog handler (%s, caller skip %d): %d entries", name, k, len(es))
				continue
			}
			e := es[0]
			if !e.Caller.Defined || e.Caller.Function != "main.c15slog" || e.Caller.Line != line {
				add("C15/caller-differs", "slog handler (%s, caller skip %d) reports caller %s:%d (%s), slog recorded c15.go:%d (main.c15slog)", name, k, e.Caller.File, e.Caller.Line, e.Caller.Function, line)
			}
			if first := strings.SplitN(e.Stack, "\n", 2)[0]; first != wantFirst[k] {
				add("C15/stack-first-frame", "slog handler (%s) with WithCallerSkip(%d): stack starts at %q, want %s", name, k, first, wantFirst[k])
			}
		}
	}
	return finds
}

// replayPanicStack: an entry logged from a deferred function while a panic unwinds still shows the whole chain.
func replayPanicStack() (finds []Finding) {
	core, logs := observer.New(zapcore.DebugLevel)
	l := zap.New(core, zap.AddCaller(), zap.AddStacktrace(zapcore.WarnLevel))
	for _, sug := range []bool{false, true} {
		logs.TakeAll()
		if sug {
			c15panicOuter(nil, l.Sugar())
		} else {
			c15panicOuter(l, nil)
		}
		es := logs.TakeAll()
		if len(es) != 1 {
			continue
		}
		for _, fn := range []string{"main.c15panicInner\n", "main.c15panicOuter\n", "main.replayPanicStack\n", "main.main\n"} {
			if !strings.Contains(es[0].Stack, fn) {
				finds = append(finds, Finding{Key: "C15/stack-incomplete", What: fmt.Sprintf("an entry logged from a deferred function during a panic (sugared=%v): the stack lacks %q: %q", sug, strings.TrimSpace(fn), tailStr(es[0].Stack, 600))})
				break
			}
		}
	}
	return finds
}

func replaySlogCaller() (finds []Finding) {
	add := func(key, f string, a ...interface{}) {
		if len(finds) < 4 {
			finds = append(finds, Finding{Key: key, What: fmt.Sprintf(f, a...)})
		}
	}
	for _, thr := range []slog.Level{slog.LevelDebug, slog.LevelInfo, slog.LevelWarn, slog.LevelWarn + 2, slog.LevelError, slog.LevelError + 4} {
		core, logs := observer.New(zapcore.DebugLevel)
		h := zapslog.NewHandler(core, zapslog.WithCaller(true), zapslog.AddStacktraceAt(thr))
		for _, lg := range []*slog.Logger{slog.New(h), slog.New(h.WithGroup("g").WithAttrs([]slog.Attr{slog.Int("a", 1)})), slog.New(h).With("k", 1)} {
			for lvl := slog.Level(-8); lvl <= 12; lvl++ {
				logs.TakeAll()
				line := 0
				c15slog(lg, lvl, &line)
				es := logs.TakeAll()
				if len(es) != 1 {
					add("C15/entry-count", "slog level %d: %d entries", lvl, len(es))
					continue
				}
				e := es[0]
				if !e.Caller.Defined || e.Caller.Function != "main.c15slog" || e.Caller.Line != line {
					add("C15/caller-differs", "slog handler reports caller %s:%d (%s), slog recorded c15.go:%d (main.c15slog)", e.Caller.File, e.Caller.Line, e.Caller.Function, line)
				}
				if (lvl >= thr) != (e.Stack != "") {
					add("C15/stack-threshold", "slog record at level %d with AddStacktraceAt(%d): stack attached = %v", lvl, thr, e.Stack != "")
				}
				if e.Stack != "" && strings.SplitN(e.Stack, "\n", 2)[0] != "main.c15slog" {
					add("C15/stack-first-frame", "slog stack starts at %q, want main.c15slog", strings.SplitN(e.Stack, "\n", 2)[0])
				}
			}
			logs.TakeAll()
			line := 0
			c15slogInfo(lg, &line)
			if es := logs.TakeAll(); len(es) != 1 || es[0].Caller.Line != line || es[0].Caller.Function != "main.c15slogInfo" {
				add("C15/caller-differs", "slog.Logger.Info: caller %+v, want line %d in main.c15slogInfo", es, line)
			}
		}
	}
	return finds
}

// ---- stack-trace levels as enablers (StackLevels.tla) ----

type slStep struct {
	Op     string `json:"op"`
	Lvl    int    `json:"lvl"`
	Attach bool   `json:"attach"`
}
type slBeh struct {
	Kind string   `json:"kind"`
	En0  []int    `json:"en0"`
	H    []slStep `json:"h"`
}

func replayStackLevels(b slBeh, variant int) (finds []Finding) {
	add := func(key, f string, a ...interface{}) {
		if len(finds) < 4 {
			finds = append(finds, Finding{Key: key, What: fmt.Sprintf(f, a...) + fmt.Sprintf(" [stack-trace enabler kind %s, initially enabling %v, history %v, variant %d]", b.Kind, b.En0, b.H, variant)})
		}
	}
	shift := variant % 2 // abstract level 0 is Debug or Info
	conc := func(l int) zapcore.Level { return zapcore.Level(l - 1 + shift) }
	var en zapcore.LevelEnabler
	var atom zap.AtomicLevel
	switch b.Kind {
	case "threshold":
		en = conc(b.En0[0])
	case "atomic":
		atom = zap.NewAtomicLevelAt(conc(b.En0[0]))
		en = atom
	case "set":
		set := map[zapcore.Level]bool{}
		for _, l := range b.En0 {
			set[conc(l)] = true
		}
		en = zap.LevelEnablerFunc(func(l zapcore.Level) bool { return set[l] })
	}
	core, logs := observer.New(zapcore.DebugLevel)
	var l *zap.Logger
	switch variant % 3 {
	case 0:
		l = zap.New(core, zap.AddStacktrace(en))
	case 1:
		l = zap.New(core).WithOptions(zap.AddStacktrace(en))
	default:
		l = zap.New(core, zap.AddStacktrace(zapcore.FatalLevel)).With(zap.Int("a", 1)).WithOptions(zap.AddStacktrace(en), zap.AddCaller())
	}
	derived := []*zap.Logger{l, l.With(zap.Int("d", 1)), l.Named("n"), l.Sugar().Desugar(), l.WithLazy(zap.Int("z", 1))}
	for i, st := range b.H {
		if st.Op == "set" {
			atom.SetLevel(conc(st.Lvl))
			continue
		}
		lg := derived[(i+variant)%len(derived)]
		logs.TakeAll()
		if (i+variant)%2 == 0 {
			lg.Log(conc(st.Lvl), "m")
		} else {
			lg.Sugar().Logw(conc(st.Lvl), "m", "k", 1)
		}
		es := logs.TakeAll()
		if len(es) != 1 {
			add("C15/entry-count", "step %d: %d entries", i, len(es))
			continue
		}
		if got := es[0].Stack != ""; got != st.Attach {
			add("C15/stack-levels", "step %d: entry at %v: stack trace attached = %v, the configured enabler says %v at that moment", i, conc(st.Lvl), got, st.Attach)
		}
	}
	return finds
}

// ---- concurrent annotated logging after an entry whose caller could not be resolved ----

func replayCallerConcurrent(rounds int) (finds []Finding) {
	add := func(key, f string, a ...interface{}) {
		if len(finds) < 4 {
			finds = append(finds, Finding{Key: key, What: fmt.Sprintf(f, a...)})
		}
	}
	var mu sync.Mutex
	for round := 0; round < rounds && len(finds) == 0; round++ {
		core, _ := observer.New(zapcore.DebugLevel)
		discard := zap.ErrorOutput(zapcore.AddSync(io.Discard))
		// history: entries whose caller skip runs past the end of the stack (reported on the error output)
		lost := zap.New(core, zap.AddCaller(), zap.AddCallerSkip(100000), discard)
		lost.Info("caller skip beyond the stack")
		lost.Warn("again", zap.Int("round", round))
		const G = 6
		var wg sync.WaitGroup
		done := make(chan struct{})
		for gi := 0; gi < G; gi++ {
			wg.Add(1)
			go func(gi int) {
				defer wg.Done()
				defer func() {
					if p := recover(); p != nil {
						mu.Lock()
						add("C15/panic", "goroutine %d panicked while logging with caller annotation after an unresolvable-caller entry: %v", gi, p)
						mu.Unlock()
					}
				}()
				gcore, glogs := observer.New(zapcore.DebugLevel)
				l := zap.New(gcore, zap.AddCaller(), zap.AddStacktrace(zapcore.WarnLevel), zap.AddCallerSkip(gi), discard)
				w := &c15w{l: l, s: l.Sugar(), fe: 2}
				if gi%2 == 1 {
					w.fe = 8
					w.s = zap.New(gcore, zap.AddCaller(), zap.AddStacktrace(zapcore.WarnLevel), zap.AddCallerSkip(gi), discard).Sugar()
				}
				wantFn := fmt.Sprintf("main.c15f%d", gi)
				for it := 0; it < 400; it++ {
					w.lvl = zapcore.InfoLevel
					if it%3 == 0 {
						w.lvl = zapcore.WarnLevel
					}
					c15deep(1+(it%5)*20, w, c15fs[gi])
					es := glogs.TakeAll()
					if len(es) != 1 {
						continue
					}
					e := es[0]
					if !e.Caller.Defined || e.Caller.Function != wantFn || e.Caller.Line != w.lines[gi] {
						mu.Lock()
						add("C15/caller-differs", "concurrent logging (goroutine %d of %d, after an entry whose caller could not be resolved): caller %s:%d (%s) defined=%v, the call site is c15.go:%d (%s)", gi, G, e.Caller.File, e.Caller.Line, e.Caller.Function, e.Caller.Defined, w.lines[gi], wantFn)
						mu.Unlock()
						return
					}
					if w.lvl == zapcore.WarnLevel {
						first := strings.SplitN(e.Stack, "\n", 2)[0]
						if first != wantFn || strings.Count(e.Stack, "main.c15deep\n") != 1+(it%5)*20 {
							mu.Lock()
							add("C15/stack-incomplete", "concurrent logging (goroutine %d): stack starts at %q with %d of %d recursion frames, want %s", gi, first, strings.Count(e.Stack, "main.c15deep\n"), 1+(it%5)*20, wantFn)
							mu.Unlock()
							return
						}
					}
				}
			}(gi)
		}
		go func() { wg.Wait(); close(done) }()
		select {
		case <-done:
		case <-time.After(30 * time.Second):
			add("C15/capture-hangs", "goroutines logging with caller/stack annotation made no progress for 30 s after an entry whose caller could not be resolved:\n%s", zapStacks())
			return
		}
	}
	return finds
}

// replayVolatileStackEnabler: the stack-trace enabler is moved by another goroutine at any moment, so two reads of
// it for one entry may disagree. Whatever it answers, a stack trace that is attached is the complete call chain.
func replayVolatileStackEnabler() (finds []Finding) {
	add := func(key, f string, a ...interface{}) {
		if len(finds) < 3 {
			finds = append(finds, Finding{Key: key, What: fmt.Sprintf(f, a...)})
		}
	}
	for _, pattern := range [][]bool{{true, false}, {false, true}, {true, true, false}, {true, false, false, true}} {
		n := 0
		en := zap.LevelEnablerFunc(func(zapcore.Level) bool { n++; return pattern[(n-1)%len(pattern)] })
		core, logs := observer.New(zapcore.DebugLevel)
		l := zap.New(core, zap.AddStacktrace(en), zap.AddCaller())
		for i := 0; i < 6; i++ {
			w := &c15w{l: l, s: l.Sugar(), fe: []int{2, 8}[i%2], lvl: zapcore.WarnLevel}
			logs.TakeAll()
			c15deep(5, w, c15fs[0])
			es := logs.TakeAll()
			if len(es) != 1 {
				continue
			}
			if st := es[0].Stack; st != "" && (strings.Count(st, "main.c15deep\n") != 5 || !strings.Contains(st, "main.main\n")) {
				add("C15/stack-incomplete", "stack-trace enabler answering %v on successive reads: entry %d carries a stack trace that is not the whole call chain: %q", pattern, i, st)
			}
		}
	}
	return finds
}

// replaySlogCallerConcurrent: several goroutines log through ONE zapslog.Handler with caller annotation, from two
// different call sites. Each entry reports the call site slog recorded for that record.
func replaySlogCallerConcurrent() (finds []Finding) {
	core, logs := observer.New(zapcore.DebugLevel)
	h := zapslog.NewHandler(core, zapslog.WithCaller(true))
	lg := slog.New(h)
	const G, N = 6, 3000
	var wg sync.WaitGroup
	lines := make([]int, G)
	for g := 0; g < G; g++ {
		wg.Add(1)
		go func(g int) {
			defer wg.Done()
			for i := 0; i < N; i++ {
				if g%2 == 0 {
					c15slog(lg, slog.LevelInfo, &lines[g])
				} else {
					c15slogInfo(lg, &lines[g]) // this one carries the attribute k
				}
			}
		}(g)
	}
	wg.Wait()
	bad := 0
	for _, e := range logs.All() {
		g, want := 0, "main.c15slog"
		if _, ok := e.ContextMap()["k"]; ok {
			g, want = 1, "main.c15slogInfo"
		}
		if !e.Caller.Defined || e.Caller.Function != want || e.Caller.Line != lines[g] {
			if bad == 0 {
				finds = append(finds, Finding{Key: "C15/caller-differs", What: fmt.Sprintf("%d goroutines log through one slog handler with caller annotation from two call sites: a record of goroutine %d (call site %s, c15.go:%d) reports caller %s:%d (%s)", G, g, want, lines[g], e.Caller.File, e.Caller.Line, e.Caller.Function)})
			}
			bad++
		}
	}
	return finds
}
