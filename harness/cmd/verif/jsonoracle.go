package main

import (
	"bytes"
	"encoding/json"
	"fmt"
	"strings"
	"unicode/utf8"
)

// Independent oracles for emitted log lines: a strict RFC 8259 scanner (no raw control
// characters anywhere, no trailing garbage, exactly one value) and a matcher that walks the
// real bytes guided by the token list the specification predicts.

type jscan struct {
	b []byte
	i int
}

func (s *jscan) errf(f string, a ...interface{}) error {
	lo := s.i - 20
	if lo < 0 {
		lo = 0
	}
	hi := s.i + 20
	if hi > len(s.b) {
		hi = len(s.b)
	}
	return fmt.Errorf("%s at byte %d (…%q…)", fmt.Sprintf(f, a...), s.i, s.b[lo:hi])
}

// skipSpace skips U+0020 only: zap never emits other whitespace between tokens, and a raw
// TAB / CR / LF inside the object would break the one-entry-per-line promise.
func (s *jscan) skipSpace() {
	for s.i < len(s.b) && s.b[s.i] == ' ' {
		s.i++
	}
}

func (s *jscan) value(depth int) error {
	if depth > 200 {
		return s.errf("nesting too deep")
	}
	s.skipSpace()
	if s.i >= len(s.b) {
		return s.errf("unexpected end of input, value expected")
	}
	switch c := s.b[s.i]; {
	case c == '{':
		s.i++
		s.skipSpace()
		if s.i < len(s.b) && s.b[s.i] == '}' {
			s.i++
			return nil
		}
		for {
			s.skipSpace()
			if s.i >= len(s.b) || s.b[s.i] != '"' {
				return s.errf("object key expected")
			}
			if err := s.str(); err != nil {
				return err
			}
			s.skipSpace()
			if s.i >= len(s.b) || s.b[s.i] != ':' {
				return s.errf("':' expected")
			}
			s.i++
			if err := s.value(depth + 1); err != nil {
				return err
			}
			s.skipSpace()
			if s.i >= len(s.b) {
				return s.errf("unexpected end of input inside object")
			}
			if s.b[s.i] == ',' {
				s.i++
				continue
			}
			if s.b[s.i] == '}' {
				s.i++
				return nil
			}
			return s.errf("',' or '}' expected")
		}
	case c == '[':
		s.i++
		s.skipSpace()
		if s.i < len(s.b) && s.b[s.i] == ']' {
			s.i++
			return nil
		}
		for {
			if err := s.value(depth + 1); err != nil {
				return err
			}
			s.skipSpace()
			if s.i >= len(s.b) {
				return s.errf("unexpected end of input inside array")
			}
			if s.b[s.i] == ',' {
				s.i++
				continue
			}
			if s.b[s.i] == ']' {
				s.i++
				return nil
			}
			return s.errf("',' or ']' expected")
		}
	case c == '"':
		return s.str()
	case c == '-' || (c >= '0' && c <= '9'):
		return s.num()
	default:
		for _, lit := range []string{"true", "false", "null"} {
			if bytes.HasPrefix(s.b[s.i:], []byte(lit)) {
				s.i += len(lit)
				return nil
			}
		}
		return s.errf("unexpected byte 0x%02x, value expected", c)
	}
}

func (s *jscan) str() error {
	s.i++ // opening quote
	for s.i < len(s.b) {
		c := s.b[s.i]
		switch {
		case c == '"':
			s.i++
			return nil
		case c < 0x20:
			return s.errf("raw control character 0x%02x inside string", c)
		case c == '\\':
			s.i++
			if s.i >= len(s.b) {
				return s.errf("unterminated escape")
			}
			switch s.b[s.i] {
			case '"', '\\', '/', 'b', 'f', 'n', 'r', 't':
				s.i++
			case 'u':
				if s.i+4 >= len(s.b) {
					return s.errf("short \\u escape")
				}
				for k := 1; k <= 4; k++ {
					h := s.b[s.i+k]
					if !(h >= '0' && h <= '9' || h >= 'a' && h <= 'f' || h >= 'A' && h <= 'F') {
						return s.errf("bad \\u escape")
					}
				}
				s.i += 5
			default:
				return s.errf("invalid escape \\%c", s.b[s.i])
			}
		case c < utf8.RuneSelf:
			s.i++
		default:
			r, n := utf8.DecodeRune(s.b[s.i:])
			if r == utf8.RuneError && n == 1 {
				return s.errf("invalid UTF-8 byte 0x%02x inside string", c)
			}
			s.i += n
		}
	}
	return s.errf("unterminated string")
}

func (s *jscan) num() error {
	start := s.i
	if s.b[s.i] == '-' {
		s.i++
	}
	if s.i >= len(s.b) {
		return s.errf("bad number")
	}
	if s.b[s.i] == '0' {
		s.i++
	} else if s.b[s.i] >= '1' && s.b[s.i] <= '9' {
		for s.i < len(s.b) && s.b[s.i] >= '0' && s.b[s.i] <= '9' {
			s.i++
		}
	} else {
		return s.errf("bad number")
	}
	if s.i < len(s.b) && s.b[s.i] == '.' {
		s.i++
		n := 0
		for s.i < len(s.b) && s.b[s.i] >= '0' && s.b[s.i] <= '9' {
			s.i++
			n++
		}
		if n == 0 {
			return s.errf("bad number: no digits after '.'")
		}
	}
	if s.i < len(s.b) && (s.b[s.i] == 'e' || s.b[s.i] == 'E') {
		s.i++
		if s.i < len(s.b) && (s.b[s.i] == '+' || s.b[s.i] == '-') {
			s.i++
		}
		n := 0
		for s.i < len(s.b) && s.b[s.i] >= '0' && s.b[s.i] <= '9' {
			s.i++
			n++
		}
		if n == 0 {
			return s.errf("bad number: no exponent digits")
		}
	}
	_ = start
	return nil
}

// strictJSONObjectLine checks that line is exactly <one JSON object><ending> with no raw
// control character or line break inside the object.
func strictJSONObjectLine(line []byte, ending string) error {
	if !bytes.HasSuffix(line, []byte(ending)) {
		return fmt.Errorf("line does not end with the configured line ending %q: …%q", ending, tail(line, 30))
	}
	body := line[:len(line)-len(ending)]
	for i, c := range body {
		if c < 0x20 {
			return fmt.Errorf("raw control character 0x%02x at byte %d inside the entry (…%q…)", c, i, body[max0(i-20):minInt(i+20, len(body))])
		}
	}
	s := &jscan{b: body}
	s.skipSpace()
	if s.i >= len(body) || body[s.i] != '{' {
		return fmt.Errorf("entry does not start with '{': %q", head(body, 30))
	}
	if err := s.value(0); err != nil {
		return err
	}
	s.skipSpace()
	if s.i != len(body) {
		return s.errf("trailing bytes after the JSON object")
	}
	if !json.Valid(body) {
		return fmt.Errorf("encoding/json rejects the entry although the strict scanner accepted it: %q", head(body, 200))
	}
	return nil
}

func max0(a int) int {
	if a < 0 {
		return 0
	}
	return a
}
func minInt(a, b int) int {
	if a < b {
		return a
	}
	return b
}
func head(b []byte, n int) []byte {
	if len(b) > n {
		return b[:n]
	}
	return b
}
func tail(b []byte, n int) []byte {
	if len(b) > n {
		return b[len(b)-n:]
	}
	return b
}

// sanitizeUTF8 is the documented treatment of strings: every invalid UTF-8 byte becomes U+FFFD.
func sanitizeUTF8(s string) string {
	if utf8.ValidString(s) {
		return s
	}
	var b strings.Builder
	for i := 0; i < len(s); {
		r, n := utf8.DecodeRuneInString(s[i:])
		if r == utf8.RuneError && n == 1 {
			b.WriteString("�")
			i++
			continue
		}
		b.WriteString(s[i : i+n])
		i += n
	}
	return b.String()
}

// decodeJSONString decodes a (syntactically valid) JSON string token.
func decodeJSONString(raw []byte) (string, error) {
	var s string
	if len(raw) == 0 || raw[0] != '"' {
		return "", fmt.Errorf("not a JSON string: %q", head(raw, 60))
	}
	if err := json.Unmarshal(raw, &s); err != nil {
		return "", err
	}
	return s, nil
}

// etok is one predicted token: kind t in { } [ ] : , k v nl ; id/sub identify keys and values.
type etok struct {
	t   string
	id  int
	sub string
}

func parseTokStr(s string) ([]etok, error) {
	var out []etok
	for _, f := range strings.Fields(s) {
		switch {
		case f == "_":
			continue
		case f == "{" || f == "}" || f == "[" || f == "]" || f == ":" || f == ",":
			out = append(out, etok{t: f})
		case strings.HasPrefix(f, "nl."):
			out = append(out, etok{t: "nl", sub: f[3:]})
		case f[0] == 'k' || f[0] == 'v':
			rest := f[1:]
			sub := ""
			if i := strings.IndexByte(rest, '.'); i >= 0 {
				rest, sub = rest[:i], rest[i+1:]
			}
			id := 0
			if _, err := fmt.Sscanf(rest, "%d", &id); err != nil {
				return nil, fmt.Errorf("bad token %q", f)
			}
			out = append(out, etok{t: f[:1], id: id, sub: sub})
		default:
			return nil, fmt.Errorf("bad token %q", f)
		}
	}
	return out, nil
}

// matchTokens walks body (one JSON object, already validated) guided by the predicted tokens.
// keyOf gives the expected decoded key; valOf checks a raw value. Returns category
// ("structure" | "key" | "value") and a description, or "" when everything matches.
func matchTokens(body []byte, toks []etok, keyOf func(etok) (string, bool), valOf func(etok, []byte) string) (cat, msg string) {
	s := &jscan{b: body}
	for ti, t := range toks {
		s.skipSpace()
		switch t.t {
		case "{", "}", "[", "]", ":", ",":
			if s.i >= len(body) || body[s.i] != t.t[0] {
				got := "end of entry"
				if s.i < len(body) {
					got = fmt.Sprintf("%q", body[s.i:minInt(s.i+25, len(body))])
				}
				return "structure", fmt.Sprintf("token %d: expected %q, found %s (entry %q)", ti, t.t, got, head(body, 400))
			}
			s.i++
		case "k":
			start := s.i
			if s.i >= len(body) || body[s.i] != '"' {
				return "structure", fmt.Sprintf("token %d: expected a key, found %q (entry %q)", ti, body[s.i:minInt(s.i+25, len(body))], head(body, 400))
			}
			if err := s.str(); err != nil {
				return "structure", err.Error()
			}
			got, err := decodeJSONString(body[start:s.i])
			if err != nil {
				return "key", err.Error()
			}
			if want, ok := keyOf(t); ok && got != want {
				return "key", fmt.Sprintf("token %d: key %q, expected %q (entry %q)", ti, got, want, head(body, 400))
			}
		case "v":
			start := s.i
			if err := s.value(0); err != nil {
				return "structure", err.Error()
			}
			// s.value skipped leading spaces itself
			raw := bytes.TrimLeft(body[start:s.i], " ")
			if m := valOf(t, raw); m != "" {
				return "value", fmt.Sprintf("token %d (%s%d.%s): %s (entry %q)", ti, t.t, t.id, t.sub, m, head(body, 400))
			}
		case "nl":
		}
	}
	s.skipSpace()
	if s.i != len(body) {
		return "structure", fmt.Sprintf("entry has more content than predicted: …%q (entry %q)", body[s.i:minInt(s.i+40, len(body))], head(body, 400))
	}
	return "", ""
}
