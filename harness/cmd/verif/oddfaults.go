//go:build verif

package main

import (
	"bufio"
	"sync"
	"time"
	"context"
	"encoding/json"
	"errors"
	"fmt"
	"io"
	"log/slog"
	"strings"

	"go.uber.org/zap"
	"go.uber.org/zap/exp/zapslog"
	"go.uber.org/zap/zapio"
	"go.uber.org/zap/zaptest/observer"
	"go.uber.org/zap/zapcore"
)

// Named multi-step / odd-member scenarios around the JSON encoder, shared by C01 / C02 / C08 / C10 (each keeps
// the finding keys that belong to it): members of the spec's fault and leaf classes that the seeded pools do
// not contain, each followed by more fields so that damage to the rest of the entry shows.

// an aggregate error whose Error() is fine but whose Errors() panics (a typed nil with a nil-safe Error, or a bug)
type ofNilAgg struct{ errs []error }

func (a *ofNilAgg) Error() string {
	if a == nil {
		return "<nil aggregate>"
	}
	return "aggregate"
}
func (a *ofNilAgg) Errors() []error { return a.errs } // nil receiver: panics

type ofBuggyAgg struct{}

func (ofBuggyAgg) Error() string   { return "buggy aggregate" }
func (ofBuggyAgg) Errors() []error { var m map[string][]error; m["x"] = nil; return nil }

// errors of non-pointer kinds whose Error() panics
type ofStructErr struct{ cause error }

func (e ofStructErr) Error() string { return "wrapped: " + e.cause.Error() } // nil cause: panics

type ofStringErr string

func (e ofStringErr) Error() string { panic("string-kind error panics") }

type ofIntErr int

func (e ofIntErr) Error() string { return []string{"a"}[int(e)] }

// a ReflectedEncoder that streams what it has before it notices it cannot go on
type ofStreamEnc struct{ w io.Writer }

func (e ofStreamEnc) Encode(v interface{}) error {
	if m, ok := v.(map[string]interface{}); ok {
		if _, bad := m["poison"]; bad {
			io.WriteString(e.w, `{"a":1`)
			return errors.New("stream encoder: unsupported value after 6 bytes")
		}
	}
	return json.NewEncoder(e.w).Encode(v)
}

type ofObj struct{ f func(zapcore.ObjectEncoder) error }

func (o ofObj) MarshalLogObject(e zapcore.ObjectEncoder) error { return o.f(e) }

func replayOddFaults() (finds []Finding) {
	add := func(key, f string, a ...interface{}) {
		if len(finds) < 12 {
			finds = append(finds, Finding{Key: key, What: fmt.Sprintf(f, a...)})
		}
	}
	sink := &jeSink{}
	cfg := zapcore.EncoderConfig{MessageKey: "msg", LevelKey: "level", EncodeLevel: zapcore.LowercaseLevelEncoder}
	core := zapcore.NewCore(zapcore.NewJSONEncoder(cfg), sink, zapcore.DebugLevel)
	lg := zap.New(core)
	// one entry: returns the decoded object (nil when the line is not strict JSON)
	emit := func(what string, f func()) map[string]interface{} {
		sink.writes = nil
		func() {
			defer func() {
				if p := recover(); p != nil {
					add("panic", "%s: the logging call panicked: %v", what, p)
				}
			}()
			f()
		}()
		if len(sink.writes) != 1 {
			add("entry-lost", "%s: %d lines written for one entry", what, len(sink.writes))
			return nil
		}
		if err := strictJSONObjectLine(sink.writes[0], "\n"); err != nil {
			add("invalid-json", "%s: %v: %q", what, err, trunc(string(sink.writes[0])))
			return nil
		}
		var m map[string]interface{}
		if err := json.Unmarshal(sink.writes[0], &m); err != nil {
			add("invalid-json", "%s: %v: %q", what, err, trunc(string(sink.writes[0])))
			return nil
		}
		return m
	}
	intact := func(what string, m map[string]interface{}, key string, want interface{}) {
		if m == nil {
			return
		}
		got, _ := json.Marshal(m[key])
		w, _ := json.Marshal(want)
		if string(got) != string(w) {
			add("value", "%s: field %q came out as %s, logged %s (entry %v)", what, key, got, w, m)
		}
	}
	// (a) error groups whose Errors() panics: at the call site, in the context, nested in an object
	for name, e := range map[string]error{"typed-nil aggregate": (*ofNilAgg)(nil), "aggregate with a bug in Errors()": ofBuggyAgg{}} {
		e := e
		m := emit("error group ("+name+") at the call site", func() { lg.Error("request failed", zap.Error(e), zap.Int("attempt", 3)) })
		intact(name+" at the call site", m, "attempt", 3)
		m = emit("error group ("+name+") in the context", func() { lg.With(zap.NamedError("cause", e), zap.String("after", "ctx")).Info("m", zap.Int("attempt", 4)) })
		intact(name+" in the context", m, "attempt", 4)
		intact(name+" in the context", m, "after", "ctx")
		m = emit("error group ("+name+") inside an object", func() {
			lg.Info("m", zap.Object("o", ofObj{func(enc zapcore.ObjectEncoder) error {
				zap.Error(e).AddTo(enc)
				enc.AddInt("inner", 1)
				return nil
			}}), zap.Int("attempt", 5))
		})
		intact(name+" inside an object", m, "attempt", 5)
	}
	// (b) errors of non-pointer kinds whose Error() panics: the entry survives with an <key>Error field
	for name, e := range map[string]error{"struct-kind error with a nil cause": ofStructErr{}, "string-kind error": ofStringErr("x"), "int-kind error": ofIntErr(7)} {
		e := e
		m := emit("panicking "+name, func() { lg.Warn("m", zap.NamedError("cause", e), zap.Int("after", 1)) })
		intact("panicking "+name, m, "after", 1)
		if m != nil {
			if _, ok := m["causeError"]; !ok {
				add("value", "panicking %s: the entry carries no causeError field describing the failure: %v", name, m)
			}
		}
	}
	// (c) a reflected value that cannot be encoded, followed by reflected values on the same encoder (same entry,
	// same With, later entries of the same logger), with the default and with a streaming reflected encoder
	for _, streaming := range []bool{false, true} {
		c2 := cfg
		what := "default reflected encoder"
		var bad interface{} = make(chan int)
		if streaming {
			what = "streaming reflected encoder"
			c2.NewReflectedEncoder = func(w io.Writer) zapcore.ReflectedEncoder { return ofStreamEnc{w} }
			bad = map[string]interface{}{"poison": 1}
		}
		l2 := zap.New(zapcore.NewCore(zapcore.NewJSONEncoder(c2), sink, zapcore.DebugLevel))
		good := map[string]interface{}{"a": 1.0, "b": "two"}
		m := emit(what+": failing reflected field, then a good one, in one entry", func() {
			l2.Info("m", zap.Reflect("bad", bad), zap.Reflect("good", good), zap.Reflect("good2", []int{1, 2}))
		})
		intact(what+", same entry", m, "good", good)
		intact(what+", same entry", m, "good2", []int{1, 2})
		var child *zap.Logger
		m = emit(what+": failing and good reflected fields in one With", func() {
			child = l2.With(zap.Reflect("bad", bad), zap.Reflect("good", good))
			child.Info("m", zap.Reflect("good2", []int{3}))
		})
		intact(what+", same With", m, "good", good)
		intact(what+", same With", m, "good2", []int{3})
		// an unrelated logger takes buffers in between, then the child logs again
		other := zap.New(zapcore.NewCore(zapcore.NewJSONEncoder(cfg), zapcore.AddSync(io.Discard), zapcore.DebugLevel))
		other.With(zap.String("request_id", "42"), zap.Reflect("r", good)).Info("unrelated")
		if child != nil {
			m = emit(what+": the same child again after unrelated logging", func() { child.Info("again", zap.Reflect("good3", good)) })
			intact(what+", child again", m, "good", good)
			intact(what+", child again", m, "good3", good)
		}
	}
	// (b2) Stringers arrays with a nil or panicking element at every position: rendered in place, the rest intact
	for pos := 0; pos < 3; pos++ {
		for name, bad := range map[string]fmt.Stringer{"nil pointer": (*jePtrStringer)(nil), "panicking": jePanicStringer{}} {
			els := []fmt.Stringer{jeStringer{"a"}, jeStringer{"b"}, jeStringer{"c"}}
			els[pos] = bad
			what := fmt.Sprintf("zap.Stringers with a %s element at position %d of 3", name, pos+1)
			m := emit(what, func() { lg.Info("m", zap.Stringers("ss", els), zap.Int("after", 2)) })
			intact(what, m, "after", 2)
			if m != nil && name == "panicking" {
				// the array marshaler fails at that element: the failure is described next to the array
				if _, ok := m["ssError"]; !ok {
					add("value", "%s: the entry carries no ssError field describing the failure: %v", what, m)
				}
			} else if m != nil {
				if arr, ok := m["ss"].([]interface{}); !ok || len(arr) != 3 {
					add("value", "%s: the array came out as %v, want three elements", what, m["ss"])
				} else {
					for i, want := range []string{"a", "b", "c"} {
						if i != pos && fmt.Sprint(arr[i]) != want {
							add("value", "%s: element %d came out as %v, want %q", what, i+1, arr[i], want)
						}
					}
				}
			}
			m = emit(what+" (in the context)", func() { lg.With(zap.Stringers("ss", els)).Info("m", zap.Int("after", 3)) })
			intact(what+" (in the context)", m, "after", 3)
		}
	}
	// (c2) an array whose reflected element fails, at every position, with fields after it
	for pos := 0; pos < 3; pos++ {
		pos := pos
		arr := zapcore.ArrayMarshalerFunc(func(enc zapcore.ArrayEncoder) error {
			var err error
			for i := 0; i < 3; i++ {
				var v interface{} = map[string]int{"i": i}
				if i == pos {
					v = make(chan int)
				}
				if e := enc.AppendReflected(v); e != nil && err == nil {
					err = e
				}
			}
			return err
		})
		what := fmt.Sprintf("array whose reflected element %d of 3 cannot be encoded", pos+1)
		m := emit(what, func() { lg.Info("m", zap.Array("samples", arr), zap.Int("after", 9)) })
		intact(what, m, "after", 9)
		m = emit(what+" (in the context)", func() { lg.With(zap.Array("samples", arr), zap.String("ctx", "c")).Info("m", zap.Int("after", 9)) })
		intact(what+" (in the context)", m, "after", 9)
		intact(what+" (in the context)", m, "ctx", "c")
	}
	// (d) sugared front ends with messages that look like templates, no formatting arguments
	for _, msg := range []string{"disk usage at 95%", "50%done, 100%s", "%", "%!s(MISSING)", "plain"} {
		msg := msg
		for name, f := range map[string]func(){
			"Infow":          func() { lg.Sugar().Infow(msg, "k", 1) },
			"Errorw, no kvs": func() { lg.Sugar().Errorw(msg) },
			"Infof, no args": func() { lg.Sugar().Infof(msg) },
			"Logw":           func() { lg.Sugar().Logw(zapcore.WarnLevel, msg, "k", 1) },
			"Info":           func() { lg.Sugar().Info(msg) },
		} {
			m := emit("sugared "+name+" with message "+msg, f)
			intact("sugared "+name, m, "msg", msg)
		}
	}
	// (e) slog handlers: siblings derived from a parent with n pending groups keep their own nesting
	for n := 1; n <= 7; n++ {
		var parent slog.Handler = zapslog.NewHandler(core)
		for i := 0; i < n; i++ {
			parent = parent.WithGroup(fmt.Sprintf("g%d", i))
		}
		a := parent.WithGroup("first")
		b := parent.WithGroup("second")
		_ = b
		m := emit(fmt.Sprintf("slog sibling handlers under %d pending groups", n), func() { slog.New(a).Info("query", "rows", 3) })
		if m != nil {
			cur := interface{}(m)
			path := []string{}
			for i := 0; i < n; i++ {
				path = append(path, fmt.Sprintf("g%d", i))
			}
			path = append(path, "first")
			ok := true
			for _, p := range path {
				mm, isMap := cur.(map[string]interface{})
				if !isMap || mm[p] == nil {
					ok = false
					break
				}
				cur = mm[p]
			}
			if mm, isMap := cur.(map[string]interface{}); !ok || !isMap || fmt.Sprint(mm["rows"]) != "3" {
				add("value", "slog: a handler derived with WithGroup(\"first\") from a parent with %d pending groups (a sibling WithGroup(\"second\") was derived afterwards) nests its attribute as %s, want it under %s", n, trunc(string(sink.writes[0])), strings.Join(path, "."))
			}
		}
	}
	// (f) a zapio.Writer that is written to again after a Sync, with other loggers busy in between: the writer's
	// pending fragment is its own, and so is everybody else's context
	{
		ocore, ologs := observer.New(zapcore.DebugLevel)
		zw := &zapio.Writer{Log: zap.New(ocore), Level: zapcore.InfoLevel}
		zw.Write([]byte("hello "))
		zw.Sync()
		zw.Write([]byte("wor"))
		child := lg.With(zap.Int("request", 1), zap.Reflect("r", []int{1, 2}))
		m := emit("a logger derived and used while a zapio.Writer holds a fragment after a Sync", func() { child.Info("unrelated", zap.String("k", "v")) })
		intact("logger used next to a zapio.Writer", m, "request", 1)
		zw.Write([]byte("ld\n"))
		m = emit("the same logger again", func() { child.Info("unrelated2") })
		intact("logger used next to a zapio.Writer", m, "request", 1)
		zw.Write([]byte("tail"))
		zw.Close()
		got := []string{}
		for _, e := range ologs.All() {
			got = append(got, e.Message)
		}
		if fmt.Sprint(got) != fmt.Sprint([]string{"hello ", "world", "tail"}) {
			add("value", "zapio.Writer written to again after a Sync while other loggers were busy logged %q, the stream's lines are [\"hello \" \"world\" \"tail\"]", got)
		}
	}
	_ = context.Background
	return finds
}

// sharedFileLines: two loggers built from configurations that name the same output file (and a third handle through
// zap.Open), entries of different lengths interleaved. The file must hold every entry exactly once, one valid
// JSON object per line, after what it held before. Keys: "invalid-json", "entry-lost", "entry-duplicated".
func sharedFileLines() (finds []Finding) {
	add := func(key, f string, a ...interface{}) {
		if len(finds) < 6 {
			finds = append(finds, Finding{Key: key, What: fmt.Sprintf(f, a...)})
		}
	}
	dir, err := osMkdirTemp()
	if err != nil {
		return []Finding{{Key: "harness", What: err.Error()}}
	}
	defer osRemoveAll(dir)
	path := dir + "/shared.log"
	osWriteFile(path, []byte("{\"msg\":\"line written by an earlier run\"}\n"))
	mk := func() *zap.Logger {
		cfg := zap.NewProductionConfig()
		cfg.Sampling = nil
		cfg.OutputPaths = []string{path}
		cfg.ErrorOutputPaths = []string{path}
		cfg.EncoderConfig.TimeKey = ""
		l, err := cfg.Build()
		if err != nil {
			add("harness", "Config.Build: %v", err)
			return zap.NewNop()
		}
		return l
	}
	a, b := mk(), mk()
	ws, closeWS, err := zap.Open("file://localhost" + path)
	if err != nil {
		add("harness", "zap.Open: %v", err)
		return
	}
	c := zap.New(zapcore.NewCore(zapcore.NewJSONEncoder(zap.NewProductionEncoderConfig()), ws, zapcore.DebugLevel))
	want := map[string]bool{}
	for i := 0; i < 6; i++ {
		ma, mb, mc := fmt.Sprintf("A%d %s", i, strings.Repeat("a long entry ", 1+i*3)), fmt.Sprintf("B%d", i), fmt.Sprintf("C%d %s", i, strings.Repeat("x", 40*(i%3)))
		a.Info(ma, zap.Int("n", i))
		b.Warn(mb)
		c.Error(mc, zap.String("k", "v"))
		want[ma], want[mb], want[mc] = true, true, true
	}
	a.Sync()
	b.Sync()
	closeWS()
	data, _ := osReadFile(path)
	lines := strings.Split(strings.TrimSuffix(string(data), "\n"), "\n")
	seen := map[string]int{}
	for i, l := range lines {
		if err := strictJSONObjectLine([]byte(l), ""); err != nil {
			add("invalid-json", "three loggers sharing one output file (two zap.Config builds and one zap.Open on the same path): line %d of the file is not one JSON object: %v: %q", i+1, err, trunc(l))
			continue
		}
		var m map[string]interface{}
		json.Unmarshal([]byte(l), &m)
		seen[fmt.Sprint(m["msg"])]++
	}
	if seen["line written by an earlier run"] != 1 {
		add("entry-lost", "three loggers sharing one output file: the line the file held before is gone (%d copies)", seen["line written by an earlier run"])
	}
	for m := range want {
		switch n := seen[m]; {
		case n == 0:
			add("entry-lost", "three loggers sharing one output file: entry %q is not in the file (the file has %d lines)", trunc(m), len(lines))
		case n > 1:
			add("entry-duplicated", "three loggers sharing one output file: entry %q is in the file %d times", trunc(m), n)
		}
	}
	return finds
}

// a buffering destination that is only safe under the lock zapcore.Lock provides
type ofBufSink struct {
	w *bufio.Writer
}

func (s *ofBufSink) Write(p []byte) (int, error) { return s.w.Write(p) }
func (s *ofBufSink) Sync() error                 { return s.w.Flush() }

type ofGateDevice struct {
	mu      sync.Mutex
	data    []byte
	entered chan struct{}
	release chan struct{}
	once    sync.Once
}

func (d *ofGateDevice) Write(p []byte) (int, error) {
	d.once.Do(func() { close(d.entered); <-d.release })
	d.mu.Lock()
	d.data = append(d.data, p...)
	d.mu.Unlock()
	return len(p), nil
}

// lockedBufferedSinkLines: logger A's entry overflows the buffer of a Lock-protected buffering sink and is being
// flushed to a slow device when another goroutine syncs the logger. The device ends up with every entry once, one
// JSON object per line. Keys: "invalid-json", "entry-lost", "entry-duplicated".
func lockedBufferedSinkLines() (finds []Finding) {
	add := func(key, f string, a ...interface{}) {
		if len(finds) < 4 {
			finds = append(finds, Finding{Key: key, What: fmt.Sprintf(f, a...)})
		}
	}
	for _, viaCombine := range []bool{false, true} {
		dev := &ofGateDevice{entered: make(chan struct{}), release: make(chan struct{})}
		buffered := &ofBufSink{bufio.NewWriterSize(dev, 256)}
		var ws zapcore.WriteSyncer = zapcore.Lock(buffered)
		if viaCombine {
			ws = zap.CombineWriteSyncers(buffered)
		}
		lg := zap.New(zapcore.NewCore(zapcore.NewJSONEncoder(zapcore.EncoderConfig{MessageKey: "msg", LevelKey: "level", EncodeLevel: zapcore.LowercaseLevelEncoder}), ws, zapcore.DebugLevel))
		lg.Info("first", zap.String("pad", strings.Repeat("a", 100)))
		adone := make(chan struct{})
		go func() { defer close(adone); lg.Info("second", zap.String("pad", strings.Repeat("b", 200))) }() // overflows: flush to the device
		select {
		case <-dev.entered:
		case <-time.After(2 * time.Second):
			close(dev.release)
			<-adone
			add("harness", "the overflowing entry never reached the device")
			continue
		}
		bdone := make(chan struct{})
		go func() { defer close(bdone); lg.Sync(); lg.Info("third", zap.String("pad", strings.Repeat("c", 50))); lg.Sync() }()
		select {
		case <-bdone:
		case <-time.After(40 * time.Millisecond):
		}
		close(dev.release)
		<-adone
		<-bdone
		lg.Sync()
		dev.mu.Lock()
		data := string(dev.data)
		dev.mu.Unlock()
		seen := map[string]int{}
		for i, l := range strings.Split(strings.TrimSuffix(data, "\n"), "\n") {
			if err := strictJSONObjectLine([]byte(l), ""); err != nil {
				add("invalid-json", "a Lock-protected buffering sink (via CombineWriteSyncers: %v): one goroutine's entry is being flushed to a slow device while another goroutine calls Sync; line %d on the device is not one JSON object: %v: %q", viaCombine, i+1, err, trunc(l))
				continue
			}
			var m map[string]interface{}
			json.Unmarshal([]byte(l), &m)
			seen[fmt.Sprint(m["msg"])]++
		}
		for _, m := range []string{"first", "second", "third"} {
			if seen[m] == 0 {
				add("entry-lost", "Lock-protected buffering sink, Sync during another goroutine's flush: entry %q is not on the device: %q", m, trunc(data))
			} else if seen[m] > 1 {
				add("entry-duplicated", "Lock-protected buffering sink, Sync during another goroutine's flush: entry %q is on the device %d times", m, seen[m])
			}
		}
	}
	return finds
}
