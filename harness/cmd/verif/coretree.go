package main

import (
	"fmt"
	"strings"
	"sync"
	"time"

	"go.uber.org/zap"
	"go.uber.org/zap/zapcore"
	"go.uber.org/zap/zaptest/observer"
)

// Shared by C05 / C06 / C10: real core compositions built from CoreTree.tla trees.

type ctNode struct {
	K string   `json:"k"`
	E int      `json:"e"`
	C []ctNode `json:"c"`
}

func (n ctNode) String() string {
	switch n.K {
	case "leaf":
		return fmt.Sprintf("leaf(%s)", ctEnablerName(n.E))
	case "nop":
		return "nop"
	case "inc":
		return fmt.Sprintf("inc(%s, %s)", ctEnablerName(n.E), n.C[0])
	case "samp":
		return fmt.Sprintf("samp(%s, %s)", map[int]string{0: "drop-all", 1: "pass-all"}[n.E], n.C[0])
	}
	parts := []string{}
	for _, c := range n.C {
		parts = append(parts, c.String())
	}
	return n.K + "(" + strings.Join(parts, ", ") + ")"
}

func ctEnablerName(e int) string {
	return map[int]string{0: "atomic", 1: "Debug", 2: "Warn", 3: "Fatal", 4: "Level(-128)", 5: "Level(7)", 6: "func{Info,Error}", 7: "func{}", 8: "func{Debug,Panic,>=7}"}[e]
}

type ctCoreRef struct {
	P []int  `json:"p"`
	K string `json:"k"`
}

func pathKey(p []int) string {
	s := "r"
	for _, i := range p {
		s += fmt.Sprintf(".%d", i)
	}
	return s
}

// ctWorld is one real composition with its recording leaves and counters.
type ctWorld struct {
	mu        sync.Mutex
	atom      zap.AtomicLevel
	core      zapcore.Core
	delivered map[string]int // leaf path -> entries received since reset
	hooks     map[string]int // hook path -> calls since reset
	sinkOps   int            // Write/Sync calls on any leaf sink since reset
	marshals  int            // MarshalLogObject calls of the probe field
	sampHook  map[string][]zapcore.SamplingDecision
	buildErr  error
	hookErr   bool // hooks return an error (io leaves fail never; see flaky)
	leafKinds map[string]string
	lines     map[string][]string // io leaves: raw lines
	synced    map[string]int      // io leaves: Sync calls
	syncedAt  map[string]int      // io leaves: number of lines present at the last Sync
}

func (w *ctWorld) reset() {
	w.mu.Lock()
	defer w.mu.Unlock()
	w.delivered = map[string]int{}
	w.hooks = map[string]int{}
	w.sinkOps = 0
	w.marshals = 0
	w.sampHook = map[string][]zapcore.SamplingDecision{}
	w.lines = map[string][]string{}
	w.synced = map[string]int{}
	w.syncedAt = map[string]int{}
}

type ctSink struct {
	w    *ctWorld
	path string
}

func (s *ctSink) Write(p []byte) (int, error) {
	s.w.mu.Lock()
	defer s.w.mu.Unlock()
	s.w.sinkOps++
	s.w.delivered[s.path]++
	s.w.lines[s.path] = append(s.w.lines[s.path], string(p))
	return len(p), nil
}
func (s *ctSink) Sync() error {
	s.w.mu.Lock()
	defer s.w.mu.Unlock()
	s.w.sinkOps++
	s.w.synced[s.path]++
	s.w.syncedAt[s.path] = len(s.w.lines[s.path])
	return nil
}

// ctObsCore wraps an observer core to count deliveries per leaf.
type ctObsCore struct {
	zapcore.Core
	w    *ctWorld
	path string
}

func (o *ctObsCore) With(f []zapcore.Field) zapcore.Core {
	return &ctObsCore{Core: o.Core.With(f), w: o.w, path: o.path}
}
func (o *ctObsCore) Check(e zapcore.Entry, ce *zapcore.CheckedEntry) *zapcore.CheckedEntry {
	if o.Enabled(e.Level) {
		return ce.AddCore(e, o)
	}
	return ce
}
func (o *ctObsCore) Write(e zapcore.Entry, f []zapcore.Field) error {
	o.w.mu.Lock()
	o.w.delivered[o.path]++
	o.w.mu.Unlock()
	return o.Core.Write(e, f)
}
func (o *ctObsCore) Level() zapcore.Level { return zapcore.LevelOf(o.Core) }

type ctProbe struct{ w *ctWorld }

func (p ctProbe) MarshalLogObject(enc zapcore.ObjectEncoder) error {
	p.w.mu.Lock()
	p.w.marshals++
	p.w.mu.Unlock()
	enc.AddInt("probe", 1)
	return nil
}

func levelSet(ls ...zapcore.Level) zapcore.LevelEnabler {
	m := map[zapcore.Level]bool{}
	for _, l := range ls {
		m[l] = true
	}
	return zap.LevelEnablerFunc(func(l zapcore.Level) bool { return m[l] })
}

func (w *ctWorld) enabler(e int) zapcore.LevelEnabler {
	switch e {
	case 0:
		return w.atom
	case 1:
		return zapcore.DebugLevel
	case 2:
		return zapcore.WarnLevel
	case 3:
		return zapcore.FatalLevel
	case 4:
		return zapcore.Level(-128)
	case 5:
		return zapcore.Level(7)
	case 6:
		return levelSet(zapcore.InfoLevel, zapcore.ErrorLevel)
	case 7:
		return levelSet()
	case 8:
		return zap.LevelEnablerFunc(func(l zapcore.Level) bool {
			return l == zapcore.DebugLevel || l == zapcore.PanicLevel || l >= 7
		})
	}
	panic("unknown enabler")
}

// ctBuild builds the real composition. leafKind: "io" (NewCore over a recording sink),
// "obs" (observer core) or "mix" (alternating).
func ctBuild(t ctNode, al zapcore.Level, leafKind string) *ctWorld {
	w := &ctWorld{atom: zap.NewAtomicLevelAt(al), leafKinds: map[string]string{}}
	w.reset()
	nleaf := 0
	var build func(n ctNode, p []int) zapcore.Core
	build = func(n ctNode, p []int) zapcore.Core {
		key := pathKey(p)
		child := func(i int) zapcore.Core { return build(n.C[i], append(append([]int{}, p...), i+1)) }
		switch n.K {
		case "leaf":
			nleaf++
			kind := leafKind
			if kind == "mix" {
				kind = []string{"io", "obs"}[nleaf%2]
			}
			w.leafKinds[key] = kind
			if kind == "obs" {
				oc, _ := observer.New(w.enabler(n.E))
				return &ctObsCore{Core: oc, w: w, path: key}
			}
			enc := zapcore.NewJSONEncoder(zapcore.EncoderConfig{MessageKey: "m", LevelKey: "l", NameKey: "n", LineEnding: "\n", EncodeLevel: zapcore.LowercaseLevelEncoder})
			return zapcore.NewCore(enc, &ctSink{w: w, path: key}, w.enabler(n.E))
		case "nop":
			return zapcore.NewNopCore()
		case "tee":
			return zapcore.NewTee(child(0), child(1))
		case "inc":
			c, err := zapcore.NewIncreaseLevelCore(child(0), w.enabler(n.E))
			if err != nil {
				if w.buildErr == nil {
					w.buildErr = err
				}
				return zapcore.NewNopCore()
			}
			return c
		case "hook":
			return zapcore.RegisterHooks(child(0), func(zapcore.Entry) error {
				w.mu.Lock()
				w.hooks[key]++
				w.mu.Unlock()
				if w.hookErr {
					return fmt.Errorf("hook %s failed", key) // must not disturb other branches or hooks
				}
				return nil
			})
		case "lazy":
			return zapcore.NewLazyWith(child(0), []zapcore.Field{zap.String("lazy", key)})
		case "samp":
			first, thereafter := 1<<30, 0
			if n.E == 0 {
				first = 0
			}
			return zapcore.NewSamplerWithOptions(child(0), time.Hour, first, thereafter, zapcore.SamplerHook(func(e zapcore.Entry, d zapcore.SamplingDecision) {
				w.mu.Lock()
				w.sampHook[key] = append(w.sampHook[key], d)
				w.mu.Unlock()
			}))
		}
		panic("unknown node kind " + n.K)
	}
	w.core = build(t, nil)
	return w
}

// ctConcreteLevels maps an abstract level of CoreTree.tla to the concrete zapcore levels replayed for it.
func ctConcreteLevels(l int, thorough bool) []zapcore.Level {
	switch l {
	case -2:
		if thorough {
			return []zapcore.Level{-2, -3, -128}
		}
		return []zapcore.Level{-2, -128}
	case 7:
		if thorough {
			return []zapcore.Level{7, 8, 127}
		}
		return []zapcore.Level{7, 127}
	}
	return []zapcore.Level{zapcore.Level(l)}
}
