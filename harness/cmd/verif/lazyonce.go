package main

import (
	"encoding/json"
	"fmt"
	"strings"
	"sync"
	"sync/atomic"
	"time"

	"go.uber.org/zap"
	"go.uber.org/zap/zapcore"
)

// Gate replay of LazyOnce.tla schedules: several goroutines make the first use of one
// WithLazy logger; the goroutine that evaluates the lazy fields is parked inside the
// evaluation (a Stringer field is the gate) while the others arrive.

type loBeh struct {
	Sched [][2]interface{} `json:"sched"`
}

type loStringer struct {
	g     *Gate
	calls *int64
}

func (s loStringer) String() string {
	atomic.AddInt64(s.calls, 1)
	s.g.At("eval", 0, 0)
	return "lazy-value"
}

// replayLazyOnce returns findings keyed "lazy/evaluated-twice", "lazy/panic", "lazy/entry-missing", "lazy/context".
func replayLazyOnce(b loBeh, variant int) (finds []Finding, inconclusive string) {
	add := func(key, f string, a ...interface{}) {
		finds = append(finds, Finding{Key: key, What: fmt.Sprintf(f, a...) + fmt.Sprintf(" [schedule %v, variant %d]", b.Sched, variant)})
	}
	g := NewGate()
	defer g.Drain()
	var calls int64
	sink := &lockedLines{}
	core := zapcore.NewCore(zapcore.NewJSONEncoder(zapcore.EncoderConfig{MessageKey: "m", SkipLineEnding: true}), sink, zapcore.DebugLevel)
	base := zap.New(core)
	lazy := base
	var lazyS *zap.SugaredLogger
	if variant >= 4 {
		// the sugared front end: loosely typed key/value arguments
		lazyS = base.Sugar().WithLazy("lz", loStringer{g, &calls})
	} else {
		lazy = base.WithLazy(zap.Stringer("lz", loStringer{g, &calls}))
	}
	var panics sync.Map
	use := func(p string) func() {
		return func() {
			defer func() {
				if r := recover(); r != nil {
					panics.Store(p, fmt.Sprint(r))
				}
			}()
			switch variant {
			case 0:
				lazy.Info("from-" + p)
			case 1:
				lazy.With(zap.String("child", p)).Info("from-" + p)
			case 2:
				lazy.Sugar().Infow("from-"+p, "k", 1)
			case 4:
				lazyS.Infow("from-"+p, "k", 1)
			case 5:
				lazyS.With("child", p).Infof("from-%s", p)
			default:
				if ce := lazy.Check(zapcore.InfoLevel, "from-"+p); ce != nil {
					ce.Write()
				}
			}
		}
	}
	procs := map[string]bool{}
	for _, st := range b.Sched {
		p := fmt.Sprint(st[0])
		act := fmt.Sprint(st[1])
		switch act {
		case "arrive":
			procs[p] = true
			g.Go(p, use(p))
			// give it time to reach the evaluation gate, to block on the Once, or to finish
			deadline := time.Now().Add(30 * time.Millisecond)
			for time.Now().Before(deadline) {
				if g.IsParked(p) != "" || g.WaitDone(p, 1, time.Millisecond) {
					break
				}
			}
		case "eval":
			if site, _ := g.WaitParked(p, 2*time.Second, "eval"); site == "" {
				// the spec says p evaluates now; if the real goroutine is not inside the evaluation the
				// schedule cannot be followed (not a verdict)
				if _, panicked := panics.Load(p); !panicked {
					return finds, fmt.Sprintf("process %s never reached the evaluation gate", p)
				}
				continue
			}
			g.Release(p)
		case "use":
			if !g.WaitDone(p, 1, 5*time.Second) {
				if g.IsParked(p) == "eval" {
					// an evaluation the spec does not have: let it run so that the count shows it
					g.Release(p)
					g.WaitDone(p, 1, 5*time.Second)
				} else {
					return finds, fmt.Sprintf("process %s did not finish its logging call\n%s", p, stacks())
				}
			}
		}
	}
	g.Drain()
	for p := range procs {
		g.WaitDone(p, 1, 5*time.Second)
	}
	panics.Range(func(k, v interface{}) bool {
		add("lazy/panic", "goroutine %v panicked during the first use of a WithLazy logger: %v", k, v)
		return true
	})
	if n := atomic.LoadInt64(&calls); n != 1 {
		add("lazy/evaluated-twice", "the lazy field was evaluated %d times (WithLazy evaluates its fields once, at first use)", n)
	}
	lines := sink.all()
	for p := range procs {
		if _, panicked := panics.Load(p); panicked {
			continue
		}
		found := false
		for _, l := range lines {
			if strings.Contains(l, `"from-`+p+`"`) {
				found = true
				var m map[string]interface{}
				if err := json.Unmarshal([]byte(l), &m); err != nil || m["lz"] != "lazy-value" {
					add("lazy/context", "entry of goroutine %s does not carry the lazy field: %s", p, l)
				}
			}
		}
		if !found {
			add("lazy/entry-missing", "entry of goroutine %s is missing (lines %q)", p, lines)
		}
	}
	return finds, ""
}

type lockedLines struct {
	mu sync.Mutex
	ls []string
}

func (s *lockedLines) Write(p []byte) (int, error) {
	s.mu.Lock()
	s.ls = append(s.ls, string(p))
	s.mu.Unlock()
	return len(p), nil
}
func (s *lockedLines) Sync() error { return nil }
func (s *lockedLines) all() []string {
	s.mu.Lock()
	defer s.mu.Unlock()
	return append([]string(nil), s.ls...)
}

// runLazyOnce model-checks LazyOnce.tla (with its spec mutants) and replays every schedule.
func runLazyOnce(c *Ctx, keyPrefix string, keep func(key string) bool) {
	runLazyOnceV(c, keyPrefix, keep, []int{0, 1, 2, 3})
}

// runLazyOnceV: variants 0-3 go through Logger.WithLazy, 4-5 through SugaredLogger.WithLazy.
func runLazyOnceV(c *Ctx, keyPrefix string, keep func(key string) bool, variants []int) {
	c.MustTLC(TLCOpts{Module: "LazyOnce", Cfg: "LazyOnce.check"})
	c.MustTLC(TLCOpts{Module: "LazyOnce", Cfg: "LazyOnce.check", Consts: map[string]string{"OnceKind": `"flag-after"`}, ExpectViolation: true})
	c.MustTLC(TLCOpts{Module: "LazyOnce", Cfg: "LazyOnce.check", Consts: map[string]string{"OnceKind": `"cas-before"`}, ExpectViolation: true})
	var behs []loBeh
	c.MustTLC(TLCOpts{Module: "LazyOnce", Cfg: "LazyOnce.gen", OnBeh: func(raw json.RawMessage) {
		var b loBeh
		if err := json.Unmarshal(raw, &b); err == nil {
			behs = append(behs, b)
		}
	}})
	notFollowed := 0
	for i, b := range behs {
		if c.Saturated() {
			break
		}
		for vi, v := range variants {
			if !c.Thorough() && (i+vi)%(len(variants)+2) != 0 {
				continue
			}
			if notFollowed >= 15 {
				continue
			}
			fs, inc := replayLazyOnce(b, v)
			if inc != "" {
				notFollowed++
				c.Note("lazy first-use schedule not followed: %s", inc)
				c.Add("schedules_not_followed", 1)
				continue
			}
			for _, f := range fs {
				if keep(f.Key) {
					c.Violation(keyPrefix+f.Key, f.What, map[string]interface{}{"lazyonce": b, "variant": v})
				}
			}
			c.Add("traces_validated_against_impl", 1)
		}
	}
	c.Set("lazy_first_use_schedules", int64(len(behs)))
}
