package main

import (
	"io"
	"encoding/json"
	"fmt"
	"math/rand"
	"strings"

	"go.uber.org/zap"
	"go.uber.org/zap/zapcore"
	"go.uber.org/zap/zapio"
	"go.uber.org/zap/zaptest/observer"
)

// C17 — zapio.Writer logs exactly the lines of the byte stream, however it is chunked.
// Spec: ZapIO.tla.  TLC checks the implementation-shaped writeLine loop against the
// reference Lines(); the generator config enumerates every chunking / Sync placement up to
// the bound and each behaviour is replayed on a real zapio.Writer over an observer core.

type zapioStep struct {
	Op     string     `json:"op"`
	C      []string   `json:"c"`
	N      int        `json:"n"`
	Logged [][]string `json:"logged"`
	En     bool       `json:"en"`
}

func init() { register("C17", checkC17) }

// symbol concretisations: abstract x / y -> byte strings without '\n'
func zapioAlphabets(rng *rand.Rand, n int) []map[string]string {
	base := []map[string]string{
		{"x": "x", "y": "y"},
		{"x": "\r", "y": "\r\r"},
		{"x": "\x00\xff", "y": "é"[:1]},
		{"x": strings.Repeat("L", 5000), "y": " "},
		{"x": "\"\\", "y": "\t "},
	}
	for len(base) < n {
		mk := func() string {
			l := 1 + rng.Intn(6)
			b := make([]byte, l)
			for i := range b {
				b[i] = byte(rng.Intn(256))
				if b[i] == '\n' {
					b[i] = 0
				}
			}
			return string(b)
		}
		base = append(base, map[string]string{"x": mk(), "y": mk()})
	}
	return base[:n]
}

func concZapio(sym []string, al map[string]string) string {
	var b strings.Builder
	for _, s := range sym {
		if s == "n" {
			b.WriteByte('\n')
		} else {
			b.WriteString(al[s])
		}
	}
	return b.String()
}

func checkC17(c *Ctx) {
	c.Assume("symbols x,y of the spec alphabet are concretised to a fixed set of hostile byte strings plus seeded random ones (no newline inside); stream structure (newline positions, chunking, Sync placement) is exhaustive inside the bound")
	// 1. exhaustive check of the implementation-shaped model against the reference
	maxLen := c.Pick(5, 6)
	c.MustTLC(TLCOpts{Module: "ZapIO", Cfg: "ZapIO.check", Consts: map[string]string{"MaxLen": fmt.Sprint(maxLen)}})
	// 2. spec-level mutants: the invariants are not vacuous
	c.MustTLC(TLCOpts{Module: "ZapIO", Cfg: "ZapIO.check", Consts: map[string]string{"FastPathGuard": "FALSE", "MaxLen": "4"}, ExpectViolation: true})
	c.MustTLC(TLCOpts{Module: "ZapIO", Cfg: "ZapIO.check", Consts: map[string]string{"ResetOnFlush": "FALSE", "MaxLen": "4"}, ExpectViolation: true})

	rng := rand.New(rand.NewSource(c.Seed))
	alphabets := zapioAlphabets(rng, c.Pick(6, 10))
	// a line far longer than any plausible internal buffer limit (used on a fraction of the behaviours)
	huge := map[string]string{"x": strings.Repeat("A", 70000), "y": strings.Repeat("b", 66000)}
	long := map[string]string{"x": strings.Repeat("L", 5000), "y": strings.Repeat("m", 1100)}
	nbeh := 0
	// rotate which alphabets go first by seed so different seeds cover different members
	rng.Shuffle(len(alphabets), func(i, j int) { alphabets[i], alphabets[j] = alphabets[j], alphabets[i] })

	distinct := map[string]bool{}
	replay := func(raw json.RawMessage) {
		var steps []zapioStep
		if err := json.Unmarshal(raw, &steps); err != nil {
			c.Inconclusive("bad behaviour json: %v: %s", err, raw)
			return
		}
		c.Add("traces_validated_against_impl", 1)
		if len(steps) > 2 {
			c.Sample(steps)
		}
		nbeh++
		use := []map[string]string{alphabets[nbeh%len(alphabets)], alphabets[(nbeh+1)%len(alphabets)], alphabets[(nbeh+3)%len(alphabets)]}
		if c.Thorough() {
			use = alphabets
		}
		if nbeh%37 == 0 {
			use = append(use, long)
		}
		if nbeh%1499 == 0 {
			use = append(use, huge)
		}
		for ai, al := range use {
			if bad, key, what := replayZapio(steps, al); bad {
				// reproduce once more before reporting
				if strings.HasPrefix(key, "HARNESS/") {
					c.Inconclusive("%s: %s", key, what)
				} else if bad2, _, _ := replayZapio(steps, al); bad2 {
					c.Violation(key, what, map[string]interface{}{"steps": steps, "alphabet": al})
				} else {
					c.Inconclusive("C17 non-reproducible: %s", what)
				}
			}
			_ = ai
		}
		distinct[string(raw)] = true
	}
	if c.Replay != "" {
		var rp struct {
			Replay struct {
				Steps    []zapioStep       `json:"steps"`
				Alphabet map[string]string `json:"alphabet"`
			} `json:"replay"`
		}
		if err := readJSON(c.Replay, &rp); err != nil {
			c.Fatalf("replay file: %v", err)
		}
		if bad, key, what := replayZapio(rp.Replay.Steps, rp.Replay.Alphabet); bad {
			c.Violation(key, what, rp.Replay)
		}
		return
	}
	// 3. generator: every behaviour (all chunkings, Sync positions, final Close)
	gl := c.Pick(4, 5)
	c.MustTLC(TLCOpts{Module: "ZapIO", Cfg: "ZapIO.gen", Consts: map[string]string{"MaxLen": fmt.Sprint(gl), "MaxOps": fmt.Sprint(gl + 1)}, OnBeh: replay})
	// level toggles (shorter streams)
	c.MustTLC(TLCOpts{Module: "ZapIO", Cfg: "ZapIO.gen", Consts: map[string]string{"MaxLen": "3", "MaxOps": "4", "MaxToggles": "2"}, OnBeh: replay})
	c.Set("exhaustive", true)
	c.Set("rule", "every behaviour of ZapIO.tla up to the stated MaxLen/MaxOps (all streams over {x,y,newline}, all partitions into Write calls incl. empty writes, Sync at every position, final Close, optional level toggles), each replayed with several byte concretisations; distinct = distinct behaviours")
	c.Set("distinct_behaviours", int64(len(distinct)))
}

// replayZapio drives a real zapio.Writer and evaluates the property's own predicate.
func replayZapio(steps []zapioStep, al map[string]string) (bad bool, key, what string) {
	defer func() {
		if r := recover(); r != nil {
			bad, key, what = true, "C17/panic", fmt.Sprintf("zapio.Writer panicked: %v", r)
		}
	}()
	lvl := zap.NewAtomicLevelAt(zap.InfoLevel)
	core, logs := observer.New(lvl)
	w := &zapio.Writer{Log: zap.New(core), Level: zap.InfoLevel}
	// the rest of the process is not idle between two calls: another Writer holds a fragment of its own, and a
	// logger encodes entries (the writer's state is its own: none of this is an action of ZapIO.tla)
	noiseCore, noiseLogs := observer.New(zap.InfoLevel)
	w2 := &zapio.Writer{Log: zap.New(noiseCore), Level: zap.InfoLevel}
	noiseLog := zap.New(zapcore.NewCore(zapcore.NewJSONEncoder(zapcore.EncoderConfig{MessageKey: "m"}), zapcore.AddSync(io.Discard), zap.InfoLevel))
	noise := func(i int) (bool, string, string) {
		w2.Write([]byte("##other-writer-fragment##"))
		noiseLog.Info("##unrelated entry##", zap.String("k", "##unrelated##"), zap.Int("i", i))
		if i%2 == 1 {
			w2.Write([]byte("\n"))
			if es := noiseLogs.TakeAll(); len(es) != 1 || strings.Trim(es[0].Message, "#otherwifagmn-") != "" {
				return true, "C17/lines-differ", fmt.Sprintf("a second zapio.Writer used between the calls logged %v for fragments of '##other-writer-fragment##'", es)
			}
		}
		return false, "", ""
	}
	enabled := true
	// reference on concrete bytes
	var want []string
	cur := ""
	// the caller owns p: like io.Copy it reuses one transfer buffer for successive Writes and
	// overwrites it afterwards (io.Writer: "implementations must not retain p")
	xfer := make([]byte, 0, 64)
	for i, st := range steps {
		before := logs.Len()
		switch st.Op {
		case "W":
			p := concZapio(st.C, al)
			xfer = append(xfer[:0], p...)
			n, err := w.Write(xfer)
			if string(xfer) != p {
				return true, "C17/caller-slice-modified", fmt.Sprintf("step %d Write(%q) modified the caller's slice to %q", i, p, xfer)
			}
			for k := range xfer[:cap(xfer)] {
				xfer[:cap(xfer)][k] = '#'
			}
			if n != len(p) || err != nil {
				return true, "C17/write-result", fmt.Sprintf("step %d Write(%q) returned (%d, %v), want (%d, nil)", i, p, n, err, len(p))
			}
			if enabled {
				rest := p
				for {
					i := strings.IndexByte(rest, '\n')
					if i < 0 {
						cur += rest
						break
					}
					want = append(want, cur+rest[:i])
					cur = ""
					rest = rest[i+1:]
				}
			}
		case "S", "C":
			var err error
			if st.Op == "S" {
				err = w.Sync()
			} else {
				err = w.Close()
			}
			if err != nil {
				return true, "C17/sync-error", fmt.Sprintf("step %d %s returned %v", i, st.Op, err)
			}
			if cur != "" && enabled {
				want = append(want, cur)
			}
			cur = "" // a flush while the level is disabled discards the pending fragment
		case "E":
			enabled = !enabled
			if enabled {
				lvl.SetLevel(zap.InfoLevel)
			} else {
				lvl.SetLevel(zap.ErrorLevel)
			}
		}
		if bad, key, what := noise(i); bad {
			return bad, key, what
		}
		if !enabled && logs.Len() != before {
			return true, "C17/logged-while-disabled", fmt.Sprintf("step %d %s logged %d message(s) while the level is disabled", i, st.Op, logs.Len()-before)
		}
		{
			// expected value = the spec's predicted observable (TLC has checked it equals Lines(consumed));
			// the Go-side recomputation above only guards the harness itself.
			specWant := []string{}
			for _, l := range st.Logged {
				specWant = append(specWant, concZapio(l, al))
			}
			if strings.Join(specWant, "\n") != strings.Join(want, "\n") || len(specWant) != len(want) {
				return true, "HARNESS/C17-disagrees-with-spec", fmt.Sprintf("spec predicts %q, harness reference %q", specWant, want)
			}
			got := []string{}
			for _, e := range logs.All() {
				got = append(got, e.Message)
				if e.Level != zap.InfoLevel {
					return true, "C17/level", fmt.Sprintf("message logged at %v, writer level is info", e.Level)
				}
			}
			if len(got) != len(want) {
				return true, "C17/lines-differ", fmt.Sprintf("after step %d (%s %q): logged %q, lines of the stream are %q", i, st.Op, concZapio(st.C, al), got, want)
			}
			for k := range got {
				if got[k] != want[k] {
					return true, "C17/lines-differ", fmt.Sprintf("after step %d (%s %q): logged %q, lines of the stream are %q", i, st.Op, concZapio(st.C, al), got, want)
				}
			}
		}
	}
	_ = zapcore.InfoLevel
	return false, "", ""
}
