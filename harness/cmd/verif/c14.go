package main

import (
	"sync"
	"encoding/json"
	"errors"
	"fmt"
	"math/rand"
	"reflect"
	"strings"
	"time"

	"go.uber.org/zap"
	"go.uber.org/zap/zapcore"
	"go.uber.org/zap/zaptest/observer"
)

// C14 — SugaredLogger never drops or misattributes loosely-typed arguments.
// Specs: Sugar.tla (sweetenFields cursor), SugarMsg.tla (message case table).

func init() { register("C14", checkC14) }

type sugarItem struct {
	K string `json:"k"`
	A int    `json:"a"`
	B int    `json:"b"`
}
type sugarDiag struct {
	K string `json:"k"`
	A []int  `json:"a"`
}
type sugarBeh struct {
	Args   []string    `json:"args"`
	Fields []sugarItem `json:"fields"`
	Diags  []sugarDiag `json:"diags"`
}

type dualErr struct{ msg string }

func (e dualErr) Error() string { return e.msg }
func (e dualErr) MarshalLogObject(enc zapcore.ObjectEncoder) error {
	enc.AddString("dual", e.msg)
	return nil
}

type strg struct{ s string }

func (s strg) String() string { return s.s }

// sugarMember picks a concrete argument for a class; variant selects among the members.
func sugarMember(class string, pos, variant int) interface{} {
	switch class {
	case "F":
		return []zap.Field{zap.Int(fmt.Sprintf("f%d", pos), pos), zap.String("", "emptykey"), zap.Skip(), zap.Namespace(fmt.Sprintf("ns%d", pos)),
			zap.Error(errors.New("in-field")), zap.Any("error", pos)}[variant%6]
	case "E":
		return []interface{}{errors.New(fmt.Sprintf("err%d", pos)), fmt.Errorf("wrap%d: %w", pos, errors.New("cause")), dualErr{fmt.Sprintf("dual%d", pos)}}[variant%3]
	case "S":
		return []string{fmt.Sprintf("k%d", pos), "", "error", "dup", "ключ\n\"q\""}[variant%5]
	case "X":
		return []interface{}{pos, 3.5, true, []int{1, 2}, struct{ A int }{pos}, time.Duration(pos), strg{"sg"}, []byte("bs"), map[string]int{"a": 1}, &pos}[variant%10]
	case "Z":
		return nil
	}
	return nil
}

func checkC14(c *Ctx) {
	c.Assume("argument classes F/E/S/X/Z are concretised with several members each (typed fields incl. Skip/Namespace, plain/wrapped/marshaler errors, empty/duplicate/hostile keys, ints/floats/structs/slices/pointers/Stringers); positions and lengths are exhaustive inside the bound")
	maxArgs := c.Pick(5, 6)
	c.MustTLC(TLCOpts{Module: "Sugar", Cfg: "Sugar.check", Consts: map[string]string{"MaxArgs": "6"}})
	c.MustTLC(TLCOpts{Module: "Sugar", Cfg: "Sugar.check", Consts: map[string]string{"ErrorSkip": "2", "MaxArgs": "4"}, ExpectViolation: true})
	c.MustTLC(TLCOpts{Module: "Sugar", Cfg: "Sugar.check", Consts: map[string]string{"DanglingTest": `"len"`, "MaxArgs": "4"}, ExpectViolation: true})
	rng := rand.New(rand.NewSource(c.Seed))
	n := 0
	c.MustTLC(TLCOpts{Module: "Sugar", Cfg: "Sugar.check", Gen: true, Consts: map[string]string{"MaxArgs": fmt.Sprint(maxArgs), "Emit": "TRUE"}, OnBeh: func(raw json.RawMessage) {
		if c.Saturated() {
			return
		}
		var b sugarBeh
		if err := json.Unmarshal(raw, &b); err != nil {
			c.Inconclusive("bad Sugar behaviour: %v", err)
			return
		}
		n++
		if n%3001 == 1 {
			c.Sample(b)
		}
		variant := rng.Intn(1000)
		// every front end on short lists, a rotating subset on long ones
		methods := sugarMethods
		if len(b.Args) > 3 {
			methods = []string{sugarMethods[n%len(sugarMethods)], sugarMethods[(n/7)%len(sugarMethods)]}
		}
		for _, m := range methods {
			for _, f := range replaySugar(b, m, variant) {
				c.Violation(f.Key, f.What, map[string]interface{}{"beh": b, "method": m, "variant": variant})
			}
			c.Add("traces_validated_against_impl", 1)
		}
	}})
	c.Set("argument_lists", int64(n))
	// messages
	nm := 0
	c.MustTLC(TLCOpts{Module: "SugarMsg", Cfg: "SugarMsg.gen", Consts: map[string]string{"MaxArgs": fmt.Sprint(c.Pick(2, 3))}, OnBeh: func(raw json.RawMessage) {
		var b sugarMsgBeh
		if err := json.Unmarshal(raw, &b); err != nil {
			c.Inconclusive("bad SugarMsg behaviour: %v", err)
			return
		}
		nm++
		if nm%97 == 1 {
			c.Sample(b)
		}
		for _, f := range replaySugarMsg(b, rng.Intn(1000)) {
			c.Violation(f.Key, f.What, map[string]interface{}{"beh": b})
		}
		c.Add("traces_validated_against_impl", 1)
	}})
	c.Set("message_cases", int64(nm))
	for _, f := range replaySugarConcurrentDiagnostics() {
		c.Violation(f.Key, f.What, map[string]interface{}{"mode": "concurrent-diagnostics"})
	}
	// WithLazy arguments reach every entry also when several goroutines make the first use together
	runLazyOnceV(c, "C14/", func(k string) bool { return k == "lazy/context" || k == "lazy/entry-missing" || k == "lazy/panic" }, []int{4, 5})
	c.Set("exhaustive", true)
}

var sugarMethods = []string{"With", "WithLazy", "WithLazy-then-parent-activity", "Debugw", "Infow", "Warnw", "Errorw", "DPanicw", "Panicw", "Fatalw", "Logw"}

func sugarLogger() (*zap.SugaredLogger, *observer.ObservedLogs) {
	core, logs := observer.New(zap.DebugLevel)
	l := zap.New(core, zap.WithFatalHook(zapcore.WriteThenPanic))
	return l.Sugar(), logs
}

func replaySugar(b sugarBeh, method string, variant int) (finds []Finding) {
	add := func(key, f string, a ...interface{}) { finds = append(finds, Finding{Key: key, What: fmt.Sprintf(f, a...)}) }
	args := make([]interface{}, len(b.Args))
	for i, cl := range b.Args {
		args[i] = sugarMember(cl, i+1, variant+i)
	}
	desc := fmt.Sprintf("%s(%v) with classes %v", method, describeArgs(args), b.Args)
	s, logs := sugarLogger()
	// a third of the cases on a development-mode logger: malformed arguments are reported there too, not thrown
	dev := variant%3 == 2
	if dev {
		s = s.WithOptions(zap.Development())
		desc += " on a Development() logger"
	}
	func() {
		defer func() {
			r := recover()
			if r == nil {
				return
			}
			if method == "Panicw" || method == "Fatalw" || (dev && method == "DPanicw") {
				if str, ok := r.(string); ok && str == "MAIN" {
					return
				}
			}
			add("C14/panic", "%s panicked: %v", desc, r)
		}()
		switch method {
		case "With":
			s.With(args...).Info("MAIN")
		case "WithLazy":
			s.WithLazy(args...).Info("MAIN")
		case "WithLazy-then-parent-activity":
			// the lazy child keeps its arguments until first use: whatever the parent does meanwhile must not touch them
			child := s.WithLazy(args...)
			s.With("zz", 1, "yy", "two").Infow("PARENT-ACTIVITY", "other", "x", "more", 3)
			s.Infow("PARENT-ACTIVITY", "a", 1)
			s.WithLazy("lazy-sibling", true)
			child.Info("MAIN")
		case "Debugw":
			s.Debugw("MAIN", args...)
		case "Infow":
			s.Infow("MAIN", args...)
		case "Warnw":
			s.Warnw("MAIN", args...)
		case "Errorw":
			s.Errorw("MAIN", args...)
		case "DPanicw":
			s.DPanicw("MAIN", args...)
		case "Panicw":
			s.Panicw("MAIN", args...)
		case "Fatalw":
			s.Fatalw("MAIN", args...)
		case "Logw":
			s.Logw(zapcore.WarnLevel, "MAIN", args...)
		}
	}()
	if len(finds) > 0 {
		return
	}
	var main *observer.LoggedEntry
	var diag []observer.LoggedEntry
	for _, e := range logs.All() {
		e := e
		if e.Message == "PARENT-ACTIVITY" {
			continue
		}
		if e.Message == "MAIN" {
			if main != nil {
				add("C14/duplicate-entry", "%s: the entry was logged twice", desc)
			}
			main = &e
		} else {
			diag = append(diag, e)
		}
	}
	if main == nil {
		add("C14/entry-lost", "%s: the entry itself was not logged", desc)
		return
	}
	// expected fields, in order
	want := []zap.Field{}
	for _, it := range b.Fields {
		switch it.K {
		case "field":
			want = append(want, args[it.A-1].(zap.Field))
		case "error":
			want = append(want, zap.Error(args[it.A-1].(error)))
		case "pair":
			want = append(want, zap.Any(args[it.A-1].(string), args[it.B-1]))
		}
	}
	got := main.Context
	if len(got) != len(want) {
		add("C14/fields-differ", "%s: logged fields %v, want %v (typed fields unchanged, string-keyed pairs as zap.Any, first bare error under \"error\", all in argument order)", desc, descFields(got), descFields(want))
	} else {
		for i := range want {
			if !reflect.DeepEqual(got[i], want[i]) {
				add("C14/fields-differ", "%s: field #%d is %s, want %s", desc, i, descFields(got[i:i+1]), descFields(want[i:i+1]))
				break
			}
		}
	}
	// every malformed argument must be identified in a separate error-level entry
	for _, d := range b.Diags {
		found := false
		for _, e := range diag {
			if e.Level != zapcore.ErrorLevel {
				continue
			}
			enc := zapcore.NewMapObjectEncoder()
			for _, f := range e.Context {
				f.AddTo(enc)
			}
			switch d.K {
			case "odd":
				wantEnc := zapcore.NewMapObjectEncoder()
				zap.Any("ignored", args[d.A[0]-1]).AddTo(wantEnc)
				if v, ok := enc.Fields["ignored"]; ok && reflect.DeepEqual(v, wantEnc.Fields["ignored"]) {
					found = true
				}
			case "multi":
				for _, f := range e.Context {
					if reflect.DeepEqual(f, zap.Error(args[d.A[0]-1].(error))) {
						found = true
					}
				}
			case "nonstring":
				arr, ok := enc.Fields["invalid"].([]interface{})
				if !ok || len(arr) != len(d.A) {
					continue
				}
				all := true
				for k, pos := range d.A {
					m, _ := arr[k].(map[string]interface{})
					we := zapcore.NewMapObjectEncoder()
					zap.Any("key", args[pos-1]).AddTo(we)
					zap.Any("value", args[pos]).AddTo(we)
					if m == nil || fmt.Sprint(m["position"]) != fmt.Sprint(pos-1) || !reflect.DeepEqual(m["key"], we.Fields["key"]) || !reflect.DeepEqual(m["value"], we.Fields["value"]) {
						all = false
					}
				}
				found = all
			}
			if found {
				break
			}
		}
		if !found {
			add("C14/malformed-arg-vanished", "%s: malformed argument(s) at position(s) %v (%s) are neither logged as fields nor identified in a separate error-level entry; diagnostic entries: %v", desc, d.A, d.K, descEntries(diag))
		}
	}
	if len(b.Diags) == 0 && len(diag) > 0 {
		add("C14/spurious-diagnostic", "%s: well-formed arguments produced extra entries %v", desc, descEntries(diag))
	}
	return finds
}

func describeArgs(args []interface{}) string {
	parts := []string{}
	for _, a := range args {
		switch v := a.(type) {
		case zap.Field:
			parts = append(parts, fmt.Sprintf("Field{%q,%v}", v.Key, v.Type))
		case error:
			parts = append(parts, fmt.Sprintf("error(%T %v)", v, v)) // %v survives typed nil pointers
		default:
			parts = append(parts, fmt.Sprintf("%T(%v)", a, a))
		}
	}
	return strings.Join(parts, ", ")
}

func descFields(fs []zap.Field) string {
	parts := []string{}
	for _, f := range fs {
		parts = append(parts, fmt.Sprintf("{%q t=%d i=%d s=%q if=%v}", f.Key, f.Type, f.Integer, f.String, f.Interface))
	}
	return "[" + strings.Join(parts, " ") + "]"
}

func descEntries(es []observer.LoggedEntry) string {
	parts := []string{}
	for _, e := range es {
		parts = append(parts, fmt.Sprintf("%s %q %v", e.Level, e.Message, e.ContextMap()))
	}
	return "[" + strings.Join(parts, "; ") + "]"
}

// ---------------------------------------------------------------- messages

type sugarMsgBeh struct {
	Fam   string   `json:"fam"`
	Tmpl  string   `json:"tmpl"`
	Args  []string `json:"args"`
	Want  string   `json:"want"`
	Known bool     `json:"known"`
}

// fmtStrg implements both fmt.Formatter and fmt.Stringer: fmt uses Format.
type fmtStrg struct{ id int }

func (f fmtStrg) String() string { return "short" }
func (f fmtStrg) Format(s fmt.State, c rune) { fmt.Fprintf(s, "ID<%d>", f.id) }

func msgArg(class string, v int) interface{} {
	switch class {
	case "str":
		return []string{"hello", "", " spaced ", "two words"}[v%4]
	case "str-with-verb":
		return []string{"100%d", "%s", "%!", "%%"}[v%4]
	case "str-trailing-nl":
		return []string{"line\n", "\n", "a\n\n"}[v%3]
	case "int":
		return []interface{}{42, -1, uint8(7), 3.25}[v%4]
	case "err":
		return errors.New("boom")
	case "nil":
		return nil
	case "stringer":
		return strg{"stringer-value"}
	case "nilptr-stringer":
		return (*jePtrStringer)(nil)
	case "nilptr-err":
		return (*jePtrErr)(nil)
	case "fmt-stringer":
		return fmtStrg{7}
	}
	return nil
}

func msgTemplates(class string) []string {
	switch class {
	case "empty":
		return []string{""}
	case "plain":
		return []string{"plain text", " "}
	case "one-verb":
		return []string{"v=%v", "%d items", "%s"}
	case "two-verbs":
		return []string{"%v and %v", "%d-%s"}
	case "percent-literal":
		return []string{"100%% done", "%%v"}
	case "trailing-newline":
		return []string{"line %v\n", "\n"}
	}
	return nil
}

func replaySugarMsg(b sugarMsgBeh, variant int) (finds []Finding) {
	add := func(key, f string, a ...interface{}) { finds = append(finds, Finding{Key: key, What: fmt.Sprintf(f, a...)}) }
	args := make([]interface{}, len(b.Args))
	for i, cl := range b.Args {
		args[i] = msgArg(cl, variant+i)
	}
	for _, tmpl := range msgTemplates(b.Tmpl) {
		var want string
		switch b.Want {
		case "sprint":
			want = fmt.Sprint(args...)
		case "sprintf":
			want = fmt.Sprintf(tmpl, args...)
		case "template":
			want = tmpl
		case "sprintln-minus-newline":
			w := fmt.Sprintln(args...)
			want = w[:len(w)-1]
		}
		type call struct {
			name string
			f    func(s *zap.SugaredLogger)
		}
		var calls []call
		switch b.Fam {
		case "print":
			calls = []call{{"Debug", func(s *zap.SugaredLogger) { s.Debug(args...) }}, {"Info", func(s *zap.SugaredLogger) { s.Info(args...) }},
				{"Warn", func(s *zap.SugaredLogger) { s.Warn(args...) }}, {"Error", func(s *zap.SugaredLogger) { s.Error(args...) }},
				{"DPanic", func(s *zap.SugaredLogger) { s.DPanic(args...) }}, {"Panic", func(s *zap.SugaredLogger) { s.Panic(args...) }},
				{"Fatal", func(s *zap.SugaredLogger) { s.Fatal(args...) }}, {"Log", func(s *zap.SugaredLogger) { s.Log(zapcore.InfoLevel, args...) }}}
		case "printf":
			calls = []call{{"Debugf", func(s *zap.SugaredLogger) { s.Debugf(tmpl, args...) }}, {"Infof", func(s *zap.SugaredLogger) { s.Infof(tmpl, args...) }},
				{"Warnf", func(s *zap.SugaredLogger) { s.Warnf(tmpl, args...) }}, {"Errorf", func(s *zap.SugaredLogger) { s.Errorf(tmpl, args...) }},
				{"DPanicf", func(s *zap.SugaredLogger) { s.DPanicf(tmpl, args...) }}, {"Panicf", func(s *zap.SugaredLogger) { s.Panicf(tmpl, args...) }},
				{"Fatalf", func(s *zap.SugaredLogger) { s.Fatalf(tmpl, args...) }}, {"Logf", func(s *zap.SugaredLogger) { s.Logf(zapcore.InfoLevel, tmpl, args...) }}}
		case "println":
			calls = []call{{"Debugln", func(s *zap.SugaredLogger) { s.Debugln(args...) }}, {"Infoln", func(s *zap.SugaredLogger) { s.Infoln(args...) }},
				{"Warnln", func(s *zap.SugaredLogger) { s.Warnln(args...) }}, {"Errorln", func(s *zap.SugaredLogger) { s.Errorln(args...) }},
				{"DPanicln", func(s *zap.SugaredLogger) { s.DPanicln(args...) }}, {"Panicln", func(s *zap.SugaredLogger) { s.Panicln(args...) }},
				{"Fatalln", func(s *zap.SugaredLogger) { s.Fatalln(args...) }}, {"Logln", func(s *zap.SugaredLogger) { s.Logln(zapcore.InfoLevel, args...) }}}
		}
		for _, cl := range calls {
			s, logs := sugarLogger()
			func() {
				defer func() { recover() }()
				cl.f(s)
			}()
			es := logs.All()
			desc := fmt.Sprintf("%s(template=%q, args=[%s])", cl.name, tmpl, describeArgs(args))
			if len(es) != 1 {
				add("C14/message-entry-count", "%s logged %d entries", desc, len(es))
				continue
			}
			if es[0].Message != want {
				key := "C14/message:" + b.Fam
				if b.Known {
					key = "C14/message:printf-empty-template-with-args"
				}
				add(key, "%s logged message %q; fmt gives %q", desc, es[0].Message, want)
			}
		}
	}
	return finds
}


// ---- malformed calls from several goroutines on one SugaredLogger ----

type c14GateCore struct {
	zapcore.Core
	entered, release chan struct{}
	once             sync.Once
}

func (c *c14GateCore) With(fs []zapcore.Field) zapcore.Core { return c } // context is irrelevant here
func (c *c14GateCore) Check(e zapcore.Entry, ce *zapcore.CheckedEntry) *zapcore.CheckedEntry {
	return ce.AddCore(e, c)
}
func (c *c14GateCore) Write(e zapcore.Entry, fs []zapcore.Field) error {
	if e.Level == zapcore.ErrorLevel {
		c.once.Do(func() { close(c.entered); <-c.release })
	}
	return c.Core.Write(e, fs)
}

// replaySugarConcurrentDiagnostics: goroutine A's report about a malformed argument is still being written (slow
// sink) when goroutine B passes malformed arguments to the same SugaredLogger. Both are reported.
func replaySugarConcurrentDiagnostics() (finds []Finding) {
	add := func(key, f string, a ...interface{}) { finds = append(finds, Finding{Key: key, What: fmt.Sprintf(f, a...)}) }
	ocore, logs := observer.New(zap.DebugLevel)
	gc := &c14GateCore{Core: ocore, entered: make(chan struct{}), release: make(chan struct{})}
	s := zap.New(gc).Sugar()
	done := make(chan struct{})
	go func() { defer close(done); s.Infow("MAIN-A", "k", 1, "danglingA") }()
	select {
	case <-gc.entered:
	case <-time.After(2 * time.Second):
		close(gc.release)
		<-done
		return []Finding{{Key: "HARNESS/C14-gate", What: "the first diagnostic never reached the core"}}
	}
	bdone := make(chan struct{})
	go func() {
		defer close(bdone)
		s.Infow("MAIN-B", "k", 2, "danglingB")
		s.Warnw("MAIN-B2", 42, "non-string key")
	}()
	select {
	case <-bdone:
	case <-time.After(2 * time.Second):
		// B waits for A's report: allowed (then it is reported afterwards)
	}
	close(gc.release)
	<-done
	<-bdone
	all := ""
	for _, e := range logs.All() {
		all += e.Message + " " + fmt.Sprint(e.ContextMap()) + "\n"
	}
	for _, want := range []string{"danglingA", "danglingB", "MAIN-A", "MAIN-B", "MAIN-B2"} {
		if !strings.Contains(all, want) {
			add("C14/malformed-arg-vanished", "two goroutines pass malformed arguments to one SugaredLogger while the first report is still being written: nothing logged mentions %q; entries:\n%s", want, all)
		}
	}
	if !strings.Contains(all, "42") {
		add("C14/malformed-arg-vanished", "two goroutines pass malformed arguments to one SugaredLogger while the first report is still being written: the non-string key 42 of the second goroutine is not reported; entries:\n%s", all)
	}
	return finds
}
