package main

import (
	"bufio"
	"context"
	"encoding/json"
	"fmt"
	"io"
	"os"
	"os/exec"
	"path/filepath"
	"regexp"
	"runtime"
	"strconv"
	"strings"
	"time"
)

const tlaJar = "/opt/veriftools/tla/tla2tools.jar:/opt/veriftools/tla/CommunityModules-deps.jar"

// TLCOpts selects how TLC is run.
type TLCOpts struct {
	Module   string // spec/<Module>.tla
	Cfg      string // spec/cfg/<Cfg>.cfg
	Workers  int    // 0 = all cores
	Timeout  time.Duration
	Simulate string            // e.g. "num=1000" => -simulate num=1000 ; with Depth
	Depth    int               // -depth for simulation
	Seed     int64             // -seed for simulation
	DFS      bool              // StateDeque queue (trace validation)
	Files    map[string][]byte // extra files placed next to the spec (e.g. trace.ndjson)
	Consts   map[string]string // textual overrides: "Name" -> "value" replaces `Name = ...` lines in cfg
	Coverage bool
	Gen      bool // generator use of a checking config: drop its VIEW, add CONSTRAINT EmitBeh
	// OnBeh is called (from one goroutine) for every "@@BEH <json>" line.
	OnBeh func(raw json.RawMessage)
	// ExpectViolation: a spec-level mutant config; TLC must report a violation.
	ExpectViolation bool
}

type TLCResult struct {
	Module, Cfg, Mode string
	Generated         int64
	Distinct          int64
	Depth             int
	Behaviours        int64
	Status            string // ok | invariant:<name> | deadlock | liveness | postcondition | error | timeout
	WallS             float64
	Tail              string
	Marks             []string // "@@<TAG> ..." lines other than behaviours
	ZeroCoverage      []string
}

var (
	reStats   = regexp.MustCompile(`^(\d+) states generated, (\d+) distinct states found`)
	reDepth   = regexp.MustCompile(`^The depth of the complete state graph search is (\d+)`)
	reInvViol = regexp.MustCompile(`^Error: Invariant (\S+) is violated`)
	reActProp = regexp.MustCompile(`^Error: Action property (\S+) is violated`)
	reSimStat = regexp.MustCompile(`^The number of states generated: (\d+)`)
	reInvFalse = regexp.MustCompile(`^Error: The invariant of (\S+) is equal to FALSE`)
)

// unquoteTLA undoes TLC's string printing ("..." with \" and \\ escapes).
func unquoteTLA(s string) string {
	s = strings.TrimSpace(s)
	if len(s) >= 2 && s[0] == '"' && s[len(s)-1] == '"' {
		s = s[1 : len(s)-1]
	}
	var b strings.Builder
	for i := 0; i < len(s); i++ {
		if s[i] == '\\' && i+1 < len(s) {
			i++
			switch s[i] {
			case 'n':
				b.WriteByte('\n')
			case 't':
				b.WriteByte('\t')
			default:
				b.WriteByte(s[i])
			}
			continue
		}
		b.WriteByte(s[i])
	}
	return b.String()
}

// RunTLC runs TLC in a scratch directory and streams behaviours to o.OnBeh.
func RunTLC(o TLCOpts) (*TLCResult, error) {
	start := time.Now()
	dir, err := os.MkdirTemp(filepath.Join(Root, "out"), "tlc-"+o.Module+"-")
	if err != nil {
		os.MkdirAll(filepath.Join(Root, "out"), 0o755)
		dir, err = os.MkdirTemp(filepath.Join(Root, "out"), "tlc-"+o.Module+"-")
		if err != nil {
			return nil, err
		}
	}
	defer os.RemoveAll(dir)
	specs, _ := filepath.Glob(filepath.Join(Root, "spec", "*.tla"))
	for _, s := range specs {
		b, err := os.ReadFile(s)
		if err != nil {
			return nil, err
		}
		os.WriteFile(filepath.Join(dir, filepath.Base(s)), b, 0o644)
	}
	cfgb, err := os.ReadFile(filepath.Join(Root, "spec", "cfg", o.Cfg+".cfg"))
	if err != nil {
		return nil, err
	}
	cfgs := string(cfgb)
	for k, v := range o.Consts {
		re := regexp.MustCompile(`(?m)^(\s*)` + regexp.QuoteMeta(k) + `\s*=.*$`)
		if !re.MatchString(cfgs) {
			return nil, fmt.Errorf("cfg %s has no constant %s to override", o.Cfg, k)
		}
		cfgs = re.ReplaceAllString(cfgs, "${1}"+k+" = "+v)
	}
	if o.Gen {
		cfgs = regexp.MustCompile(`(?m)^VIEW .*$`).ReplaceAllString(cfgs, "")
		if !strings.Contains(cfgs, "EmitBeh") {
			cfgs += "\nCONSTRAINT EmitBeh\n"
		}
	}
	os.WriteFile(filepath.Join(dir, "run.cfg"), []byte(cfgs), 0o644)
	for n, b := range o.Files {
		os.WriteFile(filepath.Join(dir, n), b, 0o644)
	}
	workers := o.Workers
	if workers <= 0 {
		workers = runtime.NumCPU()
	}
	timeout := o.Timeout
	if timeout == 0 {
		timeout = 10 * time.Minute
	}
	args := []string{"-XX:+UseParallelGC", "-Xss256m"}
	if o.DFS {
		args = append(args, "-Dtlc2.tool.queue.IStateQueue=StateDeque")
	}
	args = append(args, "-cp", tlaJar, "tlc2.TLC", "-workers", strconv.Itoa(workers),
		"-metadir", filepath.Join(dir, "meta"), "-config", "run.cfg", "-noGenerateSpecTE")
	mode := "bfs"
	if o.Simulate != "" {
		mode = "simulate"
		args = append(args, "-simulate", o.Simulate)
		if o.Depth > 0 {
			args = append(args, "-depth", strconv.Itoa(o.Depth))
		}
		args = append(args, "-seed", strconv.FormatInt(o.Seed, 10))
	}
	if o.Coverage {
		args = append(args, "-coverage", "1")
	}
	args = append(args, o.Module+".tla")
	ctx, cancel := context.WithTimeout(context.Background(), timeout)
	defer cancel()
	cmd := exec.CommandContext(ctx, "java", args...)
	cmd.Dir = dir
	cmd.Env = append(os.Environ(), "JAVA_TOOL_OPTIONS=")
	stdout, err := cmd.StdoutPipe()
	if err != nil {
		return nil, err
	}
	cmd.Stderr = cmd.Stdout
	if err := cmd.Start(); err != nil {
		return nil, err
	}
	res := &TLCResult{Module: o.Module, Cfg: o.Cfg, Mode: mode, Status: "ok"}
	var tail []string
	rd := bufio.NewReaderSize(stdout, 1<<20)
	for {
		line, err := rd.ReadString('\n')
		if len(line) > 0 {
			line = strings.TrimRight(line, "\r\n")
			if strings.HasPrefix(line, `"@@BEH `) {
				res.Behaviours++
				if o.OnBeh != nil {
					o.OnBeh(json.RawMessage(unquoteTLA(line)[len("@@BEH "):]))
				}
			} else if strings.HasPrefix(line, `"@@`) {
				res.Marks = append(res.Marks, unquoteTLA(line))
			} else {
				if m := reStats.FindStringSubmatch(line); m != nil {
					res.Generated, _ = strconv.ParseInt(m[1], 10, 64)
					res.Distinct, _ = strconv.ParseInt(m[2], 10, 64)
				} else if m := reDepth.FindStringSubmatch(line); m != nil {
					res.Depth, _ = strconv.Atoi(m[1])
				} else if m := reInvViol.FindStringSubmatch(line); m != nil {
					res.Status = "invariant:" + m[1]
				} else if m := reInvFalse.FindStringSubmatch(line); m != nil {
					res.Status = "invariant:" + m[1]
				} else if m := reActProp.FindStringSubmatch(line); m != nil {
					res.Status = "invariant:" + m[1]
				} else if m := reSimStat.FindStringSubmatch(line); m != nil {
					res.Generated, _ = strconv.ParseInt(m[1], 10, 64)
					res.Distinct = res.Generated
				} else if strings.Contains(line, "Deadlock reached") {
					res.Status = "deadlock"
				} else if strings.Contains(line, "Temporal properties were violated") {
					res.Status = "liveness"
				} else if strings.Contains(line, "Postcondition") && (strings.Contains(line, "violated") || strings.Contains(line, "is false")) {
					res.Status = "postcondition"
				} else if strings.HasPrefix(line, "Error:") && res.Status == "ok" {
					res.Status = "error: " + line
				}
				if o.Coverage && strings.HasSuffix(line, ": 0") && strings.HasPrefix(line, "<") {
					res.ZeroCoverage = append(res.ZeroCoverage, line)
				}
				tail = append(tail, line)
				if len(tail) > 60 {
					tail = tail[len(tail)-60:]
				}
			}
		}
		if err != nil {
			if err != io.EOF {
				res.Status = "error: " + err.Error()
			}
			break
		}
	}
	werr := cmd.Wait()
	res.WallS = time.Since(start).Seconds()
	res.Tail = strings.Join(tail, "\n")
	if ctx.Err() != nil {
		res.Status = "timeout"
		return res, nil
	}
	if werr != nil && res.Status == "ok" {
		res.Status = "error: " + werr.Error()
	}
	return res, nil
}

// MustTLC runs TLC and folds the outcome into the context: a spec-level failure of a
// checking config makes the run inconclusive (the spec, not zap, is then suspect and
// must be turned into a replay by hand); a mutant config must be violated.
func (c *Ctx) MustTLC(o TLCOpts) *TLCResult {
	r, err := RunTLC(o)
	if err != nil {
		c.Fatalf("TLC %s/%s did not run: %v", o.Module, o.Cfg, err)
	}
	if o.ExpectViolation {
		if !strings.HasPrefix(r.Status, "invariant:") && r.Status != "deadlock" && r.Status != "liveness" && r.Status != "postcondition" {
			c.Inconclusive("spec mutant %s/%s was NOT caught by TLC (status %s): the invariant is vacuous\n%s", o.Module, o.Cfg, r.Status, r.Tail)
		}
		c.mu.Lock()
		m, _ := c.ev.Coverage["spec_mutants_caught"].([]interface{})
		c.ev.Coverage["spec_mutants_caught"] = append(m, fmt.Sprintf("%s/%s %v -> %s after %d states", o.Module, o.Cfg, o.Consts, r.Status, r.Generated))
		c.mu.Unlock()
		return r
	}
	c.AddTLC(r)
	if r.Status != "ok" {
		c.Inconclusive("TLC %s/%s: %s\n%s", o.Module, o.Cfg, r.Status, r.Tail)
	}
	return r
}

// MustTLCTrace runs a trace-validation config: acceptance is decided by the caller from Status.
func (c *Ctx) MustTLCTrace(o TLCOpts) *TLCResult {
	r, err := RunTLC(o)
	if err != nil {
		c.Fatalf("TLC %s/%s did not run: %v", o.Module, o.Cfg, err)
	}
	c.AddTLC(r)
	if strings.HasPrefix(r.Status, "error") || r.Status == "timeout" {
		c.Inconclusive("TLC %s/%s: %s\n%s", o.Module, o.Cfg, r.Status, r.Tail)
	}
	return r
}
