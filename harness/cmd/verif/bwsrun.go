package main

import (
	"fmt"
	"strings"
	"sync"
	"time"

	"go.uber.org/zap/zapcore"
)

// ---- shared BufferedWriteSyncer rig: recording sink, harness clock, payload coding ----

const bwsUnit = 4 // real bytes per abstract byte: [client, write#, offset, length]

// bwsPayload is the concrete payload of the i-th write (1-based) of client ci with abstract length n.
func bwsPayload(ci, i, n int) []byte {
	b := make([]byte, 0, n*bwsUnit)
	for k := 1; k <= n; k++ {
		b = append(b, byte(ci), byte(i), byte(k), byte(n))
	}
	return b
}

// sinkItem is one call received by the wrapped WriteSyncer.
type sinkItem struct {
	Sync bool
	Data []byte
	Seq  int64
}

type recSink struct {
	mu    sync.Mutex
	items []sinkItem
	seq   *int64 // shared logical clock (guarded by mu of the owner rig)
	onEv  func(kind string, n int)
	// scripted failures (C13/C10)
	writeErr error
}

func (s *recSink) Write(p []byte) (int, error) {
	s.mu.Lock()
	defer s.mu.Unlock()
	s.items = append(s.items, sinkItem{Data: append([]byte(nil), p...)})
	if s.onEv != nil {
		s.onEv("sink.w", len(p))
	}
	return len(p), s.writeErr
}

func (s *recSink) Sync() error {
	s.mu.Lock()
	defer s.mu.Unlock()
	s.items = append(s.items, sinkItem{Sync: true})
	if s.onEv != nil {
		s.onEv("sink.s", 0)
	}
	return nil
}

func (s *recSink) snapshot() []sinkItem {
	s.mu.Lock()
	defer s.mu.Unlock()
	return append([]sinkItem(nil), s.items...)
}

func (s *recSink) syncs() int {
	s.mu.Lock()
	defer s.mu.Unlock()
	n := 0
	for _, it := range s.items {
		if it.Sync {
			n++
		}
	}
	return n
}

// harnessClock hands out a ticker whose channel the harness drives.
type harnessClock struct {
	ch chan time.Time
}

func newHarnessClock() *harnessClock { return &harnessClock{ch: make(chan time.Time, 1)} }
func (c *harnessClock) Now() time.Time { return time.Unix(1700000000, 0) }
func (c *harnessClock) NewTicker(time.Duration) *time.Ticker {
	return &time.Ticker{C: c.ch}
}

// bwsRig owns one real BufferedWriteSyncer under test and the bookkeeping needed to evaluate C12.
type bwsRig struct {
	size     int // abstract Size
	sink     *recSink
	clk      *harnessClock
	bws      *zapcore.BufferedWriteSyncer
	mu       sync.Mutex
	accepted [][]byte // payloads of accepted writes in linearization order
}

func newBwsRig(size int) *bwsRig {
	r := &bwsRig{size: size, sink: &recSink{}, clk: newHarnessClock()}
	r.bws = &zapcore.BufferedWriteSyncer{WS: r.sink, Size: size * bwsUnit, FlushInterval: time.Hour, Clock: r.clk}
	return r
}

// loopRunning reports whether this instance's flush goroutine exists (its receiver pointer shows in
// the goroutine dump).
func (r *bwsRig) loopRunning() bool { return r.loopStack() != "" }

func (r *bwsRig) loopStack() string {
	pat := fmt.Sprintf("BufferedWriteSyncer).flushLoop(%p", r.bws)
	for _, g := range strings.Split(stacks(), "\n\n") {
		if strings.Contains(g, pat) {
			return g
		}
	}
	return ""
}

func (r *bwsRig) accept(p []byte) int {
	r.mu.Lock()
	defer r.mu.Unlock()
	r.accepted = append(r.accepted, p)
	return len(r.accepted)
}

func (r *bwsRig) nAccepted() int {
	r.mu.Lock()
	defer r.mu.Unlock()
	return len(r.accepted)
}

func concat(bs [][]byte) []byte {
	var out []byte
	for _, b := range bs {
		out = append(out, b...)
	}
	return out
}

// checkStream evaluates, on the real sink, the state predicates of C12:
// NoLossDupOrder (sink data is a prefix of the accepted stream), HeldBack (at most Size held back,
// only meaningful when no write is in flight), WholeWrites (chunk boundaries are write boundaries).
// inflight: payloads of writes that have entered but not yet returned (their bytes may already be in the sink).
func (r *bwsRig) checkStream(items []sinkItem, accepted [][]byte, quiescent bool) (key, what string) {
	stream := concat(accepted)
	var data []byte
	bounds := map[int]bool{0: true}
	off := 0
	for _, a := range accepted {
		off += len(a)
		bounds[off] = true
	}
	pos := 0
	for i, it := range items {
		if it.Sync {
			continue
		}
		if len(it.Data) == 0 {
			continue
		}
		if !bounds[pos] || !bounds[pos+len(it.Data)] {
			if pos+len(it.Data) <= len(stream) {
				return "C12/whole-writes", fmt.Sprintf("sink write #%d covers stream bytes [%d,%d) which does not start and end on caller-write boundaries %v: a caller write was split across sink writes", i, pos, pos+len(it.Data), sortedKeys(bounds))
			}
		}
		pos += len(it.Data)
		data = append(data, it.Data...)
	}
	if len(data) > len(stream) || string(data) != string(stream[:len(data)]) {
		return "C12/stream", fmt.Sprintf("bytes received by the sink are not a prefix of the concatenation of accepted writes (sink has %d bytes, accepted %d): lost, duplicated or reordered data; sink=%v accepted=%v", len(data), len(stream), describeBytes(data), describeBytes(stream))
	}
	if quiescent && len(stream)-len(data) > r.size*bwsUnit {
		return "C12/held-back", fmt.Sprintf("%d bytes are held back, configured size is %d", len(stream)-len(data), r.size*bwsUnit)
	}
	return "", ""
}

// syncedThrough: some sync mark in the sink is preceded by at least the first n accepted writes.
func syncedThrough(items []sinkItem, accepted [][]byte, n int) bool {
	need := len(concat(accepted[:n]))
	if need == 0 {
		return true // nothing was accepted before the call
	}
	have := 0
	for _, it := range items {
		if it.Sync {
			if have >= need {
				return true
			}
			continue
		}
		have += len(it.Data)
	}
	return false
}

func describeBytes(b []byte) string {
	// decode [client, write#, offset, len] units into "c<client>w<write>[a..b]/<len>" runs
	out := ""
	for i := 0; i+bwsUnit <= len(b); i += bwsUnit {
		out += fmt.Sprintf("(%d.%d %d/%d)", b[i], b[i+1], b[i+2], b[i+3])
		if len(out) > 400 {
			return out + "..."
		}
	}
	if len(b)%bwsUnit != 0 {
		out += fmt.Sprintf("+%d stray bytes", len(b)%bwsUnit)
	}
	return out
}

func sortedKeys(m map[int]bool) []int {
	ks := []int{}
	for k := range m {
		ks = append(ks, k)
	}
	for i := range ks {
		for j := i + 1; j < len(ks); j++ {
			if ks[j] < ks[i] {
				ks[i], ks[j] = ks[j], ks[i]
			}
		}
	}
	return ks
}

// abstractSink renders the real sink in the vocabulary of the spec for conformance comparison:
// each item is "s" or a list of [client, write#, offset, len] tuples.
func abstractSink(items []sinkItem) []interface{} {
	out := []interface{}{}
	for _, it := range items {
		if it.Sync {
			out = append(out, "s")
			continue
		}
		chunk := [][]int{}
		for i := 0; i+bwsUnit <= len(it.Data); i += bwsUnit {
			chunk = append(chunk, []int{int(it.Data[i]), int(it.Data[i+1]), int(it.Data[i+2]), int(it.Data[i+3])})
		}
		out = append(out, chunk)
	}
	return out
}
