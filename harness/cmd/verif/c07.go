package main

import (
	"encoding/json"
	"fmt"
	"math/rand"
	"strings"
	"sync"
	"time"

	"go.uber.org/zap"
	"go.uber.org/zap/zapcore"
	"go.uber.org/zap/zaptest/observer"
)

// C07 — logger context is exact and isolated across derived loggers.
// Spec: LoggerTree.tla. Every derivation / mutation / logging history TLC generates is replayed
// on real loggers over every core kind; each entry's name and ordered fields (with the values the
// fields had when they were evaluated) are compared with the spec's prediction, and recorded
// entries are re-read at the end.

func init() { register("C07", checkC07) }

type ltOp struct {
	Op string `json:"op"`
	L  int    `json:"l"`
	N  int    `json:"n"`
	S  string `json:"s"`
}
type ltEntry struct {
	Names  []string `json:"names"`
	Fields [][3]int `json:"fields"`
}
type ltBeh struct {
	Hist    []ltOp    `json:"hist"`
	Entries []ltEntry `json:"entries"`
}

var ltMutants = []map[string]string{
	{"WriteCopy": `"append"`}, {"LazyWith": `"skip"`}, {"LazyCheck": `"always"`},
	{"WithCopy": `"append"`, "MaxCores": "4", "MaxLoggers": "5", "MaxMut": "0"},
}

var ltKinds = []string{"json", "console", "observer", "tee", "sampler", "hooked", "inc", "lazyroot", "tee-of-with", "tee-dynamic"}

func checkC07(c *Ctx) {
	c.Assume("field values are Stringers reading one shared mutable cell, so the moment of evaluation is observable on encoding cores (JSON, console and wrappers around them); the observer core stores fields unevaluated, so only keys and order are compared there")
	c.Assume("With is also exercised as WithOptions(Fields), SugaredLogger.With and after Sugar/Desugar round trips (harness-chosen, seeded); 'first use' of a lazy logger is the first enabled entry or eager derivation through it")
	if c.Replay != "" {
		var rp struct {
			Replay struct {
				Beh  ltBeh  `json:"beh"`
				Kind string `json:"kind"`
				Seed int64  `json:"seed"`
			} `json:"replay"`
		}
		if err := readJSON(c.Replay, &rp); err != nil {
			c.Fatalf("replay file: %v", err)
		}
		for _, f := range replayLoggerTree(rp.Replay.Beh, rp.Replay.Kind, rp.Replay.Seed) {
			c.Violation(f.Key, f.What, rp.Replay)
		}
		return
	}
	c.MustTLC(TLCOpts{Module: "LoggerTree", Cfg: "LoggerTree.check"})
	for _, m := range ltMutants {
		c.MustTLC(TLCOpts{Module: "LoggerTree", Cfg: "LoggerTree.check", Consts: m, ExpectViolation: true})
	}
	type gen struct {
		consts map[string]string
		sim    string
		depth  int
	}
	// exhaustive: every history of exactly 4 (thorough 5) steps; simulated: seeded random histories of up to 9 steps
	gens := []gen{
		{map[string]string{"Emit": "TRUE", "MaxSteps": fmt.Sprint(c.Pick(4, 5)), "FieldCounts": "{1}", "MaxLogs": "3"}, "", 0},
		{map[string]string{"Emit": "TRUE", "MaxSteps": "9", "MaxCores": "5", "MaxLoggers": "6", "MaxMut": "2", "MaxLogs": "3", "FieldCounts": "{1, 2, 3}"}, fmt.Sprintf("num=%d", c.Pick(4000, 40000)), 10},
	}
	if c.Thorough() {
		c.MustTLC(TLCOpts{Module: "LoggerTree", Cfg: "LoggerTree.check", Consts: map[string]string{"MaxCores": "4", "MaxLoggers": "5", "MaxMut": "0"}, Timeout: 30 * time.Minute})
	}
	var mu sync.Mutex
	var n int64
	for _, g := range gens {
		jobs := make(chan ltBeh, 4096)
		var wg sync.WaitGroup
		for w := 0; w < 12; w++ {
			wg.Add(1)
			go func() {
				defer wg.Done()
				for b := range jobs {
					if c.Saturated() {
						continue
					}
					mu.Lock()
					n++
					k := n
					mu.Unlock()
					// every behaviour on two core kinds (all kinds in turn), observer always in the thorough tier
					kinds := []string{ltKinds[k%int64(len(ltKinds))], ltKinds[(k/9+3)%int64(len(ltKinds))]}
					if c.Thorough() {
						kinds = append(kinds, "observer")
					}
					for _, kind := range kinds {
						seed := c.Seed*86028121 + k
						for _, f := range replayLoggerTree(b, kind, seed) {
							c.Violation(f.Key, f.What, map[string]interface{}{"beh": b, "kind": kind, "seed": seed})
						}
						c.Add("traces_validated_against_impl", 1)
					}
					if k%100003 == 1 {
						c.Sample(b)
					}
				}
			}()
		}
		c.MustTLC(TLCOpts{Module: "LoggerTree", Cfg: "LoggerTree.check", Gen: true, Consts: g.consts, Simulate: g.sim, Depth: g.depth, Seed: c.Seed, Workers: c.simWorkers(g.sim), Timeout: c.pickD(), OnBeh: func(raw json.RawMessage) {
			var b ltBeh
			if err := json.Unmarshal(raw, &b); err != nil {
				c.Inconclusive("bad LoggerTree behaviour: %v", err)
				return
			}
			jobs <- b
		}})
		close(jobs)
		wg.Wait()
	}
	// siblings derived and used after one of the sink's writes failed, and while reflected context fields overlap
	jeScenarios(c, "C07")
	// concurrent first use of a lazy logger: evaluated exactly once
	for _, f := range replayAbortedWrite() {
		c.Violation(f.Key, f.What, map[string]interface{}{"scenario": "aborted-write-then-sibling"})
	}
	runLazyOnce(c, "C07/", func(k string) bool { return k == "lazy/evaluated-twice" || k == "lazy/context" || k == "lazy/entry-missing" })
	c.Set("histories_replayed", n)
	c.Set("exhaustive", false)
	c.Set("rule", "every history of exactly 4 (thorough 5) steps of LoggerTree.tla (3 cores / 4 loggers / single fields), plus 16 x 4,000 (thorough 40,000) seeded random histories of up to 9 steps with 5 cores / 6 loggers / field counts {1,2,3} / 2 mutations; each replayed on 2-3 of the 10 core kinds in rotation")
}

type ltCell struct{ v int }
type ltStringer struct{ c *ltCell }

func (s ltStringer) String() string { return fmt.Sprintf("v%d", s.c.v) }

// ltNsObj is an object field whose marshaler opens a namespace of its own.
type ltNsObj struct{}

func (ltNsObj) MarshalLogObject(enc zapcore.ObjectEncoder) error {
	enc.OpenNamespace("in")
	enc.AddString("x", "y")
	return nil
}

type ltWorld struct {
	dyn   *zap.AtomicLevel // tee-dynamic: the second branch is switched off while loggers are derived
	kind  string
	sinks []*jeSink
	obs   []*observer.ObservedLogs
	core  zapcore.Core
}

func ltBuild(kind string) *ltWorld {
	w := &ltWorld{kind: kind}
	jsonCore := func() zapcore.Core {
		s := &jeSink{}
		w.sinks = append(w.sinks, s)
		return zapcore.NewCore(zapcore.NewJSONEncoder(zapcore.EncoderConfig{NameKey: "n", MessageKey: "m", SkipLineEnding: true}), s, zapcore.InfoLevel)
	}
	obsCore := func() zapcore.Core {
		c, logs := observer.New(zapcore.InfoLevel)
		w.obs = append(w.obs, logs)
		return c
	}
	switch kind {
	case "json":
		w.core = jsonCore()
	case "console":
		s := &jeSink{}
		w.sinks = append(w.sinks, s)
		w.core = zapcore.NewCore(zapcore.NewConsoleEncoder(zapcore.EncoderConfig{NameKey: "n", MessageKey: "m", SkipLineEnding: true}), s, zapcore.InfoLevel)
	case "observer":
		w.core = obsCore()
	case "tee":
		w.core = zapcore.NewTee(jsonCore(), obsCore())
	case "sampler":
		w.core = zapcore.NewSamplerWithOptions(jsonCore(), time.Hour, 1<<30, 0)
	case "hooked":
		w.core = zapcore.RegisterHooks(jsonCore(), func(zapcore.Entry) error { return nil })
	case "inc":
		c, err := zapcore.NewIncreaseLevelCore(jsonCore(), zapcore.InfoLevel)
		if err != nil {
			panic("HARNESS: " + err.Error())
		}
		w.core = c
	case "lazyroot":
		w.core = zapcore.NewLazyWith(jsonCore(), nil)
	case "tee-dynamic":
		// a branch whose (dynamic) level enables nothing while loggers are derived and is switched on for logging:
		// its entries must carry the full context all the same
		dyn := zap.NewAtomicLevelAt(zapcore.InvalidLevel)
		w.dyn = &dyn
		s := &jeSink{}
		w.sinks = append(w.sinks, s)
		dc := zapcore.NewCore(zapcore.NewJSONEncoder(zapcore.EncoderConfig{NameKey: "n", MessageKey: "m", SkipLineEnding: true}), s, dyn)
		w.core = zapcore.NewTee(jsonCore(), dc)
	case "tee-of-with":
		w.core = zapcore.NewTee(jsonCore().With(nil), obsCore().With(nil), zapcore.NewNopCore())
	default:
		panic("HARNESS: kind " + kind)
	}
	return w
}

type ltGot struct {
	name   string
	keys   []string
	vals   []string
	hasVal bool
}

func replayLoggerTree(b ltBeh, kind string, seed int64) (finds []Finding) {
	rng := rand.New(rand.NewSource(seed))
	add := func(key, f string, a ...interface{}) {
		if len(finds) < 4 {
			finds = append(finds, Finding{Key: key, What: fmt.Sprintf(f, a...) + fmt.Sprintf(" [core kind %s, history %+v]", kind, b.Hist)})
		}
	}
	defer func() {
		if p := recover(); p != nil {
			if s, ok := p.(string); ok && strings.HasPrefix(s, "HARNESS") {
				panic(p)
			}
			add("C07/panic", "panicked: %v", p)
		}
	}()
	w := ltBuild(kind)
	cell := &ltCell{}
	loggers := []*zap.Logger{zap.New(w.core)}
	ncores := 0
	nlogs := 0
	objFirst, nsLast := map[int]bool{}, map[int]bool{}
	mk := func(c, n int) []zap.Field {
		fs := []zap.Field{}
		if rng.Intn(4) == 0 {
			objFirst[c] = true
			fs = append(fs, zap.Object(fmt.Sprintf("o%d", c), ltNsObj{}))
		}
		for i := 0; i < n; i++ {
			if rng.Intn(3) == 0 {
				// no-op members in front of real ones: they contribute nothing and disturb nothing
				fs = append(fs, []zap.Field{zap.Skip(), zap.Error(nil), zap.NamedError("cause", nil)}[rng.Intn(3)])
			}
			fs = append(fs, zap.Stringer(fmt.Sprintf("f%d_%d", c, i+1), ltStringer{cell}))
		}
		if rng.Intn(4) == 0 {
			nsLast[c] = true
			fs = append(fs, zap.Namespace(fmt.Sprintf("ns%d", c)))
		}
		return fs
	}
	for _, op := range b.Hist {
		var parent *zap.Logger
		if op.L >= 1 && op.L <= len(loggers) {
			parent = loggers[op.L-1]
		}
		switch op.Op {
		case "With":
			ncores++
			fs := mk(ncores, op.N)
			switch rng.Intn(4) {
			case 0:
				loggers = append(loggers, parent.With(fs...))
			case 1:
				loggers = append(loggers, parent.WithOptions(zap.Fields(fs...)))
			case 2:
				args := []interface{}{}
				for _, f := range fs {
					args = append(args, f)
				}
				loggers = append(loggers, parent.Sugar().With(args...).Desugar())
			default:
				args := []interface{}{}
				for _, f := range fs {
					if f.Type == zapcore.StringerType {
						args = append(args, f.Key, f.Interface)
					} else {
						args = append(args, f)
					}
				}
				loggers = append(loggers, parent.Sugar().With(args...).Desugar())
			}
			// With has evaluated its fields; the list is the caller's again and is re-used for something else
			for i := range fs {
				fs[i] = zap.String("SCRIBBLED-AFTER-WITH", "the caller re-used its field list")
			}
		case "WithLazy":
			ncores++
			fs := mk(ncores, op.N)
			if rng.Intn(2) == 0 {
				loggers = append(loggers, parent.WithLazy(fs...))
			} else {
				args := []interface{}{}
				for _, f := range fs {
					args = append(args, f)
				}
				loggers = append(loggers, parent.Sugar().WithLazy(args...).Desugar())
			}
		case "Named":
			seg := op.S
			if seg != "" {
				seg = "seg-" + seg
			}
			if rng.Intn(2) == 0 {
				loggers = append(loggers, parent.Named(seg))
			} else {
				loggers = append(loggers, parent.Sugar().Named(seg).Desugar())
			}
		case "Mutate":
			cell.v++
		case "Log", "LogDisabled":
			if w.dyn != nil {
				w.dyn.SetLevel(zapcore.InfoLevel)
			}
			lvl := zapcore.InfoLevel
			if op.Op == "LogDisabled" {
				lvl = zapcore.DebugLevel
			} else {
				nlogs++
			}
			fs := []zap.Field{}
			for i := 0; i < op.N; i++ {
				fs = append(fs, zap.Stringer(fmt.Sprintf("f-%d_%d", nlogs, i+1), ltStringer{cell}))
			}
			switch rng.Intn(3) {
			case 0:
				parent.Log(lvl, "msg", fs...)
			case 1:
				if ce := parent.Check(lvl, "msg"); ce != nil {
					ce.Write(fs...)
				}
			default:
				args := []interface{}{}
				for _, f := range fs {
					args = append(args, f)
				}
				parent.Sugar().Logw(lvl, "msg", args...)
			}
			if w.dyn != nil {
				w.dyn.SetLevel(zapcore.InvalidLevel)
			}
		}
	}
	// collect what every destination recorded
	var dests [][]ltGot
	for _, s := range w.sinks {
		var gs []ltGot
		for _, line := range s.writes {
			g, err := ltParseLine(line, w.kind == "console")
			if err != nil {
				add("C07/invalid-line", "%v: %q", err, line)
				return finds
			}
			gs = append(gs, g)
		}
		dests = append(dests, gs)
	}
	for _, o := range w.obs {
		var gs []ltGot
		for _, e := range o.All() {
			g := ltGot{name: e.LoggerName}
			for _, f := range e.Context {
				if f.Type == zapcore.SkipType {
					continue // the observer keeps no-op fields as it was given them; they contribute nothing
				}
				g.keys = append(g.keys, f.Key)
			}
			gs = append(gs, g)
		}
		dests = append(dests, gs)
	}
	for di, gs := range dests {
		if len(gs) != len(b.Entries) {
			add("C07/entry-count", "destination %d recorded %d entries, %d were logged at an enabled level", di, len(gs), len(b.Entries))
			continue
		}
		for ei, want := range b.Entries {
			g := gs[ei]
			wn := []string{}
			for _, s := range want.Names {
				wn = append(wn, "seg-"+s)
			}
			if g.name != strings.Join(wn, ".") {
				add("C07/name", "entry %d carries logger name %q, its derivation path gives %q", ei+1, g.name, strings.Join(wn, "."))
			}
			wk, wv := []string{}, []string{}
			prefix := ""
			flat := g.hasVal // encoding cores nest namespaces; the observer records the flat field list
			for fi, f := range want.Fields {
				c := f[0]
				firstOfCore := fi == 0 || want.Fields[fi-1][0] != c
				lastOfCore := fi == len(want.Fields)-1 || want.Fields[fi+1][0] != c
				if firstOfCore && c > 0 && objFirst[c] {
					if flat {
						wk = append(wk, fmt.Sprintf("%so%d.in.x", prefix, c))
						wv = append(wv, "y")
					} else {
						wk = append(wk, fmt.Sprintf("o%d", c))
					}
				}
				wk = append(wk, fmt.Sprintf("%sf%d_%d", prefix, f[0], f[1]))
				wv = append(wv, fmt.Sprintf("v%d", f[2]))
				if lastOfCore && c > 0 && nsLast[c] {
					if flat {
						prefix += fmt.Sprintf("ns%d.", c)
						if fi == len(want.Fields)-1 {
							wk = append(wk, strings.TrimSuffix(prefix, "."))
							wv = append(wv, "{}")
						}
					} else {
						wk = append(wk, fmt.Sprintf("ns%d", c))
					}
				}
			}
			if strings.Join(g.keys, " ") != strings.Join(wk, " ") {
				add("C07/fields", "entry %d (destination %d) carries fields %v, its own derivation path + call site give %v", ei+1, di, g.keys, wk)
				continue
			}
			if g.hasVal && strings.Join(g.vals, " ") != strings.Join(wv, " ") {
				add("C07/evaluation-time", "entry %d (destination %d): field values %v for %v, expected %v (eager fields are evaluated at derivation, lazy ones at first use)", ei+1, di, g.vals, g.keys, wv)
			}
		}
	}
	return finds
}

// ltParseLine extracts name and ordered flat fields from a JSON (or console) line.
func ltParseLine(line []byte, console bool) (ltGot, error) {
	g := ltGot{hasVal: true}
	body := line
	if console {
		i := strings.IndexByte(string(line), '{')
		head := string(line)
		if i >= 0 {
			head = string(line[:i])
			body = line[i:]
		} else {
			body = []byte("{}")
		}
		cols := strings.Split(strings.TrimRight(head, "\t"), "\t")
		if len(cols) == 2 {
			g.name = cols[0]
		}
	}
	if err := strictJSONObjectLine(body, ""); err != nil {
		return g, err
	}
	dec := json.NewDecoder(strings.NewReader(string(body)))
	dec.Token() // {
	var walk func(prefix string, top bool) error
	walk = func(prefix string, top bool) error {
		n := 0
		for dec.More() {
			kt, err := dec.Token()
			if err != nil {
				return err
			}
			k := kt.(string)
			n++
			vt, err := dec.Token()
			if err != nil {
				return err
			}
			if d, ok := vt.(json.Delim); ok && d == '{' {
				before := len(g.keys)
				if err := walk(prefix+k+".", false); err != nil {
					return err
				}
				if len(g.keys) == before {
					g.keys = append(g.keys, prefix+k)
					g.vals = append(g.vals, "{}")
				}
				continue
			}
			if top && !console && k == "n" {
				g.name = fmt.Sprint(vt)
				continue
			}
			if top && !console && k == "m" {
				continue
			}
			g.keys = append(g.keys, prefix+k)
			g.vals = append(g.vals, fmt.Sprint(vt))
		}
		_, err := dec.Token() // }
		return err
	}
	if err := walk("", true); err != nil {
		return g, err
	}
	return g, nil
}

// ---- a logging call aborted by a panic in user code, recovered by the application, then other loggers log ----

type ltPanicObj struct{}

func (ltPanicObj) MarshalLogObject(enc zapcore.ObjectEncoder) error {
	enc.AddString("partial", "x")
	panic("marshaler bug")
}

type ltPanicSink struct{ jeSink }

func (s *ltPanicSink) Write(p []byte) (int, error) { panic("sink bug") }

// replayAbortedWrite: whatever an aborted call leaves behind, the next entries of other loggers go to their own
// cores only, once, with their own context.
func replayAbortedWrite() (finds []Finding) {
	add := func(key, f string, a ...interface{}) {
		if len(finds) < 4 {
			finds = append(finds, Finding{Key: key, What: fmt.Sprintf(f, a...)})
		}
	}
	enc := func() zapcore.Encoder { return zapcore.NewJSONEncoder(zapcore.EncoderConfig{MessageKey: "msg", SkipLineEnding: true}) }
	for variant := 0; variant < 4; variant++ {
		sa1, sa2, sb := &jeSink{}, &jeSink{}, &jeSink{}
		var coreA zapcore.Core
		switch variant {
		case 0:
			coreA = zapcore.NewCore(enc(), sa1, zapcore.DebugLevel)
		case 1:
			coreA = zapcore.NewTee(zapcore.NewCore(enc(), sa1, zapcore.DebugLevel), zapcore.NewCore(enc(), sa2, zapcore.DebugLevel))
		case 2:
			coreA = zapcore.NewTee(zapcore.NewCore(enc(), &ltPanicSink{}, zapcore.DebugLevel), zapcore.NewCore(enc(), sa2, zapcore.DebugLevel))
		default:
			coreA = zapcore.NewTee(zapcore.NewCore(enc(), sa1, zapcore.DebugLevel), zapcore.NewCore(enc(), &ltPanicSink{}, zapcore.DebugLevel), zapcore.NewCore(enc(), sa2, zapcore.DebugLevel))
		}
		a := zap.New(coreA).With(zap.String("request", "A"), zap.String("user", "alice"))
		b := zap.New(zapcore.NewCore(enc(), sb, zapcore.DebugLevel)).With(zap.String("request", "B"))
		for round := 0; round < 3; round++ {
			func() {
				defer func() { recover() }() // the application's recovery middleware
				if variant < 2 {
					a.Info("boom", zap.Object("o", ltPanicObj{}), zap.Int("after", 1))
				} else {
					a.Info("boom", zap.Int("after", 1))
				}
			}()
			sb.writes = nil
			na1, na2 := len(sa1.writes), len(sa2.writes)
			func() {
				defer func() {
					if p := recover(); p != nil {
						add("C07/fields", "after a logging call of logger A was aborted by a panic (variant %d) and recovered, logger B's own logging call panicked: %v (its entry went through something that is not its own)", variant, p)
					}
				}()
				b.Info("hello", zap.Int("round", round))
				b.With(zap.Int("c", 1)).Warn("hello again")
			}()
			if len(finds) > 0 {
				return finds
			}
			want := []string{fmt.Sprintf(`{"msg":"hello","request":"B","round":%d}`, round), `{"msg":"hello again","request":"B","c":1}`}
			got := []string{}
			for _, w := range sb.writes {
				got = append(got, string(w))
			}
			if fmt.Sprint(got) != fmt.Sprint(want) {
				add("C07/fields", "after a logging call of logger A (context request=A user=alice) was aborted by a panic in %s and recovered, logger B wrote %q, want %q", []string{"a field marshaler", "a field marshaler (tee)", "its first sink", "its second sink"}[variant], got, want)
			}
			if len(sa1.writes) != na1 || len(sa2.writes) != na2 {
				extra := ""
				for _, w := range append(append([][]byte{}, sa1.writes[na1:]...), sa2.writes[na2:]...) {
					extra += string(w) + " "
				}
				add("C07/fields", "after a logging call of logger A was aborted by a panic (variant %d) and recovered, logger B's entries also reached logger A's sinks: %s", variant, extra)
			}
		}
	}
	return finds
}
