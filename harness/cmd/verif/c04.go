package main

import (
	"errors"
	"os/exec"
	"go.uber.org/zap/zaptest/observer"
	"bytes"
	"io"
	"encoding/json"
	"fmt"
	"hash/crc32"
	"math/rand"
	"os"
	"path/filepath"
	"sort"
	"strings"
	"sync"
	"sync/atomic"
	"time"

	"go.uber.org/zap"
	"go.uber.org/zap/zapcore"
)

// C04 — concurrent logging delivers every entry exactly once as an intact line.
// Specs: Pools.tla (buffer ownership + the sink stream under interleaving), PipelineTrace.tla
// (trace spec for recorded runs). (i) every interleaving TLC lists at gate granularity
// (mid-encode, before and inside the locked sink write) is forced on real loggers over each
// sink kind; (ii) free-running 8-goroutine runs are recorded and validated by TLC.

func init() { register("C04", checkC04) }

// ---- lines --------------------------------------------------------------------

func c04Payload(g, i, size int) string {
	b := make([]byte, size)
	for k := range b {
		b[k] = "abcdefghijklmnopqrstuvwxyz0123456789"[(g*7+i*13+k)%36]
	}
	return string(b)
}

type c04Line struct {
	G, I int
	OK   bool
	Why  string
}

// c04Decode parses one sink line back into (goroutine, index) and checks it is intact.
func c04Decode(line string) c04Line {
	var m struct {
		M   string `json:"m"`
		G   int    `json:"g"`
		I   int    `json:"i"`
		Pad string `json:"pad"`
		Sum uint32 `json:"sum"`
		Gt  struct {
			Before string `json:"before"`
			After  string `json:"after"`
		} `json:"gate"`
	}
	if err := strictJSONObjectLine([]byte(line), "\n"); err != nil {
		return c04Line{Why: "not one intact JSON line: " + err.Error()}
	}
	if err := json.Unmarshal([]byte(line), &m); err != nil {
		return c04Line{Why: err.Error()}
	}
	if m.M != fmt.Sprintf("g%d-%d", m.G, m.I) || crc32.ChecksumIEEE([]byte(m.Pad)) != m.Sum || m.Pad != c04Payload(m.G, m.I, len(m.Pad)) {
		return c04Line{G: m.G, I: m.I, Why: "content does not match its own goroutine/index/checksum"}
	}
	return c04Line{G: m.G, I: m.I, OK: true}
}

type c04GateObj struct{ g *Gate }

func (o c04GateObj) MarshalLogObject(enc zapcore.ObjectEncoder) error {
	enc.AddString("before", "x")
	if o.g != nil {
		o.g.At("encode", 0, 0)
	}
	enc.AddString("after", "y")
	return nil
}

func c04Fields(gt *Gate, g, i, size int) []zap.Field {
	pad := c04Payload(g, i, size)
	return []zap.Field{zap.Int("g", g), zap.Int("i", i), zap.Object("gate", c04GateObj{gt}), zap.String("pad", pad), zap.Uint32("sum", crc32.ChecksumIEEE([]byte(pad)))}
}

// c04Rec records what a sink receives, chunk by chunk; with a gate it parks inside the write and
// copies the bytes only after release.
type c04Rec struct {
	mu     sync.Mutex
	gt     *Gate
	id     int
	chunks []string
	seqs   []int64
	seq    *int64
	inside int32
	overlap bool
}

func (r *c04Rec) Write(p []byte) (int, error) {
	if atomic.AddInt32(&r.inside, 1) > 1 {
		r.overlap = true
	}
	if r.gt != nil {
		r.gt.At("sink", int64(r.id), 0)
	}
	r.mu.Lock()
	r.chunks = append(r.chunks, string(p))
	if r.seq != nil {
		r.seqs = append(r.seqs, atomic.AddInt64(r.seq, 1))
	}
	r.mu.Unlock()
	atomic.AddInt32(&r.inside, -1)
	return len(p), nil
}
func (r *c04Rec) Sync() error { return nil }

// c04Pre parks before the (locked / buffered) sink is entered.
type c04Pre struct {
	gt   *Gate
	next zapcore.WriteSyncer
	id   int
}

func (p c04Pre) Write(b []byte) (int, error) {
	if p.gt != nil {
		p.gt.At("presink", int64(p.id), 0)
	}
	return p.next.Write(b)
}
func (p c04Pre) Sync() error { return p.next.Sync() }

var c04SinkKinds = []string{"lock", "combine", "combine1", "bws", "tee", "lock-of-lock", "tee-fault"}

// c04Flaky fails every second write (a full disk / broken pipe on one tee branch).
type c04Flaky struct {
	n int64
}

func (f *c04Flaky) Write(p []byte) (int, error) {
	if atomic.AddInt64(&f.n, 1)%2 == 1 {
		return 0, fmt.Errorf("branch broken")
	}
	return len(p), nil
}
func (f *c04Flaky) Sync() error { return nil }

type c04World struct {
	core   zapcore.Core
	core2  zapcore.Core // a second core over another handle of the same sink (mutual-exclusion probe only)
	recs   []*c04Rec
	sync   []bool // is sink k written synchronously, one whole line per write?
	finish func()
}

var c04NotFollowed int

func c04Enc() zapcore.Encoder {
	return zapcore.NewJSONEncoder(zapcore.EncoderConfig{MessageKey: "m", LevelKey: "l", EncodeLevel: zapcore.LowercaseLevelEncoder})
}

func c04Build(kind string, gt *Gate, seq *int64) *c04World {
	w := &c04World{finish: func() {}}
	rec := func() *c04Rec {
		r := &c04Rec{gt: gt, id: len(w.recs) + 1, seq: seq}
		w.recs = append(w.recs, r)
		return r
	}
	switch kind {
	case "lock":
		w.core = zapcore.NewCore(c04Enc(), c04Pre{gt, zapcore.Lock(rec()), 1}, zapcore.DebugLevel)
		w.sync = []bool{true}
	case "lock-of-lock":
		w.core = zapcore.NewCore(c04Enc(), c04Pre{gt, zapcore.Lock(zapcore.Lock(rec())), 1}, zapcore.DebugLevel)
		w.sync = []bool{true}
	case "lock-two-handles", "lock-then-combine-two-handles":
		// one sink locked twice, each handle behind a core of its own (two loggers writing to the same destination)
		h1 := zapcore.Lock(rec())
		h2 := zapcore.Lock(h1)
		if kind == "lock-then-combine-two-handles" {
			h2 = zap.CombineWriteSyncers(h1)
		}
		w.core = zapcore.NewCore(c04Enc(), c04Pre{gt, h1, 1}, zapcore.DebugLevel)
		w.core2 = zapcore.NewCore(c04Enc(), c04Pre{gt, h2, 1}, zapcore.DebugLevel)
		w.sync = []bool{true}
	case "combine":
		w.core = zapcore.NewCore(c04Enc(), c04Pre{gt, zap.CombineWriteSyncers(rec(), rec()), 1}, zapcore.DebugLevel)
		w.sync = []bool{true, true}
	case "combine1":
		// what zap.Open / Config.Build hand back for a single destination
		w.core = zapcore.NewCore(c04Enc(), c04Pre{gt, zap.CombineWriteSyncers(rec()), 1}, zapcore.DebugLevel)
		w.sync = []bool{true}
	case "bws":
		b := &zapcore.BufferedWriteSyncer{WS: rec(), Size: 256, FlushInterval: time.Hour}
		w.core = zapcore.NewCore(c04Enc(), c04Pre{gt, b, 1}, zapcore.DebugLevel)
		w.sync = []bool{false}
		w.finish = func() { b.Stop() }
	case "tee":
		b := &zapcore.BufferedWriteSyncer{WS: rec(), Size: 512, FlushInterval: time.Hour}
		c1 := zapcore.NewCore(c04Enc(), c04Pre{gt, zapcore.Lock(rec()), 2}, zapcore.DebugLevel)
		c2 := zapcore.NewCore(c04Enc(), c04Pre{gt, b, 1}, zapcore.DebugLevel)
		w.core = zapcore.NewTee(c2, c1)
		w.sync = []bool{false, true}
		w.finish = func() { b.Stop() }
	case "tee-fault":
		// the first branch fails half of its writes; the healthy branch must still receive the full set
		c1 := zapcore.NewCore(c04Enc(), zapcore.Lock(&c04Flaky{}), zapcore.DebugLevel)
		c2 := zapcore.NewCore(c04Enc(), c04Pre{gt, zapcore.Lock(rec()), 1}, zapcore.DebugLevel)
		w.core = zapcore.NewTee(c1, c2)
		w.sync = []bool{true}
	default:
		panic("HARNESS: sink kind " + kind)
	}
	return w
}

// c04Oracle: the property's predicate on what the sinks received.
func c04Oracle(w *c04World, counts map[int]int) (key, what string) {
	for k, r := range w.recs {
		if r.overlap {
			return "C04/sink-overlap", fmt.Sprintf("two writes were inside sink %d at the same time", k+1)
		}
		r.mu.Lock()
		stream := strings.Join(r.chunks, "")
		chunks := append([]string(nil), r.chunks...)
		r.mu.Unlock()
		if w.sync[k] {
			for _, ch := range chunks {
				if strings.Count(ch, "\n") != 1 || !strings.HasSuffix(ch, "\n") {
					return "C04/line-torn", fmt.Sprintf("sink %d received a write that is not exactly one line: %q", k+1, trunc(ch))
				}
			}
		} else {
			for _, ch := range chunks {
				if !strings.HasSuffix(ch, "\n") {
					return "C04/line-torn", fmt.Sprintf("buffered sink %d received a write that ends inside a line: %q", k+1, trunc(ch))
				}
			}
		}
		last := map[int]int{}
		lines := strings.SplitAfter(stream, "\n")
		for _, ln := range lines {
			if ln == "" {
				continue
			}
			d := c04Decode(ln)
			if !d.OK {
				return "C04/line-corrupt", fmt.Sprintf("sink %d: %s: %q", k+1, d.Why, trunc(ln))
			}
			if d.I <= last[d.G] {
				if d.I == last[d.G] {
					return "C04/entry-duplicated", fmt.Sprintf("sink %d received entry %d of goroutine %d twice", k+1, d.I, d.G)
				}
				return "C04/order", fmt.Sprintf("sink %d received entry %d of goroutine %d after entry %d", k+1, d.I, d.G, last[d.G])
			}
			if d.I != last[d.G]+1 {
				return "C04/entry-lost", fmt.Sprintf("sink %d: entry %d of goroutine %d is missing (next seen %d)", k+1, last[d.G]+1, d.G, d.I)
			}
			last[d.G] = d.I
		}
		for g, n := range counts {
			if last[g] != n {
				return "C04/entry-lost", fmt.Sprintf("sink %d has %d of the %d entries of goroutine %d", k+1, last[g], n, g)
			}
		}
	}
	return "", ""
}

type c04Ev struct {
	p  string
	ev string
}

func checkC04(c *Ctx) {
	c.Assume("lines carry goroutine id, per-goroutine index, a payload derived from both and its CRC32; gating sinks copy the bytes only after the scheduler released them, so a buffer freed or reused early shows as corruption")
	c.Assume("gate granularity: mid-encode (a marshaler field), before entering the locked / buffered sink, inside the innermost sink write; finer steps of Pools.tla are not individually forced")
	c.MustTLC(TLCOpts{Module: "Pools", Cfg: "Pools.check", Timeout: 20 * time.Minute})
	c.MustTLC(TLCOpts{Module: "Pools", Cfg: "Pools.check", Consts: map[string]string{"SinkOrder": `"free-then-write"`}, ExpectViolation: true})
	if c.Thorough() {
		c.MustTLC(TLCOpts{Module: "Pools", Cfg: "Pools.check", Consts: map[string]string{"Procs": "{1, 2, 3}", "MaxOps": "1", "MaxOps2": "1", "KindSet": `{"plain"}`, "MaxGC": "0"}, Timeout: 30 * time.Minute})
	}
	// (i) gate replay of the projected interleavings
	seen := map[string][]c04Ev{}
	projCfgs := []map[string]string{{"MaxOps": "2", "MaxOps2": "1"}, {"MaxOps": "2", "MaxOps2": "2"}}
	if c.Thorough() {
		projCfgs = append(projCfgs, map[string]string{"Procs": "{1, 2, 3}", "MaxOps": "1", "MaxOps2": "1", "MaxObjs": "12"}, map[string]string{"MaxOps": "3", "MaxOps2": "2", "MaxObjs": "14"})
	}
	for i, pc := range projCfgs {
	o := TLCOpts{Module: "Pools", Cfg: "Pools.proj", Timeout: 20 * time.Minute}
	if i >= 2 {
		// three goroutines / longer programs: the projected graph has > 60 M states; seeded random walks instead
		o.Simulate, o.Depth, o.Seed, o.Workers = "num=30000", 150, c.Seed+int64(i), 1
	}
	o.Consts = pc
	o.OnBeh = func(raw json.RawMessage) {
			var b poolBeh
			if err := json.Unmarshal(raw, &b); err != nil {
				return
			}
			var proj []c04Ev
			for _, st := range b.Sched {
				a := fmt.Sprint(st[1])
				if a == "encode" || a == "sink" {
					proj = append(proj, c04Ev{fmt.Sprint(st[0]), a})
				}
			}
			k := fmt.Sprint(proj)
			if _, ok := seen[k]; !ok {
				seen[k] = proj
			}
		}
	c.MustTLC(o)
	}
	keys := []string{}
	for k := range seen {
		keys = append(keys, k)
	}
	sort.Strings(keys)
	nrep := 0
	for i, k := range keys {
		if i%20 == 0 {
			c.Sample(map[string]interface{}{"projected_interleaving": k})
		}
		for _, kind := range c04SinkKinds {
			if c.Saturated() {
				break
			}
			if c04NotFollowed >= 20 {
				break // the code no longer stops where the gates are: the free-running stages still judge it
			}
			key, what, inc := c04GateReplay(seen[k], kind)
			if inc != "" {
				c04NotFollowed++
				c.Add("schedules_not_followed", 1)
				c.Note("schedule %v on %s not followed: %s", seen[k], kind, inc)
				continue
			}
			nrep++
			c.Add("traces_validated_against_impl", 1)
			if key != "" {
				c.Violation(key, what+fmt.Sprintf(" [schedule %v on sink kind %s]", seen[k], kind), map[string]interface{}{"schedule": k, "sink": kind})
			}
		}
	}
	// mutual exclusion of the sink itself: while one goroutine is parked inside the innermost write of a
	// lock-protected sink, a second one let through its presink gate must not get inside as well
	for _, kind := range []string{"lock", "lock-of-lock", "combine", "combine1", "tee-fault", "lock-two-handles", "lock-then-combine-two-handles"} {
		if key, what := c04MutexProbe(kind); key != "" {
			c.Violation(key, what, map[string]interface{}{"sink": kind, "probe": "mutual-exclusion"})
		}
		c.Add("traces_validated_against_impl", 1)
	}
	c04FirstWrites(c)
	c04ConsoleNamespace(c)
	for _, f := range append(sharedFileLines(), lockedBufferedSinkLines()...) {
		switch f.Key {
		case "harness":
			c.Inconclusive("%s", f.What)
		case "invalid-json":
			c.Violation("C04/line-corrupt", f.What, map[string]interface{}{"scenario": "shared-file"})
		default:
			c.Violation("C04/"+f.Key, f.What, map[string]interface{}{"scenario": "shared-file"})
		}
	}
	c04ObserverDrain(c)
	c04FatalExit(c)
	c04SyncReachesEveryBranch(c)
	// several goroutines making the first use of one WithLazy logger: every entry arrives, with its context
	runLazyOnce(c, "C04/", func(k string) bool { return k == "lazy/panic" || k == "lazy/entry-missing" || k == "lazy/context" })
	c.Set("projected_interleavings", int64(len(keys)))
	c.Set("gate_replays", int64(nrep))
	// (ii) recorded free-running runs validated against PipelineTrace.tla
	c04Stress(c)
	c.Set("exhaustive", false)
	c.Set("rule", "every distinct projection (encode / sink-write order) of the two-goroutine interleavings of Pools.tla forced on 7 sink kinds; recorded 8-goroutine runs over lock / buffered / tee / file sinks validated by TLC against PipelineTrace.tla and by the line oracle")
}

// c04GateReplay forces one projected interleaving.
func c04GateReplay(sched []c04Ev, kind string) (key, what, inconclusive string) {
	gt := NewGate()
	defer gt.Drain()
	w := c04Build(kind, gt, nil)
	var lgRef *zap.Logger
	var icRef map[int]int
	defer func() {
		// a schedule that cannot be followed is no verdict by itself - but if the real code, left to run to the
		// end, produced an outcome the property forbids, that outcome is reported
		if inconclusive != "" && lgRef != nil {
			gt.Drain()
			for p := range icRef {
				gt.WaitDone(fmt.Sprint(p), 1, 5*time.Second)
			}
			lgRef.Sync()
			w.finish()
			if k, wh := c04Oracle(w, icRef); k != "" {
				key, what, inconclusive = k, wh+" (the goroutines were let run freely after the schedule could not be followed: "+inconclusive+")", ""
			}
		}
	}()
	lg := zap.New(w.core, zap.ErrorOutput(zapcore.AddSync(&bytes.Buffer{})))
	counts := map[string]int{}
	for _, e := range sched {
		if e.ev == "encode" {
			counts[e.p]++
		}
	}
	lgRef = lg
	icRef = map[int]int{}
	for p, n := range counts {
		icRef[int(p[0]-'0')] = n
	}
	pan := make(chan string, 8)
	for p, n := range counts {
		p, n := p, n
		gi := int(p[0] - '0')
		gt.Go(p, func() {
			defer func() {
				if r := recover(); r != nil {
					pan <- fmt.Sprint(r)
				}
			}()
			child := lg.With(zap.String("who", p))
			for i := 1; i <= n; i++ {
				size := []int{10, 300, 40}[(gi+i)%3]
				fs := c04Fields(gt, gi, i, size)
				switch (gi + i) % 3 {
				case 0:
					lg.Info(fmt.Sprintf("g%d-%d", gi, i), fs...)
				case 1:
					child.Info(fmt.Sprintf("g%d-%d", gi, i), fs...)
				default:
					args := []interface{}{}
					for _, f := range fs {
						args = append(args, f)
					}
					lg.Sugar().Infow(fmt.Sprintf("g%d-%d", gi, i), args...)
				}
			}
		})
	}
	nsinks := 1
	if kind == "tee" || kind == "combine" {
		nsinks = 2
	}
	step := func(p string, sites ...string) string {
		s, _ := gt.WaitParked(p, 3*time.Second, sites...)
		return s
	}
	for _, e := range sched {
		switch e.ev {
		case "encode":
			if s := step(e.p, "encode"); s != "encode" {
				return "", "", fmt.Sprintf("%s expected at encode, found %q", e.p, s)
			}
			gt.Release(e.p)
		case "sink":
			// the rest of the call: further cores of a tee encode the entry again (the gate field parks again),
			// every gated core passes its presink gate, innermost sinks park while they are written
			encLeft, preLeft := 0, 1
			switch kind {
			case "tee":
				encLeft, preLeft = 1, 2
			case "tee-fault":
				encLeft, preLeft = 1, 1
			}
			for encLeft > 0 || preLeft > 0 {
				s, _ := gt.WaitParked(e.p, 3*time.Second)
				switch {
				case s == "encode" && encLeft > 0:
					encLeft--
				case s == "presink" && preLeft > 0:
					preLeft--
				case s == "sink":
				default:
					return "", "", fmt.Sprintf("%s: unexpected gate %q inside its sink step", e.p, s)
				}
				gt.Release(e.p)
			}
			for {
				s, _ := gt.WaitParked(e.p, 40*time.Millisecond)
				if s != "sink" {
					break
				}
				gt.Release(e.p)
			}
		}
	}
	_ = nsinks
	gt.Drain()
	for p := range counts {
		if !gt.WaitDone(p, 1, 5*time.Second) {
			return "", "", fmt.Sprintf("%s did not finish\n%s", p, stacks())
		}
	}
	select {
	case m := <-pan:
		return "C04/panic", "a logging call panicked: " + m, ""
	default:
	}
	lg.Sync()
	w.finish()
	ic := map[int]int{}
	for p, n := range counts {
		ic[int(p[0]-'0')] = n
	}
	k, wh := c04Oracle(w, ic)
	return k, wh, ""
}

type c04TraceEv struct {
	Seq int64  `json:"-"`
	E   string `json:"e"`
	G   int    `json:"g"`
	I   int    `json:"i"`
	S   int    `json:"s"`
	OK  bool   `json:"ok"`
}

func c04Stress(c *Ctx) {
	runs := c.Pick(24, 200)
	const G = 8
	var all []c04TraceEv
	accepted := 0
	rng := rand.New(rand.NewSource(c.Seed))
	dir, _ := os.MkdirTemp(filepath.Join(Root, "out"), "c04-")
	defer os.RemoveAll(dir)
	for run := 0; run < runs; run++ {
		var seq int64
		kind := []string{"tee", "tee-file", "tee-ticking"}[run%3]
		var w *c04World
		var file string
		if kind == "tee" {
			w = c04Build("tee", nil, &seq)
		} else if kind == "tee-ticking" {
			// the buffered branch flushes on a fast timer while the goroutines write
			w = &c04World{}
			r1 := &c04Rec{id: 1, seq: &seq}
			r2 := &c04Rec{id: 2, seq: &seq}
			w.recs = []*c04Rec{r2, r1}
			w.sync = []bool{false, true}
			bw := &zapcore.BufferedWriteSyncer{WS: r2, Size: 2048, FlushInterval: 50 * time.Microsecond}
			w.finish = func() { bw.Stop() }
			w.core = zapcore.NewTee(zapcore.NewCore(c04Enc(), bw, zapcore.DebugLevel), zapcore.NewCore(c04Enc(), zapcore.Lock(r1), zapcore.DebugLevel))
		} else {
			// sink 1 = Lock(recorder), sink 2 = a real file opened through zap.Open
			w = &c04World{finish: func() {}}
			r := &c04Rec{id: 1, seq: &seq}
			w.recs = []*c04Rec{r}
			w.sync = []bool{true}
			file = filepath.Join(dir, fmt.Sprintf("run%d.log", run))
			ws, closeFn, err := zap.Open(file)
			if err != nil {
				c.Inconclusive("zap.Open: %v", err)
				return
			}
			w.finish = closeFn
			w.core = zapcore.NewTee(zapcore.NewCore(c04Enc(), ws, zapcore.DebugLevel), zapcore.NewCore(c04Enc(), zapcore.Lock(r), zapcore.DebugLevel))
		}
		lg := zap.New(w.core)
		// entries whose fields cannot be encoded, through an unrelated logger that shares zap's pools, before and
		// while the goroutines log: failures elsewhere must not disturb anybody's lines
		poison := zap.New(zapcore.NewCore(c04Enc(), zapcore.AddSync(io.Discard), zapcore.DebugLevel))
		for k := 0; k < 4; k++ {
			poison.Info("poison", zap.Reflect("c", make(chan int)), zap.Any("f", func() {}))
		}
		n := 10 + rng.Intn(15)
		var evmu sync.Mutex
		var evs []c04TraceEv
		var wg sync.WaitGroup
		for g := 1; g <= G; g++ {
			wg.Add(1)
			go func(g int) {
				defer wg.Done()
				child := lg.With(zap.Int("child", g)).Named("c")
				mine := []c04TraceEv{}
				for i := 1; i <= n; i++ {
					size := []int{5, 60, 700, 3000}[(g+i)%4]
					fs := c04Fields(nil, g, i, size)
					mine = append(mine, c04TraceEv{Seq: atomic.AddInt64(&seq, 1), E: "start", G: g, I: i, OK: true})
					msg := fmt.Sprintf("g%d-%d", g, i)
					switch (g + 2*i) % 4 {
					case 0:
						lg.Info(msg, fs...)
					case 1:
						child.Warn(msg, fs...)
					case 2:
						if ce := lg.Check(zapcore.ErrorLevel, msg); ce != nil {
							ce.Write(fs...)
						}
					default:
						args := []interface{}{}
						for _, f := range fs {
							args = append(args, f)
						}
						child.Sugar().Infow(msg, args...)
					}
					mine = append(mine, c04TraceEv{Seq: atomic.AddInt64(&seq, 1), E: "end", G: g, I: i, OK: true})
				}
				evmu.Lock()
				evs = append(evs, mine...)
				evmu.Unlock()
			}(g)
		}
		wg.Wait()
		lg.Sync()
		w.finish()
		counts := map[int]int{}
		for g := 1; g <= G; g++ {
			counts[g] = n
		}
		if file != "" {
			data, _ := os.ReadFile(file)
			fr := &c04Rec{id: 2}
			fr.chunks = []string{string(data)}
			w.recs = append([]*c04Rec{fr}, w.recs...)
			w.sync = append([]bool{false}, w.sync...)
		}
		// sink ids of the trace: 1 = the synchronous (locked) sink, 2 = the buffered / file sink
		for k, r := range w.recs {
			sid := 2
			if w.sync[k] {
				sid = 1
			}
			for ci, ch := range r.chunks {
				s := seq + 1 // file content: after everything
				if ci < len(r.seqs) {
					s = r.seqs[ci]
				}
				for _, ln := range strings.SplitAfter(ch, "\n") {
					if ln == "" {
						continue
					}
					d := c04Decode(ln)
					evs = append(evs, c04TraceEv{Seq: s, E: "line", G: d.G, I: d.I, S: sid, OK: d.OK})
				}
			}
		}
		sort.SliceStable(evs, func(i, j int) bool { return evs[i].Seq < evs[j].Seq })
		if key, what := c04Oracle(w, counts); key != "" {
			c.Violation(key, what+fmt.Sprintf(" [free-running run %d, %d goroutines x %d entries, sinks %s]", run, G, n, kind), map[string]interface{}{"mode": "stress", "run": run})
			continue
		}
		all = append(all, evs...)
		all = append(all, c04TraceEv{E: "reset", OK: true})
		accepted++
	}
	if len(all) == 0 {
		return
	}
	var buf bytes.Buffer
	for _, e := range all {
		b, _ := json.Marshal(e)
		buf.Write(b)
		buf.WriteByte('\n')
	}
	os.WriteFile(filepath.Join(Root, "out", "last-c04-trace.ndjson"), buf.Bytes(), 0o644)
	r := c.MustTLCTrace(TLCOpts{Module: "PipelineTrace", Cfg: "PipelineTrace", Workers: 1, Files: map[string][]byte{"trace.ndjson": buf.Bytes()}, Timeout: 15 * time.Minute})
	c.Set("recorded_runs", int64(accepted))
	c.Set("recorded_trace_events", int64(len(all)))
	if r.Status == "ok" {
		c.Add("traces_validated_against_impl", int64(accepted))
		c.Set("recorded_runs_accepted_by_PipelineTrace", int64(accepted))
		return
	}
	at := ""
	for _, m := range r.Marks {
		if strings.HasPrefix(m, "@@REJECT") {
			at = m
		}
	}
	// the line oracle (the property's own predicate) accepted these runs, so a rejection by the trace spec concerns
	// event timing only (a line of a lock-protected sink recorded outside its call): conformance drift, not a verdict
	c.Add("recorded_runs_rejected_by_PipelineTrace", 1)
	c.Note("DRIFT: a recorded run is not a behaviour of PipelineTrace.tla: %s", at)
	fmt.Println("DRIFT property=C04 trace spec rejected a recorded run:", at)
}

func c04MutexProbe(kind string) (key, what string) {
	gt := NewGate()
	defer gt.Drain()
	w := c04Build(kind, gt, nil)
	lg := zap.New(w.core, zap.ErrorOutput(zapcore.AddSync(io.Discard)))
	lg2 := lg
	if w.core2 != nil {
		lg2 = zap.New(w.core2, zap.ErrorOutput(zapcore.AddSync(io.Discard)))
	}
	for _, p := range []string{"1", "2"} {
		p := p
		gi := int(p[0] - '0')
		l := lg
		if gi == 2 {
			l = lg2
		}
		gt.Go(p, func() {
			defer func() { recover() }()
			l.Info(fmt.Sprintf("g%d-%d", gi, 1), c04Fields(nil, gi, 1, 40)...)
		})
	}
	for _, p := range []string{"1", "2"} {
		if s, _ := gt.WaitParked(p, 3*time.Second, "presink"); s != "presink" {
			return "", ""
		}
	}
	gt.Release("1")
	if s, _ := gt.WaitParked("1", 3*time.Second, "sink"); s != "sink" {
		return "", ""
	}
	gt.Release("2")
	s, _ := gt.WaitParked("2", 50*time.Millisecond, "sink")
	gt.Drain()
	gt.WaitDone("1", 1, 5*time.Second)
	gt.WaitDone("2", 1, 5*time.Second)
	if s == "sink" {
		return "C04/sink-overlap", fmt.Sprintf("sink kind %s: a second goroutine entered the sink's Write while the first was still inside it (the sink is not lock-protected)", kind)
	}
	return "", ""
}

// c04FirstWrites: the very first entries through a fresh buffered sink, from several goroutines at once (the sink
// starts its flush machinery lazily on first use).
func c04FirstWrites(c *Ctx) {
	rounds := c.Pick(300, 3000)
	for r := 0; r < rounds && !c.Saturated(); r++ {
		rec := &c04Rec{id: 1}
		b := &zapcore.BufferedWriteSyncer{WS: rec, Size: 4096, FlushInterval: time.Hour}
		lg := zap.New(zapcore.NewCore(c04Enc(), b, zapcore.DebugLevel))
		const G = 6
		start := make(chan struct{})
		var wg sync.WaitGroup
		for g := 1; g <= G; g++ {
			wg.Add(1)
			go func(g int) {
				defer wg.Done()
				<-start
				lg.Info(fmt.Sprintf("g%d-%d", g, 1), c04Fields(nil, g, 1, 20)...)
			}(g)
		}
		close(start)
		wg.Wait()
		lg.Sync()
		stopped := make(chan struct{})
		go func() { defer close(stopped); defer func() { recover() }(); b.Stop() }()
		select {
		case <-stopped:
		case <-time.After(5 * time.Second):
			c.Violation("C04/entry-lost", "Stop of a buffered sink first used by several goroutines at once did not return", map[string]interface{}{"mode": "first-writes"})
			return
		}
		w := &c04World{recs: []*c04Rec{rec}, sync: []bool{false}}
		counts := map[int]int{}
		for g := 1; g <= G; g++ {
			counts[g] = 1
		}
		if key, what := c04Oracle(w, counts); key != "" {
			c.Violation(key, what+fmt.Sprintf(" [%d goroutines each logging their first entry through a fresh BufferedWriteSyncer at the same moment, round %d]", G, r), map[string]interface{}{"mode": "first-writes"})
		}
		c.Add("traces_validated_against_impl", 1)
	}
}

// c04ConsoleNamespace: goroutines logging field-less and field-carrying entries through one console-encoded child
// whose context ends inside an open namespace; every line must be intact and nest its fields in that namespace.
func c04ConsoleNamespace(c *Ctx) {
	rounds := c.Pick(40, 400)
	for r := 0; r < rounds && !c.Saturated(); r++ {
		sink := &lockedLines{}
		enc := zapcore.NewConsoleEncoder(zapcore.EncoderConfig{MessageKey: "m"})
		lg := zap.New(zapcore.NewCore(enc, zapcore.Lock(sink), zapcore.DebugLevel)).With(zap.Namespace("req"), zap.Int("id", 7))
		const G = 4
		start := make(chan struct{})
		var wg sync.WaitGroup
		for g := 1; g <= G; g++ {
			wg.Add(1)
			go func(g int) {
				defer wg.Done()
				<-start
				for i := 1; i <= 6; i++ {
					if (g+i)%2 == 0 {
						lg.Info(fmt.Sprintf("g%d-%d", g, i))
					} else {
						lg.Info(fmt.Sprintf("g%d-%d", g, i), zap.Int("step", i))
					}
				}
			}(g)
		}
		close(start)
		wg.Wait()
		lines := sink.all()
		if len(lines) != G*6 {
			c.Violation("C04/entry-lost", fmt.Sprintf("console child with an open namespace: %d of %d entries reached the sink", len(lines), G*6), map[string]interface{}{"mode": "console-namespace"})
			return
		}
		for _, l := range lines {
			var g, i int
			parts := strings.SplitN(strings.TrimSuffix(l, "\n"), "\t", 2)
			if len(parts) != 2 {
				c.Violation("C04/line-corrupt", fmt.Sprintf("console line %q has no context column", l), map[string]interface{}{"mode": "console-namespace"})
				return
			}
			if _, err := fmt.Sscanf(parts[0], "g%d-%d", &g, &i); err != nil {
				c.Violation("C04/line-corrupt", fmt.Sprintf("console line %q does not start with its own message", l), map[string]interface{}{"mode": "console-namespace"})
				return
			}
			want := `{"req": {"id": 7}}`
			if (g+i)%2 == 1 {
				want = fmt.Sprintf(`{"req": {"id": 7, "step": %d}}`, i)
			}
			if parts[1] != want {
				c.Violation("C04/line-corrupt", fmt.Sprintf("console child with an open namespace, %d goroutines: line %q, its own entry renders as %q", G, l, parts[0]+"\t"+want), map[string]interface{}{"mode": "console-namespace"})
				return
			}
		}
		c.Add("traces_validated_against_impl", 1)
	}
}


// c04ObserverDrain: an observer core is a sink too (a tee branch in tests): producers log while a consumer drains it
// with TakeAll. Every entry is handed out exactly once, in each producer's order.
func c04ObserverDrain(c *Ctx) {
	c.MustTLC(TLCOpts{Module: "Observer", Cfg: "Observer.check"})
	c.MustTLC(TLCOpts{Module: "Observer", Cfg: "Observer.check", Consts: map[string]string{"PerProducer": "3", "MaxTakes": "3"}})
	c.MustTLC(TLCOpts{Module: "Observer", Cfg: "Observer.check", Consts: map[string]string{"Take": `"two-step"`}, ExpectViolation: true})
	c.MustTLC(TLCOpts{Module: "Observer", Cfg: "Observer.check", Consts: map[string]string{"Take": `"alias"`}, ExpectViolation: true})
	for round := 0; round < c.Pick(6, 60); round++ {
		ocore, logs := observer.New(zapcore.DebugLevel)
		ocore2, logs2 := observer.New(zapcore.InfoLevel)
		lg := zap.New(zapcore.NewTee(ocore, ocore2))
		const P, N = 6, 400
		var wg sync.WaitGroup
		for p := 0; p < P; p++ {
			wg.Add(1)
			go func(p int) {
				defer wg.Done()
				l := lg.With(zap.Int("p", p))
				for i := 0; i < N; i++ {
					l.Info("e", zap.Int("i", i))
				}
			}(p)
		}
		done := make(chan struct{})
		go func() { wg.Wait(); close(done) }()
		next := [2][P]int{}
		bad := ""
		type held struct {
			batch []observer.LoggedEntry
			first string
		}
		var kept []held
		sig := func(e observer.LoggedEntry) string { m := e.ContextMap(); return fmt.Sprint(m["p"], "/", m["i"]) }
		drain := func(k int, l *observer.ObservedLogs) {
			b := l.TakeAll()
			if len(b) > 0 && len(kept) < 64 {
				kept = append(kept, held{b, sig(b[0])}) // the batch is the consumer's: it is looked at again at the end
			}
			for _, e := range b {
				m := e.ContextMap()
				p, i := int(m["p"].(int64)), int(m["i"].(int64))
				if i != next[k][p] && bad == "" {
					bad = fmt.Sprintf("observer %d: producer %d's entry %d was handed out where its entry %d was due (entries lost, duplicated or reordered while TakeAll ran next to the loggers)", k+1, p, i, next[k][p])
				}
				next[k][p] = i + 1
			}
		}
		for running := true; running; {
			select {
			case <-done:
				running = false
			default:
			}
			drain(0, logs)
			drain(1, logs2)
		}
		drain(0, logs)
		drain(1, logs2)
		for _, h := range kept {
			if bad == "" && sig(h.batch[0]) != h.first {
				bad = fmt.Sprintf("a batch returned by TakeAll began with entry %s when it was handed out and begins with %s now: entries logged later overwrote it", h.first, sig(h.batch[0]))
			}
		}
		for k := 0; k < 2 && bad == ""; k++ {
			for p := 0; p < P; p++ {
				if next[k][p] != N {
					bad = fmt.Sprintf("observer %d: %d of producer %d's %d entries were handed out by TakeAll", k+1, next[k][p], p, N)
				}
			}
		}
		if bad != "" {
			c.Violation("C04/entry-lost", "tee of two observer cores drained with TakeAll while 6 goroutines log: "+bad, map[string]interface{}{"scenario": "observer-drain"})
			return
		}
		c.Add("traces_validated_against_impl", 1)
	}
}

// ---- the process ends with a Fatal entry while goroutines log through a buffered file sink ----

func init() { children["c04-fatal"] = c04FatalChild }

// c04FatalChild: args = [file]. Four goroutines log through Lock(BufferedWriteSyncer(file)); after they are done
// the main goroutine logs a Fatal entry (default action: exit 1).
func c04FatalChild(args []string) {
	f, err := os.OpenFile(args[0], os.O_CREATE|os.O_WRONLY|os.O_APPEND, 0o644)
	if err != nil {
		fmt.Println("HARNESS", err)
		os.Exit(3)
	}
	b := &zapcore.BufferedWriteSyncer{WS: f, Size: 64 * 1024, FlushInterval: time.Hour}
	lg := zap.New(zapcore.NewCore(c04Enc(), b, zapcore.DebugLevel))
	var wg sync.WaitGroup
	for g := 1; g <= 4; g++ {
		wg.Add(1)
		go func(g int) {
			defer wg.Done()
			l := lg.With(zap.Int("g", g))
			for i := 1; i <= 20; i++ {
				l.Info("step", zap.Int("i", i))
			}
		}(g)
	}
	wg.Wait()
	lg.Fatal("giving up", zap.Int("g", 0))
	os.Exit(7) // not reached
}

// c04FatalExit: whatever was accepted before the process ended with a Fatal entry is in the file, the Fatal entry
// included, one intact line each (the IO core syncs its sink for entries above Error level before control is lost).
func c04FatalExit(c *Ctx) {
	dir, err := os.MkdirTemp(filepath.Join(Root, "out"), "c04fatal-")
	if err != nil {
		c.Inconclusive("tempdir: %v", err)
		return
	}
	defer os.RemoveAll(dir)
	exe, _ := os.Executable()
	for r := 0; r < c.Pick(3, 20); r++ {
		path := filepath.Join(dir, fmt.Sprintf("fatal-%d.log", r))
		cmd := exec.Command(exe, "child", "c04-fatal", path)
		out, _ := cmd.CombinedOutput()
		if cmd.ProcessState == nil || cmd.ProcessState.ExitCode() != 1 {
			c.Inconclusive("c04-fatal child ended with %v: %s", cmd.ProcessState, firstLines(string(out), 5))
			return
		}
		data, _ := os.ReadFile(path)
		lines := strings.Split(strings.TrimSuffix(string(data), "\n"), "\n")
		seen := map[string]int{}
		for i, l := range lines {
			var m struct {
				M string `json:"m"`
				G int    `json:"g"`
				I int    `json:"i"`
			}
			if err := json.Unmarshal([]byte(l), &m); err != nil {
				c.Violation("C04/line-corrupt", fmt.Sprintf("process ending with a Fatal entry, buffered file sink: line %d of the file is not one entry: %q", i+1, l), map[string]interface{}{"scenario": "fatal-exit"})
				return
			}
			seen[fmt.Sprintf("%s/%d/%d", m.M, m.G, m.I)]++
		}
		missing := []string{}
		for g := 1; g <= 4; g++ {
			for i := 1; i <= 20; i++ {
				if seen[fmt.Sprintf("step/%d/%d", g, i)] != 1 {
					missing = append(missing, fmt.Sprintf("g%d#%d(x%d)", g, i, seen[fmt.Sprintf("step/%d/%d", g, i)]))
				}
			}
		}
		if seen["giving up/0/0"] != 1 {
			missing = append(missing, fmt.Sprintf("the Fatal entry (x%d)", seen["giving up/0/0"]))
		}
		if len(missing) > 0 {
			c.Violation("C04/entry-lost", fmt.Sprintf("four goroutines log 20 entries each through a BufferedWriteSyncer over a file, then the process logs a Fatal entry and exits: the file holds %d of 81 lines; not exactly once: %v", len(lines), missing), map[string]interface{}{"scenario": "fatal-exit"})
			return
		}
		c.Add("traces_validated_against_impl", 1)
	}
}

// c04SyncReachesEveryBranch: Logger.Sync flushes every branch of a tee whatever the other branches' Sync report
// (a terminal as first destination fails its Sync with ENOTTY): after it, the buffered branch's destination holds
// the full set, without waiting for Stop.
type c04TTY struct{ c04Rec }

func (t *c04TTY) Sync() error { return errors.New("sync /dev/stderr: inappropriate ioctl for device") }

func c04SyncReachesEveryBranch(c *Ctx) {
	for _, order := range []string{"failing-first", "failing-last", "failing-middle"} {
		tty := &c04TTY{}
		tty.id = 1
		rec := &c04Rec{id: 2}
		rec3 := &c04Rec{id: 3}
		b := &zapcore.BufferedWriteSyncer{WS: rec, Size: 64 * 1024, FlushInterval: time.Hour}
		b3 := &zapcore.BufferedWriteSyncer{WS: rec3, Size: 64 * 1024, FlushInterval: time.Hour}
		cT := zapcore.NewCore(c04Enc(), zapcore.Lock(tty), zapcore.DebugLevel)
		cB := zapcore.NewCore(c04Enc(), b, zapcore.DebugLevel)
		cB3 := zapcore.NewCore(c04Enc(), b3, zapcore.DebugLevel)
		var core zapcore.Core
		switch order {
		case "failing-first":
			core = zapcore.NewTee(cT, cB, cB3)
		case "failing-last":
			core = zapcore.NewTee(cB, cB3, cT)
		default:
			core = zapcore.NewTee(cB, cT, cB3)
		}
		lg := zap.New(core, zap.ErrorOutput(zapcore.AddSync(io.Discard)))
		const G, N = 4, 25
		var wg sync.WaitGroup
		for g := 1; g <= G; g++ {
			wg.Add(1)
			go func(g int) {
				defer wg.Done()
				for i := 1; i <= N; i++ {
					lg.Info(fmt.Sprintf("g%d-%d", g, i), c04Fields(nil, g, i, 20)...)
				}
			}(g)
		}
		wg.Wait()
		lg.Sync() // reports the terminal's complaint; the other branches are flushed all the same
		w := &c04World{recs: []*c04Rec{rec, rec3}, sync: []bool{false, false}}
		counts := map[int]int{}
		for g := 1; g <= G; g++ {
			counts[g] = N
		}
		if key, what := c04Oracle(w, counts); key != "" {
			c.Violation(key, what+fmt.Sprintf(" [tee with a branch whose Sync fails (%s) and two buffered branches; after Logger.Sync, before any Stop]", order), map[string]interface{}{"scenario": "sync-reaches-every-branch", "order": order})
		}
		b.Stop()
		b3.Stop()
		c.Add("traces_validated_against_impl", 1)
	}
}
