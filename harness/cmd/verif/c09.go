package main

import (
	"bytes"
	"sync/atomic"
	"context"
	"encoding/json"
	"fmt"
	"log/slog"
	"math/rand"
	"net/http"
	"net/http/httptest"
	"os"
	"os/exec"
	"runtime"
	"sort"
	"strings"
	"sync"
	"time"

	"go.uber.org/zap"
	"go.uber.org/zap/exp/zapslog"
	"go.uber.org/zap/zapcore"
	"go.uber.org/zap/zaptest/observer"
)

// C09 — the documented concurrent API is free of data races, deadlocks and panics.
// Spec: SyncProtocol.tla (happens-before model of every shared location the concurrent API
// touches). TLC supplies the program enumeration (which operations run concurrently) and the
// prediction (race-free); the same programs run on the real code in child processes built with
// the Go race detector, which is the observation instrument. LazyOnce.tla schedules are forced
// through gates for the first use of a lazy logger.

func init() {
	register("C09", checkC09)
	children["c09"] = childC09
}

var spMutants = []map[string]string{
	{"LazyEnabled": `"core"`}, {"OnceKind": `"flag"`}, {"ObserverAdd": `"bare"`}, {"LevelKind": `"plain"`}, {"GlobalsS": `"outside"`}, {"BwsSync": `"bare"`},
	{"LockedSyncErr": `"leak"`}, {"ColourMemo": `"memo"`}, {"StackFree": `"twice"`, "Procs": "{1, 2, 3}"},
}

type spBeh struct {
	Prog [][]string `json:"prog"`
}

// ---- the shared fixture -------------------------------------------------------

type c09World struct {
	atom    zap.AtomicLevel
	shared  *zap.Logger // JSON core over Lock(sink), level = atom
	lazy    *zap.Logger // freshly derived WithLazy logger (never used before the program starts)
	obsLog  *zap.Logger
	obs     *observer.ObservedLogs
	sampler *zap.Logger
	tee     *zap.Logger
	hooked  *zap.Logger
	inc     *zap.Logger
	locked  zapcore.WriteSyncer
	bws     *zapcore.BufferedWriteSyncer
	bwsLog  *zap.Logger
	slogH   slog.Handler
	slogH3  slog.Handler // a handler with three pending groups (its groups slice has spare capacity if built by append)
	hookLog *zap.Logger  // terminal entries run a custom hook that inspects the entry it is handed
	httpH   http.Handler
	combined1   zapcore.WriteSyncer
	combinedLog *zap.Logger
	lockedBad  zapcore.WriteSyncer // a locked sink whose Sync always fails (stderr on a terminal does)
	badSyncLog *zap.Logger
	callerLog  *zap.Logger // AddCaller
	stackLog   *zap.Logger // AddStacktrace(Warn)
	deepSkip   *zap.Logger // AddCaller with a skip beyond the stack: "failed to get caller" on the error output
	colourLog  *zap.Logger // console encoder with a colouring level encoder
	colourJSON *zap.Logger
	consoleNS  *zap.Logger // console logger whose context leaves a namespace open (freshly derived)
	namedJSON  *zap.Logger // JSON encoder with a name key and no name encoder, named, freshly built
}

type c09BadSync struct{ c09Discard }

func (d *c09BadSync) Sync() error { d.n++; return fmt.Errorf("sync /dev/stderr: inappropriate ioctl for device") }

type c09Hook struct{ seen *int64 }

func (h c09Hook) OnWrite(ce *zapcore.CheckedEntry, fs []zapcore.Field) {
	// reads of the entry after every core has written it
	n := int64(len(ce.Message)) + int64(ce.Level) + int64(len(ce.LoggerName)) + int64(len(fs))
	atomic.AddInt64(h.seen, n)
}

type c09Discard struct{ n int }

func (d *c09Discard) Write(p []byte) (int, error) { d.n += len(p); return len(p), nil } // unsynchronised on purpose: Lock must protect it
func (d *c09Discard) Sync() error                 { d.n++; return nil }

// c09ReadBatch: what a test does with the entries it took from the observer - it reads them, while the loggers
// carry on. The batch is the caller's.
func c09ReadBatch(es []observer.LoggedEntry) {
	n := 0
	for _, e := range es {
		n += len(e.Message) + int(e.Level) + len(e.Context)
		for _, f := range e.Context {
			n += len(f.Key) + int(f.Integer)
		}
	}
	_ = n
}

func c09NewWorld() *c09World {
	w := &c09World{atom: zap.NewAtomicLevelAt(zapcore.InfoLevel)}
	enc := func() zapcore.Encoder {
		return zapcore.NewJSONEncoder(zapcore.EncoderConfig{MessageKey: "m", LevelKey: "l", TimeKey: "t", EncodeLevel: zapcore.LowercaseLevelEncoder, EncodeTime: zapcore.EpochNanosTimeEncoder})
	}
	w.locked = zapcore.Lock(&c09Discard{})
	w.combined1 = zap.CombineWriteSyncers(&c09Discard{}) // a single destination, as zap.Open / Config.Build with one path make it
	w.combinedLog = zap.New(zapcore.NewCore(enc(), w.combined1, w.atom))
	base := zapcore.NewCore(enc(), w.locked, w.atom)
	// the shared logger's own context holds a reflected value (its encoder has used a reflection buffer)
	w.shared = zap.New(base).With(zap.Reflect("ctx", struct{ A, B int }{1, 2}))
	w.lazy = w.shared.WithLazy(zap.Int("lazy", 1), zap.Reflect("r", []int{1}))
	oc, logs := observer.New(w.atom)
	w.obs = logs
	w.obsLog = zap.New(oc)
	w.sampler = zap.New(zapcore.NewSamplerWithOptions(base, time.Millisecond, 2, 3))
	w.tee = zap.New(zapcore.NewTee(base, oc))
	w.hooked = zap.New(zapcore.RegisterHooks(base, func(zapcore.Entry) error { return nil }))
	if ic, err := zapcore.NewIncreaseLevelCore(base, zapcore.WarnLevel); err == nil {
		w.inc = zap.New(ic)
	} else {
		w.inc = w.shared
	}
	w.bws = &zapcore.BufferedWriteSyncer{WS: zapcore.AddSync(&c09Discard{}), Size: 512, FlushInterval: 200 * time.Microsecond}
	w.bwsLog = zap.New(zapcore.NewCore(enc(), w.bws, zapcore.DebugLevel))
	w.slogH = zapslog.NewHandler(base, zapslog.WithCaller(true))
	w.slogH3 = zapslog.NewHandler(base).WithGroup("g1").WithGroup("g2").WithGroup("g3")
	var seen int64
	w.hookLog = zap.New(base, zap.WithFatalHook(c09Hook{&seen}), zap.WithPanicHook(c09Hook{&seen}))
	w.httpH = w.atom
	w.lockedBad = zapcore.Lock(&c09BadSync{})
	errOut := zap.ErrorOutput(zapcore.Lock(&c09Discard{}))
	w.badSyncLog = zap.New(zapcore.NewCore(enc(), w.lockedBad, w.atom), errOut)
	w.callerLog = zap.New(base, zap.AddCaller(), errOut)
	w.stackLog = zap.New(base, zap.AddStacktrace(zapcore.WarnLevel), zap.AddCaller(), errOut)
	w.deepSkip = zap.New(base, zap.AddCaller(), zap.AddCallerSkip(100000), errOut)
	cenc := zapcore.EncoderConfig{MessageKey: "m", LevelKey: "l", EncodeLevel: zapcore.CapitalColorLevelEncoder}
	w.colourLog = zap.New(zapcore.NewCore(zapcore.NewConsoleEncoder(cenc), w.locked, zapcore.DebugLevel))
	w.consoleNS = w.colourLog.With(zap.Namespace("req"), zap.Int("id", 7))
	ncfg := zapcore.EncoderConfig{MessageKey: "m", NameKey: "logger", LevelKey: "l", EncodeLevel: zapcore.LowercaseLevelEncoder}
	w.namedJSON = zap.New(zapcore.NewCore(zapcore.NewJSONEncoder(ncfg), w.locked, zapcore.DebugLevel)).Named("svc").Named("db")
	cenc.EncodeLevel = zapcore.LowercaseColorLevelEncoder
	w.colourJSON = zap.New(zapcore.NewCore(zapcore.NewJSONEncoder(cenc), w.locked, zap.LevelEnablerFunc(func(zapcore.Level) bool { return true })))
	return w
}

func (w *c09World) close() { w.bws.Stop() }

// concrete operations per protocol operation of SyncProtocol.tla
var c09Concrete = map[string][]func(w *c09World, r *rand.Rand){
	"lazy.use": {
		func(w *c09World, r *rand.Rand) { w.lazy.Info("first use") },
		func(w *c09World, r *rand.Rand) { w.lazy.With(zap.Int("c", 1)).Info("child of lazy") },
		func(w *c09World, r *rand.Rand) { w.lazy.Sync() },
		func(w *c09World, r *rand.Rand) {
			if ce := w.lazy.Check(zapcore.ErrorLevel, "check"); ce != nil {
				ce.Write()
			}
		},
		func(w *c09World, r *rand.Rand) { w.lazy.Sugar().Infow("sugared", "k", 1) },
	},
	"lazy.enabled": {
		func(w *c09World, r *rand.Rand) { w.lazy.Core().Enabled(zapcore.InfoLevel) },
		func(w *c09World, r *rand.Rand) { w.lazy.Debug("below the level: pre-check only") },
		func(w *c09World, r *rand.Rand) { _ = w.lazy.Level() },
		func(w *c09World, r *rand.Rand) { w.lazy.Sugar().Debugw("sugared pre-check") },
	},
	"level.set": {
		func(w *c09World, r *rand.Rand) { w.atom.SetLevel(zapcore.Level(r.Intn(3) - 1)) },
		func(w *c09World, r *rand.Rand) { w.atom.UnmarshalText([]byte("warn")) },
		func(w *c09World, r *rand.Rand) {
			req := httptest.NewRequest("PUT", "/", strings.NewReader(`{"level":"info"}`))
			w.httpH.ServeHTTP(httptest.NewRecorder(), req)
		},
	},
	"level.get": {
		func(w *c09World, r *rand.Rand) { _ = w.atom.Level() },
		func(w *c09World, r *rand.Rand) { _ = w.atom.Enabled(zapcore.WarnLevel) },
		func(w *c09World, r *rand.Rand) { _ = w.atom.String() },
		func(w *c09World, r *rand.Rand) { w.httpH.ServeHTTP(httptest.NewRecorder(), httptest.NewRequest("GET", "/", nil)) },
		func(w *c09World, r *rand.Rand) { _ = w.shared.Level() },
	},
	"globals.replace": {
		func(w *c09World, r *rand.Rand) { undo := zap.ReplaceGlobals(w.shared); undo() },
		func(w *c09World, r *rand.Rand) { zap.ReplaceGlobals(w.tee) },
	},
	"globals.L": {
		func(w *c09World, r *rand.Rand) { zap.L().Info("global") },
	},
	"globals.S": {
		func(w *c09World, r *rand.Rand) { zap.S().Infow("global sugar", "k", 1) },
	},
	"observer.add": {
		func(w *c09World, r *rand.Rand) { w.obsLog.Info("observed", zap.Int("i", 1)) },
		func(w *c09World, r *rand.Rand) { w.obsLog.With(zap.Int("ctx", 1)).Warn("observed child") },
		func(w *c09World, r *rand.Rand) { w.tee.Error("through the tee") },
	},
	"observer.read": {
		func(w *c09World, r *rand.Rand) { _ = w.obs.All() },
		func(w *c09World, r *rand.Rand) { _ = w.obs.Len() },
		func(w *c09World, r *rand.Rand) { c09ReadBatch(w.obs.TakeAll()) },
		func(w *c09World, r *rand.Rand) { c09ReadBatch(w.obs.All()) },
		func(w *c09World, r *rand.Rand) { _ = w.obs.FilterMessage("observed").FilterField(zap.Int("i", 1)).Len() },
		func(w *c09World, r *rand.Rand) { _ = w.obs.FilterLevelExact(zapcore.InfoLevel).AllUntimed() },
	},
	"sampler.check": {
		func(w *c09World, r *rand.Rand) { w.sampler.Info("sampled message") },
		func(w *c09World, r *rand.Rand) { w.sampler.With(zap.Int("k", 1)).Info("sampled message") },
	},
	"locked.write": {
		func(w *c09World, r *rand.Rand) { w.locked.Write([]byte("raw\n")) },
		func(w *c09World, r *rand.Rand) { w.locked.Sync() },
		func(w *c09World, r *rand.Rand) { w.combined1.Write([]byte("raw\n")) },
		func(w *c09World, r *rand.Rand) { w.combinedLog.Error("through a single combined destination") },
		func(w *c09World, r *rand.Rand) { w.combined1.Sync() },
	},
	"logger.log": {
		func(w *c09World, r *rand.Rand) { w.shared.Info("shared", zap.Int("i", 1), zap.Reflect("r", map[string]int{"a": 1})) },
		func(w *c09World, r *rand.Rand) { w.shared.Sugar().Infow("sugar", "k", 1, "e", fmt.Errorf("x")) },
		func(w *c09World, r *rand.Rand) {
			if ce := w.shared.Check(zapcore.WarnLevel, "check"); ce != nil {
				ce.Write(zap.String("s", "v"))
			}
		},
		func(w *c09World, r *rand.Rand) { w.hooked.Error("hooked") },
		func(w *c09World, r *rand.Rand) { w.inc.Warn("level-increased") },
		func(w *c09World, r *rand.Rand) { w.shared.Sync() },
		func(w *c09World, r *rand.Rand) { slog.New(w.slogH).Info("via slog", "k", 1) },
		func(w *c09World, r *rand.Rand) { w.hookLog.Fatal("terminal entry with a custom hook", zap.Int("i", 1)) },
		func(w *c09World, r *rand.Rand) { w.hookLog.Panic("terminal entry with a custom hook") },
		func(w *c09World, r *rand.Rand) {
			rec := slog.NewRecord(time.Now(), slog.LevelWarn, "record", 0)
			rec.AddAttrs(slog.Group("g", slog.Int("a", 1)))
			w.slogH.Handle(context.Background(), rec)
		},
	},
	"locked.sync": {
		func(w *c09World, r *rand.Rand) { w.lockedBad.Sync(); w.lockedBad.Write([]byte("after a failed sync\n")) },
		func(w *c09World, r *rand.Rand) { w.badSyncLog.Sync(); w.badSyncLog.Error("after a failed sync") },
		func(w *c09World, r *rand.Rand) { w.badSyncLog.DPanic("an entry above error level syncs its core") },
		func(w *c09World, r *rand.Rand) { w.lockedBad.Write([]byte("raw\n")) },
	},
	"logger.caller": {
		func(w *c09World, r *rand.Rand) { w.callerLog.Info("annotated with its caller") },
		func(w *c09World, r *rand.Rand) { w.stackLog.Warn("annotated with caller and stack trace") },
		func(w *c09World, r *rand.Rand) { w.stackLog.Sugar().Errorw("sugared, with stack trace", "k", 1) },
		func(w *c09World, r *rand.Rand) { slog.New(w.slogH).Error("slog with caller") },
	},
	"logger.nocaller": {
		func(w *c09World, r *rand.Rand) { w.deepSkip.Info("caller skip beyond the stack") },
		func(w *c09World, r *rand.Rand) { w.deepSkip.With(zap.Int("k", 1)).Warn("caller skip beyond the stack, derived") },
	},
	"logger.colour": {
		func(w *c09World, r *rand.Rand) { w.colourLog.Info("known level, coloured") },
		func(w *c09World, r *rand.Rand) { w.colourLog.Log(zapcore.Level(20+r.Intn(60)), "unknown level, coloured") },
		func(w *c09World, r *rand.Rand) { w.colourJSON.Log(zapcore.Level(-20-r.Intn(60)), "unknown level, lowercase colour") },
		func(w *c09World, r *rand.Rand) { w.colourJSON.Warn("known level, lowercase colour") },
		func(w *c09World, r *rand.Rand) { w.consoleNS.Info("no fields of its own, context ends inside a namespace") },
		func(w *c09World, r *rand.Rand) { w.namedJSON.Info("named logger, default name encoder") },
		func(w *c09World, r *rand.Rand) { w.namedJSON.With(zap.Int("c", 1)).Info("child of a named logger") },
	},
	"logger.with": {
		func(w *c09World, r *rand.Rand) { w.shared.With(zap.Int("w", 1), zap.Namespace("ns")).Info("derived") },
		func(w *c09World, r *rand.Rand) { w.shared.Named("n").WithOptions(zap.AddCaller()).Info("named") },
		func(w *c09World, r *rand.Rand) {
			w.shared.With(zap.Reflect("r", map[string]int{"k": r.Intn(9)}), zap.Any("a", []interface{}{1, "x"})).Info("reflected child")
		},
		func(w *c09World, r *rand.Rand) { w.shared.WithLazy(zap.Int("l", 1)).Info("lazy child") },
		func(w *c09World, r *rand.Rand) { w.shared.Sugar().With("k", 1).Desugar().Info("round trip") },
		func(w *c09World, r *rand.Rand) {
			h := w.slogH3.WithGroup(fmt.Sprintf("x%d", r.Intn(1000)))
			slog.New(h).Info("child of a handler with pending groups", "k", 1)
		},
		func(w *c09World, r *rand.Rand) {
			h := w.slogH.WithGroup("g").WithAttrs([]slog.Attr{slog.Int("a", 1)})
			h.Enabled(context.Background(), slog.LevelInfo)
			slog.New(h).Warn("derived handler")
		},
	},
	"bws.write": {
		func(w *c09World, r *rand.Rand) { w.bws.Write(bytes.Repeat([]byte("x"), 1+r.Intn(700))) },
		func(w *c09World, r *rand.Rand) { w.bwsLog.Info("through the buffered syncer") },
	},
	"bws.sync": {
		func(w *c09World, r *rand.Rand) { w.bws.Sync() },
		func(w *c09World, r *rand.Rand) { w.bwsLog.Sync() },
	},
	"bws.stop": {
		func(w *c09World, r *rand.Rand) { w.bws.Stop() },
	},
}

// childC09: args = [programs-json, reps, seed]; runs every program reps times on fresh fixtures.
func childC09(args []string) {
	var progs [][][]string
	if err := json.Unmarshal([]byte(args[0]), &progs); err != nil {
		fmt.Println("HARNESS bad programs:", err)
		os.Exit(3)
	}
	reps, seed := 100, int64(1)
	fmt.Sscan(args[1], &reps)
	fmt.Sscan(args[2], &seed)
	for pi, prog := range progs {
		fmt.Fprintf(os.Stderr, "C09-PROGRAM %d %v\n", pi, prog)
		for rep := 0; rep < reps; rep++ {
			runtime.GOMAXPROCS(1 + (rep % 8))
			w := c09NewWorld()
			var wg sync.WaitGroup
			start := make(chan struct{})
			// first repetitions: each operation once (first-use effects); later ones: tight loops, and every other
			// time two goroutines per process of the program
			inner := 1
			run := prog
			if rep >= reps/3 {
				inner = 60
				if rep%2 == 0 {
					run = append(append([][]string{}, prog...), prog...)
				}
			}
			for gi, ops := range run {
				wg.Add(1)
				go func(gi int, ops []string) {
					defer wg.Done()
					defer func() {
						if r := recover(); r != nil {
							buf := make([]byte, 4096)
							n := runtime.Stack(buf, false)
							fmt.Fprintf(os.Stderr, "C09-PANIC program %d: %v\n%s\n", pi, r, buf[:n])
						}
					}()
					rng := rand.New(rand.NewSource(seed*7919 + int64(rep)*31 + int64(gi)))
					<-start
					for it := 0; it < inner; it++ {
						for _, op := range ops {
							cs := c09Concrete[op]
							if len(cs) == 0 {
								fmt.Fprintf(os.Stderr, "HARNESS no concrete operation for %s\n", op)
								continue
							}
							if op == "bws.stop" && it > 0 {
								continue
							}
							cs[(rep+gi+it)%len(cs)](w, rng)
						}
					}
				}(gi, ops)
			}
			done := make(chan struct{})
			go func() { wg.Wait(); close(done) }()
			close(start)
			select {
			case <-done:
			case <-time.After(20 * time.Second):
				buf := make([]byte, 1<<20)
				n := runtime.Stack(buf, true)
				fmt.Fprintf(os.Stderr, "C09-HANG program %d\n%s\n", pi, buf[:n])
				os.Exit(4)
			}
			w.close()
		}
	}
	fmt.Fprintln(os.Stderr, "C09-DONE")
}

func checkC09(c *Ctx) {
	c.Assume("the Go race detector is the observation instrument: it reports only races on schedules that actually ran (free-running repetitions with GOMAXPROCS 1..8; first use of a lazy logger additionally through gate-forced schedules); TLA+ decides the synchronisation protocol, not the code's memory accesses")
	c.Assume("each TLC-enumerated program (which protocol operations run concurrently) is executed on fresh fixtures with rotating concrete API calls per operation")
	if !raceEnabled {
		c.Fatalf("the C09 harness must be built with -race (bin/check does this)")
	}
	c.MustTLC(TLCOpts{Module: "SyncProtocol", Cfg: "SyncProtocol.check"})
	c.MustTLC(TLCOpts{Module: "Observer", Cfg: "Observer.check"})
	c.MustTLC(TLCOpts{Module: "Observer", Cfg: "Observer.check", Consts: map[string]string{"Take": `"alias"`}, ExpectViolation: true})
	c.MustTLC(TLCOpts{Module: "SyncProtocol", Cfg: "SyncProtocol.check", Consts: map[string]string{"Procs": "{1, 2, 3}"}})
	for _, m := range spMutants {
		c.MustTLC(TLCOpts{Module: "SyncProtocol", Cfg: "SyncProtocol.check", Consts: m, ExpectViolation: true})
	}
	// programs: all unordered pairs of operations; a seeded sample of triples
	seen := map[string][][]string{}
	collect := func(consts map[string]string) {
		consts["Emit"] = "TRUE"
		c.MustTLC(TLCOpts{Module: "SyncProtocol", Cfg: "SyncProtocol.check", Gen: true, Consts: consts, OnBeh: func(raw json.RawMessage) {
			var b spBeh
			if err := json.Unmarshal(raw, &b); err != nil {
				return
			}
			keys := []string{}
			for _, p := range b.Prog {
				keys = append(keys, strings.Join(p, "+"))
			}
			sort.Strings(keys)
			k := strings.Join(keys, " || ")
			if _, ok := seen[k]; !ok {
				seen[k] = b.Prog
			}
		}})
	}
	collect(map[string]string{})
	npairs := len(seen)
	collect(map[string]string{"Procs": "{1, 2, 3}"})
	keys := []string{}
	for k := range seen {
		keys = append(keys, k)
	}
	sort.Strings(keys)
	rng := rand.New(rand.NewSource(c.Seed))
	var progs [][][]string
	var names []string
	for _, k := range keys {
		if strings.Count(k, "||") >= 2 && rng.Intn(c.Pick(12, 2)) != 0 {
			continue
		}
		progs = append(progs, seen[k])
		names = append(names, k)
	}
	for i, nme := range names {
		if i%40 == 0 {
			c.Sample(map[string]interface{}{"concurrent_program": nme})
		}
	}
	c.Set("operation_pairs", int64(npairs))
	c.Set("programs_run", int64(len(progs)))
	reps := c.Pick(36, 300)
	exe, _ := os.Executable()
	type res struct {
		idx        int
		out        string
		code       int
		batchNames []string
	}
	batch := 8
	var jobs [][2]int
	for i := 0; i < len(progs); i += batch {
		j := i + batch
		if j > len(progs) {
			j = len(progs)
		}
		jobs = append(jobs, [2]int{i, j})
	}
	results := make(chan res, len(jobs))
	sem := make(chan struct{}, 8)
	var wg sync.WaitGroup
	for _, jb := range jobs {
		wg.Add(1)
		sem <- struct{}{}
		go func(jb [2]int) {
			defer wg.Done()
			defer func() { <-sem }()
			arg, _ := json.Marshal(progs[jb[0]:jb[1]])
			cmd := exec.Command(exe, "child", "c09", string(arg), fmt.Sprint(reps), fmt.Sprint(c.Seed))
			cmd.Env = append(os.Environ(), "GORACE=halt_on_error=0")
			var out bytes.Buffer
			cmd.Stderr = &out
			cmd.Stdout = &out
			err := cmd.Run()
			code := 0
			if ee, ok := err.(*exec.ExitError); ok {
				code = ee.ExitCode()
			}
			results <- res{jb[0], out.String(), code, names[jb[0]:jb[1]]}
		}(jb)
	}
	wg.Wait()
	close(results)
	for r := range results {
		c.Add("traces_validated_against_impl", int64(len(r.batchNames)*reps))
		if strings.Contains(r.out, "HARNESS") {
			c.Inconclusive("child: %s", firstLines(r.out, 5))
			continue
		}
		// split the output per program
		parts := strings.Split(r.out, "C09-PROGRAM ")
		for _, part := range parts[1:] {
			var pi int
			fmt.Sscan(part, &pi)
			name := "?"
			if pi < len(r.batchNames) {
				name = r.batchNames[pi]
			}
			if i := strings.Index(part, "WARNING: DATA RACE"); i >= 0 {
				rep := part[i:]
				if j := strings.Index(rep, "=================="); j > 0 {
					rep = rep[:j]
				}
				if strings.Contains(rep, "go.uber.org/zap") {
					c.Violation("C09/race", fmt.Sprintf("data race while running %s concurrently:\n%s", name, firstLines(rep, 40)), map[string]interface{}{"program": name, "report": rep})
				} else {
					c.Note("race report without zap frames while running %s (harness?): %s", name, firstLines(rep, 12))
					c.Inconclusive("race report outside zap while running %s", name)
				}
			}
			if i := strings.Index(part, "C09-PANIC"); i >= 0 {
				c.Violation("C09/panic", fmt.Sprintf("panic while running %s concurrently: %s", name, firstLines(part[i:], 25)), map[string]interface{}{"program": name})
			}
			if i := strings.Index(part, "C09-HANG"); i >= 0 {
				c.Violation("C09/deadlock", fmt.Sprintf("no progress for 20 s while running %s concurrently:\n%s", name, firstLines(part[i:], 60)), map[string]interface{}{"program": name})
			}
		}
		if i := strings.Index(r.out, "fatal error: concurrent map"); i >= 0 && strings.Contains(r.out[i:], "go.uber.org/zap") {
			// the runtime's own detector: unsynchronised map access aborts the process
			name := "?"
			if j := strings.LastIndex(r.out[:i], "C09-PROGRAM "); j >= 0 {
				var pi int
				fmt.Sscan(r.out[j+len("C09-PROGRAM "):], &pi)
				if pi < len(r.batchNames) {
					name = r.batchNames[pi]
				}
			}
			c.Violation("C09/race", fmt.Sprintf("the runtime aborted the process while running %s concurrently:\n%s", name, firstLines(r.out[i:], 30)), map[string]interface{}{"program": name})
			continue
		}
		if !strings.Contains(r.out, "C09-DONE") && !strings.Contains(r.out, "C09-HANG") && r.code != 66 {
			c.Inconclusive("child batch ended abnormally (status %d): %s", r.code, firstLines(r.out, 8))
		}
	}
	// gate-forced first use of a lazy logger (nil core before it exists = a panic)
	runLazyOnce(c, "C09/", func(k string) bool { return k == "lazy/panic" })
	c.Set("exhaustive", false)
	c.Set("rule", fmt.Sprintf("every unordered pair of the 20 protocol operations of SyncProtocol.tla and a seeded sample of triples, each %d times on fresh fixtures (one third single-shot, two thirds as tight loops of 60 iterations, half of those with two goroutines per process) under the race detector with GOMAXPROCS 1..8; LazyOnce.tla schedules forced through gates", reps))
}

func firstLines(s string, n int) string {
	ls := strings.Split(s, "\n")
	if len(ls) > n {
		ls = ls[:n]
	}
	return strings.Join(ls, "\n")
}
