package main

import (
	"net/url"
	"strings"
	"sync/atomic"
	"encoding/json"
	"fmt"
	"math/rand"
	"sync"
	"time"

	"go.uber.org/zap"
	"go.uber.org/zap/zapcore"
	"go.uber.org/zap/zaptest/observer"
)

// C11 — Sampler admits the first N then every Mth entry per level and message per tick.
// Spec: Sampler.tla.

func init() { register("C11", checkC11) }

type smpEnt struct {
	Core string `json:"core"`
	Lvl  string `json:"lvl"`
	Msg  string `json:"msg"`
	T    int    `json:"t"`
}

type smpAct struct {
	G string `json:"g"`
	A string `json:"a"`
	E smpEnt `json:"e"`
	K int    `json:"k"`
}

type smpBeh struct {
	H      []smpAct        `json:"h"`
	Dec    [][]interface{} `json:"dec"` // <<g, k, sampled>>
	Fwd    [][]interface{} `json:"fwd"` // <<g, k>>
	Resets int             `json:"resets"`
}

type smpParams struct {
	InitMin string `json:",omitempty"`
	N, M, Tick int
	InitOpen   bool // window already open (InitResetAt large)
}

func fnv32a(s string) uint32 {
	hash := uint32(2166136261)
	for i := 0; i < len(s); i++ {
		hash ^= uint32(s[i])
		hash *= 16777619
	}
	return hash
}

// smpMsgs returns concrete messages for the abstract ones: a and a2 collide (same fnv32a%4096 bucket,
// found by search), b does not. With long=true all three share a long common prefix and differ only
// near the end, so any shortcut in the hash shows up as a shared budget.
func smpMsgs(seed int64, long bool) map[string]string {
	rng := rand.New(rand.NewSource(seed))
	base := fmt.Sprintf("msg-%d-", rng.Intn(1000))
	if long {
		// far longer than any plausible "hash only the first N bytes" shortcut
		base = fmt.Sprintf("request failed: upstream %d returned an unexpected status while fetching the resource, retrying with backoff; %sattempt=", rng.Intn(1000), strings.Repeat("trace-context-padding ", 40))
	}
	a := base + "a"
	ba := fnv32a(a) % 4096
	m := map[string]string{"a": a}
	for i := 0; ; i++ {
		c := fmt.Sprintf("%sx%d", base, i)
		if c != a && fnv32a(c)%4096 == ba && m["a2"] == "" {
			m["a2"] = c
		}
		if fnv32a(c)%4096 != ba && m["b"] == "" {
			m["b"] = c
		}
		// neighbours of a's bucket at the distance of the number of levels: independent keys, whatever the level
		if fnv32a(c)%4096 == (ba+4096-7)%4096 && m["c"] == "" {
			m["c"] = c
		}
		if fnv32a(c)%4096 == (ba+7)%4096 && m["d"] == "" {
			m["d"] = c
		}
		if m["a2"] != "" && m["b"] != "" && m["c"] != "" && m["d"] != "" {
			return m
		}
	}
}

var smpLevels = map[string]zapcore.Level{"on": zapcore.InfoLevel, "on2": zapcore.WarnLevel, "off": zapcore.DebugLevel, "oor": zapcore.Level(42)}

const smpUnit = int64(time.Millisecond)
const smpBase = int64(1_700_000_000_000_000_000)

type smpRig struct {
	cores map[string]zapcore.Core
	logs  *observer.ObservedLogs
	mu    sync.Mutex
	hooks []smpHookCall
	gate  *Gate
	viaLogger bool
	mode  int // front end / wrapping used by log(); see smpModes
	al    zap.AtomicLevel
	min   string // the wrapped core's current minimum level, in the spec's names
}

// smpModes: the ways an entry reaches the sampler. The sampling rule is a property of the core, so every one of
// them must show the same decisions.
var smpModes = []string{"core", "logger", "sugar-template", "tee-after-accepting-core", "level-lowered-after-construction", "sugar-ln", "tee-through-logger", "sugar-w", "logger-terminal-levels"}

// in the "logger-terminal-levels" mode the two enabled levels are DPanic and Panic (with a panic hook that returns):
// the sampling rule knows no exception for entries that would end the program
var smpTermLevels = map[string]zapcore.Level{"on": zapcore.DPanicLevel, "on2": zapcore.PanicLevel, "off": zapcore.DebugLevel, "oor": zapcore.Level(42)}

type smpNoopHook struct{}

func (smpNoopHook) OnWrite(*zapcore.CheckedEntry, []zapcore.Field) {}

var smpMinLevels = map[string]zapcore.Level{"off": zapcore.DebugLevel, "on": zapcore.InfoLevel, "on2": zapcore.WarnLevel, "none": zapcore.ErrorLevel}
var smpRank = map[string]int{"off": 0, "on": 1, "on2": 2, "none": 3, "oor": 9}

func (r *smpRig) setMin(m string) {
	r.min = m
	if smpModes[r.mode] == "logger-terminal-levels" {
		r.al.SetLevel(map[string]zapcore.Level{"off": zapcore.DebugLevel, "on": zapcore.DPanicLevel, "on2": zapcore.PanicLevel, "none": zapcore.FatalLevel}[m])
		return
	}
	r.al.SetLevel(smpMinLevels[m])
}
func (r *smpRig) enabled(lvl string) bool { return smpRank[lvl] >= smpRank[r.min] }

type smpHookCall struct {
	who string // goroutine/process name when known
	msg string
	t   int64
	dec zapcore.SamplingDecision
}

func newSmpRig(p smpParams, g *Gate) *smpRig { return newSmpRigMode(p, g, 0) }

func newSmpRigMode(p smpParams, g *Gate, mode int) *smpRig {
	r := &smpRig{gate: g, mode: mode, viaLogger: mode == 1}
	// the wrapped core's level is an AtomicLevel the application may move at any time; in one mode it stands
	// above every in-range test level while the sampler is constructed and is lowered afterwards
	r.al = zap.NewAtomicLevelAt(zapcore.InfoLevel)
	if smpModes[mode] == "level-lowered-after-construction" {
		r.al.SetLevel(zapcore.ErrorLevel)
	}
	defer r.setMin("on")
	obs, logs := observer.New(r.al)
	r.logs = logs
	root := zapcore.NewSamplerWithOptions(obs, time.Duration(int64(p.Tick)*smpUnit), p.N, p.M,
		zapcore.SamplerHook(func(e zapcore.Entry, d zapcore.SamplingDecision) {
			who := ""
			if g != nil {
				who = g.ProcHere()
			}
			r.mu.Lock()
			r.hooks = append(r.hooks, smpHookCall{who: who, msg: e.Message, t: e.Time.UnixNano(), dec: d})
			r.mu.Unlock()
			if g != nil {
				g.At("user.hook", 0, 0)
			}
		}))
	r.cores = map[string]zapcore.Core{"root": root, "child": root.With([]zapcore.Field{zap.String("derived", "yes")})}
	if m := smpModes[mode]; m == "tee-after-accepting-core" || m == "tee-through-logger" {
		// the sampler is not the first core of a tee: it is handed an entry another core already accepted
		acc := &smpCountCore{}
		for k, c := range r.cores {
			r.cores[k] = zapcore.NewTee(acc, c)
		}
	}
	return r
}

// smpClock is the logger's clock: the sampler judges entries by the timestamps the front end gives them.
type smpClock struct{ t time.Time }

func (c smpClock) Now() time.Time                       { return c.t }
func (c smpClock) NewTicker(d time.Duration) *time.Ticker { return time.NewTicker(d) }

func (r *smpRig) log(e smpEnt, msgs map[string]string, tag string) {
	if m := smpModes[r.mode]; r.viaLogger || m == "tee-through-logger" || strings.HasPrefix(m, "sugar") || m == "logger-terminal-levels" {
		// through the zap.Logger front end (which stamps the entry from its clock before the core sees it)
		lg := zap.New(r.cores[e.Core], zap.WithClock(smpClock{time.Unix(0, smpBase+int64(e.T)*smpUnit)})).Named(tag)
		msg := msgs[e.Msg]
		switch m {
		case "logger-terminal-levels":
			lg = lg.WithOptions(zap.WithPanicHook(smpNoopHook{}))
			if ce := lg.Check(smpTermLevels[e.Lvl], msg); ce != nil {
				ce.Write()
			}
			return
		case "sugar-template":
			// the message the core sees is the rendered one, whatever the template was
			h := len(msg) / 2
			lg.Sugar().Logf(smpLevels[e.Lvl], "%s%s", msg[:h], msg[h:])
		case "sugar-ln":
			lg.Sugar().Logln(smpLevels[e.Lvl], msg)
		case "sugar-w":
			lg.Sugar().Logw(smpLevels[e.Lvl], msg, "k", e.T)
		default:
			lg.Log(smpLevels[e.Lvl], msg)
		}
		return
	}
	ent := zapcore.Entry{Level: smpLevels[e.Lvl], Message: msgs[e.Msg], Time: time.Unix(0, smpBase+int64(e.T)*smpUnit), LoggerName: tag}
	if ce := r.cores[e.Core].Check(ent, nil); ce != nil {
		ce.Write()
	}
}

func checkC11(c *Ctx) {
	c.Assume("timestamps are spec integers scaled to milliseconds from a fixed epoch; messages a/a2 are a real fnv32a%4096 collision found by search, b is in another bucket")
	msgs := smpMsgs(c.Seed, false)
	longMsgs := smpMsgs(c.Seed, true)
	c.Set("colliding_messages", []string{msgs["a"], msgs["a2"], longMsgs["a"], longMsgs["a2"]})
	params := []smpParams{}
	for n := 0; n <= 2; n++ {
		for m := 0; m <= c.Pick(2, 3); m++ {
			for _, tick := range []int{1, 2} {
				params = append(params, smpParams{N: n, M: m, Tick: tick})
			}
		}
	}
	// ---- model checking: sequential refinement of the reference, concurrent accounting, open-window exactness
	for _, p := range params {
		c.MustTLC(TLCOpts{Module: "Sampler", Cfg: "Sampler.seq", Consts: smpConsts(p, nil)})
	}
	c.MustTLC(TLCOpts{Module: "Sampler", Cfg: "Sampler.seq", Consts: map[string]string{"E": "4", "Levels": `{"on", "on2", "off", "oor"}`, "Msgs": `{"a", "a2", "b"}`, "Cores": `{"root", "child"}`, "Times": "{0, 2}"}})
	c.MustTLC(TLCOpts{Module: "Sampler", Cfg: "Sampler.conc"})
	c.MustTLC(TLCOpts{Module: "Sampler", Cfg: "Sampler.open"})
	if c.Thorough() {
		c.MustTLC(TLCOpts{Module: "Sampler", Cfg: "Sampler.conc", Consts: map[string]string{"E": "2", "G": `{"g1", "g2"}`, "Times": "{0, 1, 2, 3}"}, Timeout: 30 * time.Minute})
		c.MustTLC(TLCOpts{Module: "Sampler", Cfg: "Sampler.open", Consts: map[string]string{"G": `{"g1", "g2", "g3"}`}, Timeout: 30 * time.Minute})
	}
	c.MustTLC(TLCOpts{Module: "Sampler", Cfg: "Sampler.seq", Consts: map[string]string{"WindowCmp": `"ge"`}, ExpectViolation: true})
	c.MustTLC(TLCOpts{Module: "Sampler", Cfg: "Sampler.seq", Consts: map[string]string{"ModRule": `"one"`}, ExpectViolation: true})
	lvlConsts := map[string]string{"E": "3", "Levels": `{"on", "on2", "off", "oor"}`, "Times": "{0, 1, 2}", "MaxToggles": "2"}
	c.MustTLC(TLCOpts{Module: "Sampler", Cfg: "Sampler.seq", Consts: lvlConsts})
	c.MustTLC(TLCOpts{Module: "Sampler", Cfg: "Sampler.conc", Consts: map[string]string{"G": `{"g1", "g2"}`, "Levels": `{"on", "off"}`, "MaxToggles": "2"}})
	lvlMut := map[string]string{"LevelRead": `"construct"`}
	for k, v := range lvlConsts {
		lvlMut[k] = v
	}
	c.MustTLC(TLCOpts{Module: "Sampler", Cfg: "Sampler.seq", Consts: lvlMut, ExpectViolation: true})

	// ---- sequential histories replayed on the real sampler
	nseq := 0
	seqCb := func(p smpParams) func(json.RawMessage) {
		return func(raw json.RawMessage) {
			if c.Saturated() {
				return
			}
			var b smpBeh
			if err := json.Unmarshal(raw, &b); err != nil {
				c.Inconclusive("bad Sampler behaviour: %v", err)
				return
			}
			nseq++
			if nseq%2003 == 1 {
				c.Sample(map[string]interface{}{"mode": "seq", "params": p, "entries": smpEntries(b)})
			}
			for i, mm := range []map[string]string{msgs, longMsgs} {
				mode := (nseq*2 + i) % len(smpModes)
				for _, f := range smpReplaySeq(b, p, mm, mode) {
					c.Violation(f.Key, f.What, map[string]interface{}{"mode": "seq", "via": smpModes[mode], "params": p, "beh": b, "msgs": mm})
				}
				c.Add("seq_via_"+smpModes[mode], 1)
			}
			c.Add("traces_validated_against_impl", 1)
		}
	}
	for _, p := range params {
		c.MustTLC(TLCOpts{Module: "Sampler", Cfg: "Sampler.seq", Consts: smpConsts(p, map[string]string{"Emit": "TRUE", "E": fmt.Sprint(c.Pick(4, 5))}), OnBeh: seqCb(p), Gen: true})
	}
	// mixed keys (levels, colliding messages, derived cores), seeded random histories
	mixed := smpParams{N: 1, M: 2, Tick: 2}
	c.MustTLC(TLCOpts{Module: "Sampler", Cfg: "Sampler.seq", Gen: true, Workers: 1, Simulate: fmt.Sprintf("num=%d", c.Pick(1500, 12000)), Depth: 80, Seed: c.Seed, Timeout: 40 * time.Minute,
		Consts: smpConsts(mixed, map[string]string{"Emit": "TRUE", "E": "7", "Levels": `{"on", "on2", "off", "oor"}`, "Msgs": `{"a", "a2", "b"}`, "Cores": `{"root", "child"}`}), OnBeh: seqCb(mixed)})
	// the application moves the wrapped core's level while the history runs
	for _, im := range []string{"on", "none", "off"} {
		tg := smpParams{N: 1, M: 2, Tick: 2, InitMin: im}
		c.MustTLC(TLCOpts{Module: "Sampler", Cfg: "Sampler.seq", Gen: true, Workers: 1, Simulate: fmt.Sprintf("num=%d", c.Pick(700, 5000)), Depth: 80, Seed: c.Seed + 7, Timeout: 40 * time.Minute,
			Consts: smpConsts(tg, map[string]string{"Emit": "TRUE", "E": "6", "Levels": `{"on", "on2", "off", "oor"}`, "Msgs": `{"a", "b"}`, "Times": "{0, 1, 2}", "InitMin": `"` + im + `"`, "MaxToggles": "3"}), OnBeh: seqCb(tg)})
	}
	// messages in neighbouring buckets at different levels (independent budgets)
	c.MustTLC(TLCOpts{Module: "Sampler", Cfg: "Sampler.seq", Gen: true, Workers: 1, Simulate: fmt.Sprintf("num=%d", c.Pick(1200, 9000)), Depth: 80, Seed: c.Seed + 3, Timeout: 40 * time.Minute,
		Consts: smpConsts(mixed, map[string]string{"Emit": "TRUE", "E": "7", "Levels": `{"on", "on2"}`, "Msgs": `{"a", "c", "d"}`, "Times": "{0, 1}"}), OnBeh: seqCb(mixed)})
	c.Set("sequential_histories_replayed", int64(nseq))

	// ---- concurrent schedules forced through the gates
	ngate, ndiv := 0, 0
	gateCb := func(p smpParams) func(json.RawMessage) {
		return func(raw json.RawMessage) {
			if c.Saturated() {
				return
			}
			var b smpBeh
			if err := json.Unmarshal(raw, &b); err != nil {
				c.Inconclusive("bad Sampler behaviour: %v", err)
				return
			}
			if ndiv >= 15 {
				return // the code no longer passes the sampler's hook sites as the model has them: stop paying timeouts
			}
			ngate++
			if ngate%701 == 1 {
				c.Sample(map[string]interface{}{"mode": "gate", "params": p, "schedule": smpSchedule(b)})
			}
			f, div := smpReplayGate(b, p, msgs)
			if div != "" {
				f, div = smpReplayGate(b, p, msgs)
			}
			if div != "" {
				ndiv++
				c.Note("sampler gate replay diverged: %s", div)
				return
			}
			for _, x := range f {
				c.Violation(x.Key, x.What, map[string]interface{}{"mode": "gate", "params": p, "beh": b})
			}
			c.Add("traces_validated_against_impl", 1)
		}
	}
	pc := smpParams{N: 1, M: 2, Tick: 2}
	c.MustTLC(TLCOpts{Module: "Sampler", Cfg: "Sampler.conc", Gen: true, Consts: smpConsts(pc, map[string]string{"Emit": "TRUE", "G": `{"g1", "g2"}`, "Times": "{0, 2}"}), OnBeh: gateCb(pc)})
	po := smpParams{N: 1, M: 2, Tick: 2, InitOpen: true}
	c.MustTLC(TLCOpts{Module: "Sampler", Cfg: "Sampler.open", Gen: true, Workers: 1, Simulate: fmt.Sprintf("num=%d", c.Pick(300, 5000)), Depth: 80, Seed: c.Seed,
		Consts: smpConsts(po, map[string]string{"Emit": "TRUE", "G": `{"g1", "g2", "g3"}`, "E": "2"}), OnBeh: gateCb(po)})
	c.MustTLC(TLCOpts{Module: "Sampler", Cfg: "Sampler.conc", Gen: true, Workers: 1, Simulate: fmt.Sprintf("num=%d", c.Pick(300, 5000)), Depth: 80, Seed: c.Seed + 1,
		Consts: smpConsts(pc, map[string]string{"Emit": "TRUE", "G": `{"g1", "g2", "g3"}`, "E": "2", "Times": "{0, 1, 2, 3}"}), OnBeh: gateCb(pc)})
	c.Set("gate_schedules_replayed", int64(ngate))
	c.Set("gate_schedules_diverged", int64(ndiv))
	if ndiv*10 > ngate {
		c.Inconclusive("too many sampler gate replays diverged (%d of %d)", ndiv, ngate)
	}
	zapcore.VerifHook = nil

	// ---- free-running stress inside one open window: exact admitted count + per-entry accounting
	smpStress(c, msgs)
}

func smpConsts(p smpParams, extra map[string]string) map[string]string {
	m := map[string]string{"N": fmt.Sprint(p.N), "M": fmt.Sprint(p.M), "Tick": fmt.Sprint(p.Tick)}
	for k, v := range extra {
		m[k] = v
	}
	return m
}

func smpEntries(b smpBeh) []string {
	out := []string{}
	for _, a := range b.H {
		if a.A == "Start" {
			out = append(out, fmt.Sprintf("%s:%s/%s/%s@%d", a.G, a.E.Core, a.E.Lvl, a.E.Msg, a.E.T))
		}
	}
	return out
}

func smpSchedule(b smpBeh) []string {
	out := []string{}
	for _, a := range b.H {
		s := a.G + ":" + a.A
		if a.A == "Start" {
			s += fmt.Sprintf("(t=%d)", a.E.T)
		}
		out = append(out, s)
	}
	return out
}

func smpExpect(b smpBeh) (dec map[string]bool, fwd map[string]bool) {
	dec, fwd = map[string]bool{}, map[string]bool{}
	for _, d := range b.Dec {
		dec[fmt.Sprintf("%v/%v", d[0], d[1])] = d[2].(bool)
	}
	for _, d := range b.Fwd {
		fwd[fmt.Sprintf("%v/%v", d[0], d[1])] = true
	}
	return
}

// smpReplaySeq: one goroutine; the spec's dec/fwd (TLC-checked equal to the reference rule) are the oracle.
func smpReplaySeq(b smpBeh, p smpParams, msgs map[string]string, mode int) (finds []Finding) {
	add := func(key, f string, a ...interface{}) { finds = append(finds, Finding{Key: key, What: fmt.Sprintf(f, a...)}) }
	defer func() {
		if r := recover(); r != nil {
			add("C11/panic", "sampler panicked: %v", r)
		}
	}()
	zapcore.VerifHook = nil
	rig := newSmpRigMode(p, nil, mode)
	if p.InitMin != "" {
		rig.setMin(p.InitMin)
	}
	dec, fwd := smpExpect(b)
	for _, a := range b.H {
		if a.A == "SetMin" {
			rig.setMin(a.E.Lvl)
			continue
		}
		if a.A != "Start" {
			continue
		}
		id := fmt.Sprintf("%s/%d", a.G, a.K)
		h0, l0 := len(rig.hooks), rig.logs.Len()
		rig.log(a.E, msgs, id)
		nh, nl := len(rig.hooks)-h0, rig.logs.Len()-l0
		desc := fmt.Sprintf("N=%d M=%d tick=%d via %s, history=%v entry %s (%s/%s/%s t=%d, wrapped core's level %s)", p.N, p.M, p.Tick, smpModes[mode], smpEntries(b), id, a.E.Core, a.E.Lvl, a.E.Msg, a.E.T, rig.min)
		wantDec, decided := dec[id]
		switch {
		case !rig.enabled(a.E.Lvl):
			if decided {
				add("HARNESS/C11-decision-for-disabled-in-spec", "%s", desc)
				continue
			}
			if nh != 0 || nl != 0 {
				add("C11/disabled-level-consumed", "%s: a disabled-level entry caused %d hook calls and %d forwards", desc, nh, nl)
			}
		case a.E.Lvl == "oor":
			if nh != 0 || nl != 1 {
				add("C11/out-of-range", "%s: an out-of-range level must pass unsampled (no decision); got %d hook calls, %d forwards", desc, nh, nl)
			}
		default:
			if !decided {
				add("HARNESS/C11-no-decision-in-spec", "%s", desc)
				continue
			}
			if nh != 1 {
				add("C11/hook-count", "%s: %d hook calls, want exactly 1", desc, nh)
				continue
			}
			got := rig.hooks[len(rig.hooks)-1].dec == zapcore.LogSampled
			if got != wantDec {
				add("C11/decision", "%s: sampler decided sampled=%v, the rule (first N then every Mth per window) says %v", desc, got, wantDec)
			}
			if (nl == 1) != got || nl > 1 {
				add("C11/forward-mismatch", "%s: hook said sampled=%v but %d entries reached the wrapped core", desc, got, nl)
			}
			if fwd[id] != wantDec {
				add("HARNESS/C11-spec-inconsistent", "%s", desc)
			}
		}
	}
	return finds
}

// smpReplayGate forces the interleaving of the atomics.
func smpReplayGate(b smpBeh, p smpParams, msgs map[string]string) (finds []Finding, diverged string) {
	add := func(key, f string, a ...interface{}) { finds = append(finds, Finding{Key: key, What: fmt.Sprintf(f, a...)}) }
	if p.InitOpen {
		return smpReplayGateOpen(b, p, msgs)
	}
	g := NewGate()
	rig := newSmpRig(p, g)
	zapcore.VerifHook = func(site string, obj interface{}, a, bb int64) {
		if len(site) > 4 && site[:4] == "smp." {
			g.At(site, a, bb)
		}
	}
	defer func() {
		g.Drain()
		zapcore.VerifHook = nil
	}()
	const to = 3 * time.Second
	ncalls := map[string]int{}
	fail := func(i int, a smpAct, what string) string {
		return fmt.Sprintf("step %d (%s:%s): %s; schedule=%v", i, a.G, a.A, what, smpSchedule(b)[:i+1])
	}
	for i, a := range b.H {
		switch a.A {
		case "SetMin":
			rig.setMin(a.E.Lvl)
		case "Start":
			e, id := a.E, fmt.Sprintf("%s/%d", a.G, a.K)
			g.Go(a.G, func() { rig.log(e, msgs, id) })
			if !rig.enabled(e.Lvl) || e.Lvl == "oor" {
				ncalls[a.G]++
				if !g.WaitDone(a.G, ncalls[a.G], to) {
					return finds, fail(i, a, "undecided entry did not return")
				}
				continue
			}
			if s, _ := g.WaitParked(a.G, to, "smp.enter"); s != "smp.enter" {
				return finds, fail(i, a, "did not reach the counter ("+s+")")
			}
		case "Load":
			g.Release(a.G)
			if s, _ := g.WaitParked(a.G, to, "smp.load"); s != "smp.load" {
				return finds, fail(i, a, "no load ("+s+")")
			}
		case "Store":
			g.Release(a.G)
			if s, _ := g.WaitParked(a.G, to, "smp.store"); s != "smp.store" {
				return finds, fail(i, a, "the model takes the reset branch, the code did not ("+s+")")
			}
		case "Cas":
			g.Release(a.G)
			if s, _ := g.WaitParked(a.G, to, "smp.casfail", "user.hook"); s != "smp.casfail" && s != "user.hook" {
				return finds, fail(i, a, "after CAS ("+s+")")
			}
		case "Add":
			g.Release(a.G)
			if s, _ := g.WaitParked(a.G, to, "user.hook"); s != "user.hook" {
				return finds, fail(i, a, "the model takes the add branch, the code did not reach its decision ("+s+")")
			}
		case "Decide":
		case "Hook":
			if s, _ := g.WaitParked(a.G, to, "user.hook"); s != "user.hook" {
				return finds, fail(i, a, "not at the decision hook ("+s+")")
			}
			g.Release(a.G)
			ncalls[a.G]++
			if !g.WaitDone(a.G, ncalls[a.G], to) {
				return finds, fail(i, a, "Check/Write did not return after the hook")
			}
		case "Fwd":
		}
	}
	finds = append(finds, smpAccounting(rig, b, p, fmt.Sprintf("schedule=%v", smpSchedule(b)))...)
	_ = add
	return finds, ""
}

// smpReplayGateOpen: same, with the window opened beforehand by a warm-up entry (InitResetAt large in the spec).
func smpReplayGateOpen(b smpBeh, p smpParams, msgs map[string]string) (finds []Finding, diverged string) {
	g := NewGate()
	p2 := p
	p2.Tick = 100000 // window stays open for every timestamp of the schedule
	rig := newSmpRig(p2, g)
	g.free = true
	zapcore.VerifHook = func(site string, obj interface{}, a, bb int64) {
		if len(site) > 4 && site[:4] == "smp." {
			g.At(site, a, bb)
		}
	}
	defer func() {
		g.Drain()
		zapcore.VerifHook = nil
	}()
	// warm-up entries: N of them are needed so that positions in the window line up with the spec's counter 0
	// Instead, open the window with a throw-away sampler position: use a different approach — the spec's
	// InitResetAt window starts with counter 0, so open the real window and then reset the count by
	// constructing the sampler with first+1 and thereafter unchanged is not equivalent. We therefore compare
	// only what OpenWindowExact states: per-entry accounting and the exact admitted count for the total
	// number of entries, shifted by the one warm-up entry.
	rig.log(smpEnt{Core: "root", Lvl: "on", Msg: "a", T: 0}, msgs, "warm")
	g.free = false
	const to = 3 * time.Second
	ncalls := map[string]int{}
	fail := func(i int, a smpAct, what string) string {
		return fmt.Sprintf("open-window step %d (%s:%s): %s; schedule=%v", i, a.G, a.A, what, smpSchedule(b)[:i+1])
	}
	for i, a := range b.H {
		switch a.A {
		case "Start":
			e, id := a.E, fmt.Sprintf("%s/%d", a.G, a.K)
			e.T += 1
			g.Go(a.G, func() { rig.log(e, msgs, id) })
			if s, _ := g.WaitParked(a.G, to, "smp.enter"); s != "smp.enter" {
				return finds, fail(i, a, "did not reach the counter ("+s+")")
			}
		case "Load":
			g.Release(a.G)
			if s, _ := g.WaitParked(a.G, to, "smp.load"); s != "smp.load" {
				return finds, fail(i, a, "no load ("+s+")")
			}
		case "Add":
			g.Release(a.G)
			if s, _ := g.WaitParked(a.G, to, "user.hook"); s != "user.hook" {
				return finds, fail(i, a, "inside an open window the code must take the add branch ("+s+")")
			}
		case "Hook":
			g.Release(a.G)
			ncalls[a.G]++
			if !g.WaitDone(a.G, ncalls[a.G], to) {
				return finds, fail(i, a, "Check/Write did not return after the hook")
			}
		case "Store", "Cas":
			return finds, fail(i, a, "spec schedule resets inside an open window")
		}
	}
	// exact count: positions 2..total+1 of the window (position 1 was the warm-up entry)
	total := 0
	for _, a := range b.H {
		if a.A == "Start" {
			total++
		}
	}
	want := 0
	for x := 2; x <= total+1; x++ {
		if x <= p.N || (p.M > 0 && (x-p.N)%p.M == 0) {
			want++
		}
	}
	got := 0
	for _, e := range rig.logs.All() {
		if e.LoggerName != "warm" {
			got++
		}
	}
	if got != want {
		finds = append(finds, Finding{Key: "C11/open-window-count", What: fmt.Sprintf("N=%d M=%d: %d entries of one key inside an already open window (after 1 warm-up entry): %d admitted, exact count is %d; schedule=%v", p.N, p.M, total, got, want, smpSchedule(b))})
	}
	finds = append(finds, smpAccounting(rig, b, p, fmt.Sprintf("open window, schedule=%v", smpSchedule(b)))...)
	return finds, ""
}

// smpAccounting: per entry exactly one hook call; forwarded iff that call said sampled.
func smpAccounting(rig *smpRig, b smpBeh, p smpParams, ctx string) (finds []Finding) {
	add := func(key, f string, a ...interface{}) { finds = append(finds, Finding{Key: key, What: fmt.Sprintf(f, a...)}) }
	fwdBy := map[string]int{}
	for _, e := range rig.logs.All() {
		fwdBy[e.LoggerName]++
	}
	// hook calls are attributed by goroutine and order
	perG := map[string][]smpHookCall{}
	for _, h := range rig.hooks {
		perG[h.who] = append(perG[h.who], h)
	}
	idx := map[string]int{}
	for _, a := range b.H {
		if a.A != "Start" || a.E.Lvl == "off" || a.E.Lvl == "oor" {
			continue
		}
		id := fmt.Sprintf("%s/%d", a.G, a.K)
		calls := perG[a.G]
		if idx[a.G] >= len(calls) {
			add("C11/hook-count", "N=%d M=%d %s: entry %s got no decision hook call", p.N, p.M, ctx, id)
			continue
		}
		h := calls[idx[a.G]]
		idx[a.G]++
		sampled := h.dec == zapcore.LogSampled
		if (fwdBy[id] == 1) != sampled || fwdBy[id] > 1 {
			add("C11/forward-mismatch", "N=%d M=%d %s: entry %s: hook said sampled=%v but it reached the wrapped core %d times", p.N, p.M, ctx, id, sampled, fwdBy[id])
		}
	}
	for gname, calls := range perG {
		if gname != "" && idx[gname] != len(calls) {
			add("C11/hook-count", "N=%d M=%d %s: goroutine %s saw %d hook calls for %d decided entries", p.N, p.M, ctx, gname, len(calls), idx[gname])
		}
	}
	return finds
}

// smpStress: free-running goroutines, one key, inside one open window.
func smpStress(c *Ctx, msgs map[string]string) {
	rng := rand.New(rand.NewSource(c.Seed + 99))
	runs := c.Pick(60, 1500)
	for r := 0; r < runs && !c.Saturated(); r++ {
		p := smpParams{N: rng.Intn(4), M: rng.Intn(4), Tick: 1 << 20}
		var mu sync.Mutex
		hookN := map[zapcore.SamplingDecision]int{}
		obs, logs := observer.New(zap.InfoLevel)
		core := zapcore.NewSamplerWithOptions(obs, time.Hour, p.N, p.M, zapcore.SamplerHook(func(e zapcore.Entry, d zapcore.SamplingDecision) {
			mu.Lock()
			hookN[d]++
			mu.Unlock()
		}))
		t0 := time.Unix(0, smpBase)
		open := zapcore.Entry{Level: zapcore.InfoLevel, Message: msgs["a"], Time: t0}
		if ce := core.Check(open, nil); ce != nil {
			ce.Write()
		}
		G, E := 2+rng.Intn(7), 1+rng.Intn(40)
		var wg sync.WaitGroup
		for gi := 0; gi < G; gi++ {
			wg.Add(1)
			go func(gi int) {
				defer wg.Done()
				cc := core
				if gi%2 == 1 {
					cc = core.With([]zapcore.Field{zap.Int("g", gi)})
				}
				for k := 0; k < E; k++ {
					ent := zapcore.Entry{Level: zapcore.InfoLevel, Message: msgs[[]string{"a", "a2"}[k%2]], Time: t0.Add(time.Duration(k) * time.Millisecond)}
					if ce := cc.Check(ent, nil); ce != nil {
						ce.Write()
					}
				}
			}(gi)
		}
		wg.Wait()
		total := G*E + 1
		want := 0
		for x := 1; x <= total; x++ {
			if x <= p.N || (p.M > 0 && (x-p.N)%p.M == 0) {
				want++
			}
		}
		got := logs.Len()
		mu.Lock()
		hs, hd := hookN[zapcore.LogSampled], hookN[zapcore.LogDropped]
		mu.Unlock()
		if got != want {
			c.Violation("C11/open-window-count", fmt.Sprintf("free-running: N=%d M=%d, %d goroutines x %d entries of one key (colliding messages, derived cores) inside one open window: %d admitted, exact count is %d", p.N, p.M, G, E, got, want), map[string]interface{}{"mode": "stress"})
		}
		if hs != got || hs+hd != total {
			c.Violation("C11/hook-count", fmt.Sprintf("free-running: %d entries, %d forwarded, hook calls sampled=%d dropped=%d", total, got, hs, hd), map[string]interface{}{"mode": "stress"})
		}
		c.Add("traces_validated_against_impl", 1)
	}
	c.Set("open_window_stress_runs", int64(runs))
	// heavy contention on one counter: many entries per goroutine through a core that does nothing but count,
	// so that goroutines really meet inside the counter (the observer's mutex above serialises them)
	heavy := c.Pick(8, 60)
	for r := 0; r < heavy && !c.Saturated(); r++ {
		p := smpParams{N: rng.Intn(3), M: 1 + rng.Intn(3)}
		cnt := &smpCountCore{}
		var hs, hd int64
		core := zapcore.NewSamplerWithOptions(cnt, time.Hour, p.N, p.M, zapcore.SamplerHook(func(e zapcore.Entry, d zapcore.SamplingDecision) {
			if d == zapcore.LogSampled {
				atomic.AddInt64(&hs, 1)
			} else {
				atomic.AddInt64(&hd, 1)
			}
		}))
		t0 := time.Unix(0, smpBase)
		if ce := core.Check(zapcore.Entry{Level: zapcore.InfoLevel, Message: msgs["a"], Time: t0}, nil); ce != nil {
			ce.Write()
		}
		G, E := 8, 20000
		var wg sync.WaitGroup
		for gi := 0; gi < G; gi++ {
			wg.Add(1)
			go func(gi int) {
				defer wg.Done()
				ent := zapcore.Entry{Level: zapcore.InfoLevel, Message: msgs["a"], Time: t0.Add(time.Millisecond)}
				for k := 0; k < E; k++ {
					if ce := core.Check(ent, nil); ce != nil {
						ce.Write()
					}
				}
			}(gi)
		}
		wg.Wait()
		total := G*E + 1
		want := 0
		for x := 1; x <= total; x++ {
			if x <= p.N || (p.M > 0 && (x-p.N)%p.M == 0) {
				want++
			}
		}
		got := int(atomic.LoadInt64(&cnt.n))
		if got != want {
			c.Violation("C11/open-window-count", fmt.Sprintf("free-running under contention: N=%d M=%d, %d goroutines x %d entries of one key inside one open window: %d admitted, exact count is %d", p.N, p.M, G, E, got, want), map[string]interface{}{"mode": "stress-heavy"})
		}
		if int(hs) != got || int(hs+hd) != total {
			c.Violation("C11/hook-count", fmt.Sprintf("free-running under contention: %d entries, %d forwarded, hook calls sampled=%d dropped=%d", total, got, hs, hd), map[string]interface{}{"mode": "stress-heavy"})
		}
		c.Add("traces_validated_against_impl", 1)
	}
	c.Set("open_window_contention_runs", int64(heavy))
	// the first entries a sampler ever sees at a level, from several goroutines at once, each with a key of its own:
	// per key everything is sequential, so the count is exact
	first := c.Pick(300, 3000)
	for r := 0; r < first && !c.Saturated(); r++ {
		const G, K = 8, 6
		cnt := map[string]*int64{}
		keys := make([]string, G)
		used := map[uint32]bool{}
		for g, i := 0, 0; g < G; i++ {
			k := fmt.Sprintf("first-use-%d-%d", r, i)
			if b := fnv32a(k) % 4096; !used[b] {
				used[b] = true
				keys[g] = k
				cnt[k] = new(int64)
				g++
			}
		}
		var hookS int64
		core := zapcore.NewSamplerWithOptions(smpKeyCount(cnt), time.Hour, 1, 0, zapcore.SamplerHook(func(e zapcore.Entry, d zapcore.SamplingDecision) {
			if d == zapcore.LogSampled {
				atomic.AddInt64(&hookS, 1)
			}
		}))
		var spin int32
		var wg sync.WaitGroup
		t0 := time.Unix(0, smpBase)
		lvl := []zapcore.Level{zapcore.InfoLevel, zapcore.WarnLevel, zapcore.ErrorLevel}[r%3]
		for g := 0; g < G; g++ {
			wg.Add(1)
			go func(g int) {
				defer wg.Done()
				atomic.AddInt32(&spin, 1)
				for atomic.LoadInt32(&spin) < G {
				}
				for k := 0; k < K; k++ {
					if ce := core.Check(zapcore.Entry{Level: lvl, Message: keys[g], Time: t0}, nil); ce != nil {
						ce.Write()
					}
				}
			}(g)
		}
		wg.Wait()
		for _, k := range keys {
			if n := atomic.LoadInt64(cnt[k]); n != 1 {
				c.Violation("C11/decision", fmt.Sprintf("%d goroutines log the first %v entries a fresh sampler (first=1, thereafter=0) ever sees, each goroutine its own message (distinct buckets) %d times with one timestamp: message %q was admitted %d times, the rule says once", G, lvl, K, k, n), map[string]interface{}{"mode": "first-use-race"})
				break
			}
		}
		c.Add("traces_validated_against_impl", 1)
	}
	smpConfigFrontEnd(c)
}

// smpMemSink is registered once under the scheme "c11mem": Config.Build then writes into it.
type smpMemSink struct {
	mu sync.Mutex
	n  int
}

func (s *smpMemSink) Write(p []byte) (int, error) { s.mu.Lock(); s.n++; s.mu.Unlock(); return len(p), nil }
func (s *smpMemSink) Sync() error                 { return nil }
func (s *smpMemSink) Close() error                { return nil }

var smpMem = &smpMemSink{}
var smpMemOnce sync.Once

// smpConfigFrontEnd: the sampling parameters given through zap.Config mean the same as on the core.
func smpConfigFrontEnd(c *Ctx) {
	smpMemOnce.Do(func() {
		zap.RegisterSink("c11mem", func(*url.URL) (zap.Sink, error) { return smpMem, nil })
	})
	for _, p := range []smpParams{{N: 1, M: 0}, {N: 3, M: 0}, {N: 2, M: 2}, {N: 1, M: 3}, {N: 0, M: 1}} {
		var hs, hd int64
		cfg := zap.NewProductionConfig()
		cfg.OutputPaths = []string{"c11mem://x"}
		cfg.ErrorOutputPaths = []string{"c11mem://x"}
		cfg.Sampling = &zap.SamplingConfig{Initial: p.N, Thereafter: p.M, Hook: func(e zapcore.Entry, d zapcore.SamplingDecision) {
			if d == zapcore.LogSampled {
				atomic.AddInt64(&hs, 1)
			} else {
				atomic.AddInt64(&hd, 1)
			}
		}}
		lg, err := cfg.Build(zap.WithClock(smpClock{time.Unix(0, smpBase)}))
		if err != nil {
			c.Inconclusive("Config.Build: %v", err)
			return
		}
		smpMem.mu.Lock()
		smpMem.n = 0
		smpMem.mu.Unlock()
		total := 40
		for i := 0; i < total; i++ {
			lg.Info("one message")
		}
		want := 0
		for x := 1; x <= total; x++ {
			if x <= p.N || (p.M > 0 && (x-p.N)%p.M == 0) {
				want++
			}
		}
		smpMem.mu.Lock()
		got := smpMem.n
		smpMem.mu.Unlock()
		if got != want || int(hs) != want || int(hs+hd) != total {
			c.Violation("C11/decision", fmt.Sprintf("zap.Config{Sampling{Initial: %d, Thereafter: %d}}: %d entries of one message inside one tick: %d written (hook: %d sampled, %d dropped); first %d then every %dth (none if zero) is %d", p.N, p.M, total, got, hs, hd, p.N, p.M, want),
				map[string]interface{}{"mode": "config", "N": p.N, "M": p.M})
		}
		c.Add("traces_validated_against_impl", 1)
	}
}

// smpCountCore accepts everything and only counts the entries written to it.
type smpCountCore struct{ n int64 }

func (c *smpCountCore) Enabled(zapcore.Level) bool          { return true }
func (c *smpCountCore) With([]zapcore.Field) zapcore.Core   { return c }
func (c *smpCountCore) Check(e zapcore.Entry, ce *zapcore.CheckedEntry) *zapcore.CheckedEntry {
	return ce.AddCore(e, c)
}
func (c *smpCountCore) Write(zapcore.Entry, []zapcore.Field) error { atomic.AddInt64(&c.n, 1); return nil }
func (c *smpCountCore) Sync() error                               { return nil }


// smpKeyCount counts forwarded entries per message.
type smpKeyCountCore struct{ cnt map[string]*int64 }

func smpKeyCount(cnt map[string]*int64) *smpKeyCountCore { return &smpKeyCountCore{cnt} }
func (c *smpKeyCountCore) Enabled(zapcore.Level) bool        { return true }
func (c *smpKeyCountCore) With([]zapcore.Field) zapcore.Core { return c }
func (c *smpKeyCountCore) Check(e zapcore.Entry, ce *zapcore.CheckedEntry) *zapcore.CheckedEntry {
	return ce.AddCore(e, c)
}
func (c *smpKeyCountCore) Write(e zapcore.Entry, _ []zapcore.Field) error {
	if p := c.cnt[e.Message]; p != nil {
		atomic.AddInt64(p, 1)
	}
	return nil
}
func (c *smpKeyCountCore) Sync() error { return nil }
