package main

import (
	"go.uber.org/zap/zaptest"
	"bytes"
	"encoding/json"
	"fmt"
	"math/rand"
	"strings"
	"sync"
	"time"

	"go.uber.org/zap"
	"go.uber.org/zap/zapcore"
)

// C16 — console encoder lines have the documented shape with a valid JSON context.
// Specs: Console.tla (columns, separators, message, context, stack, ending) and JsonEnc.tla with
// Spaced = TRUE (the context object). Every configuration / program TLC generates is replayed
// on zapcore.NewConsoleEncoder.

func init() { register("C16", checkC16) }

type conCfg struct {
	Tk, Lk, Nk, Ck, Fk, Mk, Sk bool
	Et, El, En, Ec             string
	Tz, Nm, Cd, St, Fe, Me     bool
	Ctx                        string
}

type conBeh struct {
	Cfg  map[string]interface{} `json:"cfg"`
	Line []string               `json:"line"`
}

func (b conBeh) cfg() conCfg {
	g := func(k string) bool { v, _ := b.Cfg[k].(bool); return v }
	s := func(k string) string { v, _ := b.Cfg[k].(string); return v }
	return conCfg{g("tk"), g("lk"), g("nk"), g("ck"), g("fk"), g("mk"), g("sk"), s("et"), s("el"), s("en"), s("ec"), g("tz"), g("nm"), g("cd"), g("st"), g("fe"), g("me"), s("ctx")}
}

var conMutants = []map[string]string{
	{"SepRule": `"always"`}, {"SepRule": `"never-double"`}, {"Order": `"level-first"`, "Family": `"parts"`},
	{"CtxSepRule": `"none"`, "Family": `"parts"`}, {"StackRule": `"nokey"`, "Family": `"parts"`},
}

func checkC16(c *Ctx) {
	c.Assume("column texts are chosen so that the separator does not occur inside them; separators: default (TAB), TAB, ' | ', a multi-byte one, a single space, '::'")
	c.Assume("a line that starts with columns rendering as the empty string may or may not carry the separators in front of its first byte (Console.tla accepts both, and only there)")
	if c.Replay != "" {
		var rp struct {
			Key    string `json:"key"`
			Replay struct {
				Beh     json.RawMessage `json:"beh"`
				Seed    int64           `json:"seed"`
				Hostile bool            `json:"hostile"`
			} `json:"replay"`
		}
		if err := readJSON(c.Replay, &rp); err != nil {
			c.Fatalf("replay file: %v", err)
		}
		if strings.HasPrefix(rp.Key, "C16/context:") {
			var b jeBeh
			json.Unmarshal(rp.Replay.Beh, &b)
			fs, _, _ := replayJSONMode(b, rp.Replay.Seed, rp.Replay.Hostile, true)
			for _, f := range fs {
				c.Violation(f.Key, f.What, rp.Replay)
			}
			return
		}
		var b conBeh
		json.Unmarshal(rp.Replay.Beh, &b)
		for _, f := range replayConsole(b, rp.Replay.Seed) {
			c.Violation(f.Key, f.What, rp.Replay)
		}
		return
	}
	fams := []string{"cols", "encs", "parts"}
	if c.Thorough() {
		fams = append(fams, "full")
	}
	for _, m := range conMutants {
		c.MustTLC(TLCOpts{Module: "Console", Cfg: "Console.check", Consts: m, ExpectViolation: true})
	}
	var mu sync.Mutex
	n := int64(0)
	for _, fam := range fams {
		c.MustTLC(TLCOpts{Module: "Console", Cfg: "Console.check", Consts: map[string]string{"Family": `"` + fam + `"`}})
		jobs := make(chan conBeh, 1024)
		var wg sync.WaitGroup
		for w := 0; w < 12; w++ {
			wg.Add(1)
			go func() {
				defer wg.Done()
				for b := range jobs {
					if c.Saturated() {
						continue
					}
					mu.Lock()
					n++
					k := n
					mu.Unlock()
					reps := 3
					if fam == "full" {
						reps = 1
					}
					for r := 0; r < reps; r++ {
						seed := c.Seed*7919 + k*13 + int64(r)
						for _, f := range replayConsole(b, seed) {
							c.Violation(f.Key, f.What, map[string]interface{}{"beh": b, "seed": seed})
						}
						c.Add("traces_validated_against_impl", 1)
					}
					if k%4001 == 1 {
						c.Sample(b)
					}
				}
			}()
		}
		c.MustTLC(TLCOpts{Module: "Console", Cfg: "Console.check", Gen: true, Timeout: c.pickD(), Consts: map[string]string{"Family": `"` + fam + `"`, "Emit": "TRUE"}, OnBeh: func(raw json.RawMessage) {
			var b conBeh
			if err := json.Unmarshal(raw, &b); err != nil {
				c.Inconclusive("bad Console behaviour: %v", err)
				return
			}
			jobs <- b
		}})
		close(jobs)
		wg.Wait()
	}
	c.Set("console_configurations", n)
	// the JSON context: JsonEnc.tla in spaced mode
	c.MustTLC(TLCOpts{Module: "JsonEnc", Cfg: "JsonEnc.check", Consts: map[string]string{"Spaced": "TRUE", "MaxCalls": fmt.Sprint(c.Pick(3, 4)), "CfgSet": `"two"`}})
	c.MustTLC(TLCOpts{Module: "JsonEnc", Cfg: "JsonEnc.check", Consts: map[string]string{"Spaced": "TRUE", "MaxCalls": "3", "ObjNS": `"noclose"`}, ExpectViolation: true})
	jobs := make(chan jeBeh, 4096)
	var wg sync.WaitGroup
	var nb int64
	for w := 0; w < 12; w++ {
		wg.Add(1)
		go func() {
			defer wg.Done()
			for b := range jobs {
				if c.Saturated() {
					continue
				}
				mu.Lock()
				nb++
				k := nb
				mu.Unlock()
				for r := 0; r < 2; r++ {
					seed := c.Seed*104729 + k*17 + int64(r)
					fs, _, err := replayJSONMode(b, seed, r > 0, true)
					if err != nil {
						c.Inconclusive("replay: %v", err)
						continue
					}
					for _, f := range fs {
						c.Violation(f.Key, f.What, map[string]interface{}{"beh": b, "seed": seed, "hostile": r > 0})
					}
					c.Add("traces_validated_against_impl", 1)
				}
			}
		}()
	}
	c.MustTLC(TLCOpts{Module: "JsonEnc", Cfg: "JsonEnc.check", Gen: true, Timeout: c.pickD(), Consts: map[string]string{"Spaced": "TRUE", "MaxCalls": fmt.Sprint(c.Pick(3, 4)), "CfgSet": `"nometa"`, "Emit": "TRUE"}, OnBeh: func(raw json.RawMessage) {
		var b jeBeh
		if err := json.Unmarshal(raw, &b); err != nil {
			c.Inconclusive("bad JsonEnc behaviour: %v", err)
			return
		}
		jobs <- b
	}})
	close(jobs)
	wg.Wait()
	c.Set("context_programs", nb)
	// two overlapping EncodeEntry calls on one encoder value, interleaved column by column
	c.MustTLC(TLCOpts{Module: "ConsoleOverlap", Cfg: "ConsoleOverlap.check"})
	c.MustTLC(TLCOpts{Module: "ConsoleOverlap", Cfg: "ConsoleOverlap.check", Consts: map[string]string{"Scratch": `"per-encoder"`}, ExpectViolation: true})
	nov := 0
	c.MustTLC(TLCOpts{Module: "ConsoleOverlap", Cfg: "ConsoleOverlap.check", Gen: true, Workers: 1, Consts: map[string]string{"Emit": "TRUE"}, OnBeh: func(raw json.RawMessage) {
		var b struct {
			Sched [][2]interface{} `json:"sched"`
		}
		if err := json.Unmarshal(raw, &b); err != nil || c.Saturated() {
			return
		}
		nov++
		key, what, inc := replayConsoleOverlap(b.Sched)
		if inc != "" {
			c.Add("schedules_not_followed", 1)
			c.Note("console overlap schedule not followed: %s", inc)
			return
		}
		if key != "" {
			c.Violation(key, what, map[string]interface{}{"overlap": b.Sched})
		}
		c.Add("traces_validated_against_impl", 1)
	}})
	c.Set("overlap_schedules", int64(nov))
	c.Set("exhaustive", true)
	c.Set("rule", "every configuration of the listed Console.tla families (thorough: the full 2M product) x 3 seeded concretisations; every JsonEnc.tla program (Spaced) up to the bound as console context x 2 concretisations")
	for _, f := range replayConsoleSharedFields() {
		c.Violation(f.Key, f.What, map[string]interface{}{"mode": "shared-field-list"})
	}
	for _, f := range replayConsoleZaptest(c.Seed) {
		c.Violation(f.Key, f.What, map[string]interface{}{"mode": "zaptest-front-end"})
	}
	c.Add("traces_validated_against_impl", 1)

}

var conSeps = []string{"", "\t", " | ", "»«", " ", "::", "│", "·"}

// c16Poison: an application-supplied column encoder panics half way through the columns of an entry and the
// application recovers (as an HTTP middleware would). Entries encoded afterwards must look as always.
func c16Poison(which int) {
	defer func() { recover() }()
	cfg := zapcore.EncoderConfig{TimeKey: "t", LevelKey: "l", NameKey: "n", CallerKey: "c", MessageKey: "m",
		EncodeTime: zapcore.EpochTimeEncoder, EncodeLevel: zapcore.CapitalLevelEncoder, EncodeCaller: zapcore.ShortCallerEncoder}
	switch which % 3 {
	case 0:
		cfg.EncodeName = func(string, zapcore.PrimitiveArrayEncoder) { panic("user name encoder failed") }
	case 1:
		cfg.EncodeCaller = func(zapcore.EntryCaller, zapcore.PrimitiveArrayEncoder) { panic("user caller encoder failed") }
	default:
		cfg.EncodeLevel = func(l zapcore.Level, e zapcore.PrimitiveArrayEncoder) { e.AppendString("STALE-LEVEL"); panic("user level encoder failed") }
	}
	enc := zapcore.NewConsoleEncoder(cfg)
	enc.EncodeEntry(zapcore.Entry{LoggerName: "STALE-NAME", Message: "poison", Time: time.Unix(1, 0), Caller: zapcore.EntryCaller{Defined: true, File: "stale.go", Line: 1}}, nil)
}

func replayConsole(b conBeh, seed int64) (finds []Finding) {
	if seed%4 == 0 {
		c16Poison(int(seed / 4))
	}
	rng := rand.New(rand.NewSource(seed))
	cf := b.cfg()
	add := func(key, f string, a ...interface{}) {
		finds = append(finds, Finding{Key: key, What: fmt.Sprintf(f, a...) + fmt.Sprintf(" [cfg=%+v]", cf)})
	}
	sepCfg := conSeps[rng.Intn(len(conSeps))]
	sep := sepCfg
	if sep == "" {
		sep = "\t"
	}
	ec := zapcore.EncoderConfig{ConsoleSeparator: sepCfg}
	ending := []string{"\n", "\r\n", "<EOL>"}[rng.Intn(3)]
	ec.LineEnding = ending
	if ending == "\n" && rng.Intn(2) == 0 {
		ec.LineEnding = ""
	}
	col := map[string]string{}
	ent := zapcore.Entry{Level: []zapcore.Level{zapcore.InfoLevel, zapcore.ErrorLevel, zapcore.Level(9)}[rng.Intn(3)]}
	if cf.Tk {
		ec.TimeKey = "T"
	}
	if cf.Lk {
		ec.LevelKey = "L"
	}
	if cf.Nk {
		ec.NameKey = "N"
	}
	if cf.Ck {
		ec.CallerKey = "C"
	}
	if cf.Fk {
		ec.FunctionKey = "F"
	}
	if cf.Mk {
		ec.MessageKey = "M"
	}
	if cf.Sk {
		ec.StacktraceKey = "S"
	}
	if !cf.Tz {
		ent.Time = time.Date(2024, 5, 6, 7, 8, 9, 123456789, time.UTC)
	}
	switch cf.Et {
	case "noop":
		ec.EncodeTime = func(time.Time, zapcore.PrimitiveArrayEncoder) {}
	case "str":
		switch rng.Intn(4) {
		case 0:
			ec.EncodeTime = zapcore.ISO8601TimeEncoder
			col["time"] = ent.Time.Format("2006-01-02T15:04:05.000Z0700")
		case 1:
			ec.EncodeTime = zapcore.EpochTimeEncoder
			col["time"] = fmt.Sprint(float64(ent.Time.UnixNano()) / float64(time.Second))
		case 2:
			ec.EncodeTime = zapcore.EpochNanosTimeEncoder
			col["time"] = fmt.Sprint(ent.Time.UnixNano())
		default:
			ec.EncodeTime = zapcore.TimeEncoderOfLayout("15h04m05")
			col["time"] = ent.Time.Format("15h04m05")
		}
	}
	switch cf.El {
	case "noop":
		ec.EncodeLevel = func(zapcore.Level, zapcore.PrimitiveArrayEncoder) {}
	case "str":
		if rng.Intn(2) == 0 {
			ec.EncodeLevel = zapcore.CapitalLevelEncoder
			col["level"] = ent.Level.CapitalString()
		} else {
			ec.EncodeLevel = zapcore.LowercaseLevelEncoder
			col["level"] = ent.Level.String()
		}
	}
	if cf.Nm {
		ent.LoggerName = "svc.sub"
	}
	switch cf.En {
	case "noop":
		ec.EncodeName = func(string, zapcore.PrimitiveArrayEncoder) {}
	case "str":
		ec.EncodeName = zapcore.FullNameEncoder
	}
	col["name"] = ent.LoggerName
	if cf.Cd {
		ent.Caller = zapcore.EntryCaller{Defined: true, PC: 1, File: "/src/pkg/file.go", Line: 42, Function: "pkg.Func"}
		if cf.Fe {
			ent.Caller.Function = ""
		}
	}
	switch cf.Ec {
	case "noop":
		ec.EncodeCaller = func(zapcore.EntryCaller, zapcore.PrimitiveArrayEncoder) {}
	case "str":
		if rng.Intn(2) == 0 {
			ec.EncodeCaller = zapcore.ShortCallerEncoder
			col["caller"] = ent.Caller.TrimmedPath()
		} else {
			ec.EncodeCaller = zapcore.FullCallerEncoder
			col["caller"] = ent.Caller.String()
		}
	}
	col["func"] = ent.Caller.Function
	if !cf.Me {
		ent.Message = []string{"message", "msg-with-\"quotes\"", "multi word message", "m"}[rng.Intn(4)]
		if sep == " " {
			ent.Message = "message"
		}
	}
	col["msg"] = ent.Message
	if cf.St {
		ent.Stack = "main.f\n\t/src/main.go:10"
	}
	col["stack"] = ent.Stack
	col["sep"] = sep
	col["nl"] = "\n"
	col["eol"] = ending
	// fields
	var ctxFields, fields []zap.Field
	switch cf.Ctx {
	case "skip-only":
		fields = []zap.Field{zap.Skip(), zap.NamedError("e", nil)}
		if rng.Intn(2) == 0 {
			ctxFields = []zap.Field{zap.Skip()}
		}
	case "fields":
		pool := []zap.Field{zap.Int("i", 1), zap.String("s", "v\t\"q\""), zap.Namespace("ns"), zap.Float64("f", 0.5), zap.Strings("a", []string{"x", "y"}), zap.Duration("d", time.Second), zap.Skip()}
		n := 1 + rng.Intn(3)
		for i := 0; i < n; i++ {
			f := pool[rng.Intn(len(pool))]
			if rng.Intn(3) == 0 {
				ctxFields = append(ctxFields, f)
			} else {
				fields = append(fields, f)
			}
		}
		// at least one field that produces output
		fields = append(fields, zap.Bool("last", true))
	}
	var line []byte
	func() {
		defer func() {
			if p := recover(); p != nil {
				add("C16/panic", "console EncodeEntry panicked: %v", p)
			}
		}()
		enc := zapcore.NewConsoleEncoder(ec)
		if len(ctxFields) > 0 {
			enc = enc.Clone()
			for _, f := range ctxFields {
				f.AddTo(enc)
			}
		}
		if seed%2 == 0 {
			// history: an earlier entry without call-site fields through the same encoder
			if b0, err := enc.EncodeEntry(ent, nil); err == nil {
				b0.Free()
			}
		}
		buf, err := enc.EncodeEntry(ent, fields)
		if err != nil {
			add("C16/error", "EncodeEntry returned %v", err)
			return
		}
		line = append([]byte(nil), buf.Bytes()...)
		buf.Free()
	}()
	if line == nil {
		return finds
	}
	// predicted shape -> expected bytes around the JSON context
	pre, post := "", ""
	seenJSON := false
	for _, t := range b.Line {
		if t == "json" {
			seenJSON = true
			continue
		}
		v, ok := col[t]
		if !ok {
			add("HARNESS/C16", "no text for column %q", t)
			return finds
		}
		if seenJSON {
			post += v
		} else {
			pre += v
		}
	}
	desc := fmt.Sprintf("separator %q, predicted shape %v", sep, b.Line)
	if !seenJSON {
		if string(line) != pre {
			add("C16/shape", "line %q, the documented shape is %q (%s)", line, pre, desc)
		}
		return finds
	}
	if !bytes.HasPrefix(line, []byte(pre)) || !bytes.HasSuffix(line, []byte(post)) || len(line) < len(pre)+len(post)+2 {
		add("C16/shape", "line %q does not have the documented shape %q + JSON context + %q (%s)", line, pre, post, desc)
		return finds
	}
	ctx := line[len(pre) : len(line)-len(post)]
	if err := strictJSONObjectLine(ctx, ""); err != nil {
		add("C16/context:invalid-json", "the context %q of line %q is not one valid JSON object: %v (%s)", ctx, line, err, desc)
		return finds
	}
	// same fields, in order, as the JSON encoder emits
	jenc := zapcore.NewJSONEncoder(zapcore.EncoderConfig{EncodeDuration: ec.EncodeDuration, EncodeTime: ec.EncodeTime, SkipLineEnding: true})
	if len(ctxFields) > 0 {
		jenc = jenc.Clone()
		for _, f := range ctxFields {
			f.AddTo(jenc)
		}
	}
	jb, err := jenc.EncodeEntry(zapcore.Entry{}, fields)
	if err == nil {
		if got, want := stripJSONSpaces(ctx), string(jb.Bytes()); got != want {
			add("C16/context:differs-from-json-encoder", "context %q differs from the JSON encoder's rendering %q of the same fields (%s)", ctx, want, desc)
		}
		jb.Free()
	}
	return finds
}

// stripJSONSpaces removes spaces outside string literals.
func stripJSONSpaces(b []byte) string {
	var out []byte
	in := false
	for i := 0; i < len(b); i++ {
		c := b[i]
		if in {
			out = append(out, c)
			if c == '\\' && i+1 < len(b) {
				i++
				out = append(out, b[i])
			} else if c == '"' {
				in = false
			}
			continue
		}
		if c == ' ' {
			continue
		}
		if c == '"' {
			in = true
		}
		out = append(out, c)
	}
	return string(out)
}

// replayConsoleOverlap forces one column-by-column interleaving of two EncodeEntry calls on one encoder.
func replayConsoleOverlap(sched [][2]interface{}) (key, what, inconclusive string) {
	gt := NewGate()
	defer gt.Drain()
	cfg := zapcore.EncoderConfig{TimeKey: "T", LevelKey: "L", NameKey: "N", CallerKey: "C", MessageKey: "M",
		EncodeTime:   func(t time.Time, e zapcore.PrimitiveArrayEncoder) { gt.At("time", 0, 0); e.AppendString(t.UTC().Format("2006")) },
		EncodeLevel:  func(l zapcore.Level, e zapcore.PrimitiveArrayEncoder) { gt.At("level", 0, 0); e.AppendString(l.CapitalString()) },
		EncodeName:   func(n string, e zapcore.PrimitiveArrayEncoder) { gt.At("name", 0, 0); e.AppendString(n) },
		EncodeCaller: func(c zapcore.EntryCaller, e zapcore.PrimitiveArrayEncoder) { gt.At("caller", 0, 0); e.AppendString(c.TrimmedPath()) },
	}
	enc := zapcore.NewConsoleEncoder(cfg)
	ents := map[string]zapcore.Entry{
		"1": {Level: zapcore.ErrorLevel, Time: time.Date(2020, 1, 1, 0, 0, 0, 0, time.UTC), LoggerName: "first", Message: "slow", Caller: zapcore.EntryCaller{Defined: true, File: "/a/one.go", Line: 1}},
		"2": {Level: zapcore.InfoLevel, Time: time.Date(2021, 1, 1, 0, 0, 0, 0, time.UTC), LoggerName: "second", Message: "fast", Caller: zapcore.EntryCaller{Defined: true, File: "/b/two.go", Line: 2}},
	}
	want := map[string]string{"1": "2020\tERROR\tfirst\ta/one.go:1\tslow\n", "2": "2021\tINFO\tsecond\tb/two.go:2\tfast\n"}
	got := map[string]string{}
	var mu sync.Mutex
	for p, e := range ents {
		p, e := p, e
		gt.Go(p, func() {
			defer func() {
				if r := recover(); r != nil {
					mu.Lock()
					got[p] = fmt.Sprintf("PANIC %v", r)
					mu.Unlock()
				}
			}()
			buf, err := enc.EncodeEntry(e, nil)
			mu.Lock()
			if err != nil {
				got[p] = "ERROR " + err.Error()
			} else {
				got[p] = buf.String()
				buf.Free()
			}
			mu.Unlock()
		})
	}
	for _, st := range sched {
		p, col := fmt.Sprint(st[0]), fmt.Sprint(st[1])
		if col == "join" {
			continue
		}
		if s, _ := gt.WaitParked(p, 3*time.Second, col); s != col {
			inconclusive = fmt.Sprintf("process %s expected at the %s sub-encoder, found %q", p, col, s)
			break
		}
		gt.Release(p)
	}
	gt.Drain()
	for p := range ents {
		if !gt.WaitDone(p, 1, 5*time.Second) {
			return "", "", "EncodeEntry did not return"
		}
	}
	mu.Lock()
	defer mu.Unlock()
	for p := range ents {
		if got[p] != want[p] {
			return "C16/overlap", fmt.Sprintf("two EncodeEntry calls overlapping on one console encoder (order of column steps %v): entry %s came out as %q, alone it is %q", sched, p, got[p], want[p]), ""
		}
	}
	return "", "", inconclusive
}

// replayConsoleZaptest: zaptest.NewLogger prints console-encoded entries through testing.TB. What the test log
// shows must be the console line itself (minus its line ending), whatever bytes the entry contains.
func replayConsoleZaptest(seed int64) (finds []Finding) {
	add := func(key, f string, a ...interface{}) {
		if len(finds) < 4 {
			finds = append(finds, Finding{Key: key, What: fmt.Sprintf(f, a...)})
		}
	}
	clk := smpClock{time.Unix(1700000000, 0)}
	t := &stubT{}
	lg := zaptest.NewLogger(t, zaptest.WrapOptions(zap.WithClock(clk)))
	var buf bytes.Buffer
	ref := zap.New(zapcore.NewCore(zapcore.NewConsoleEncoder(zap.NewDevelopmentEncoderConfig()), zapcore.AddSync(&buf), zapcore.DebugLevel), zap.WithClock(clk))
	texts := append([]string{"two\nlines", "100% done", "%d items", "%!s(MISSING)", "50%% off %s %v %[1]d %", "%"}, jeStrPool...)
	rng := rand.New(rand.NewSource(seed))
	for i, m := range texts {
		if len(m) > 2000 {
			continue
		}
		k, v, name := texts[rng.Intn(len(texts))], texts[rng.Intn(len(texts))], []string{"", "svc", "a%sb"}[i%3]
		if len(k) > 2000 || len(v) > 2000 {
			k, v = "k%d", "v%v"
		}
		for _, l := range []*zap.Logger{lg, ref} {
			l.Named(name).With(zap.String(k, v)).Info(m, zap.String("%s", "%d"), zap.Int("n", i))
		}
		want := strings.TrimRight(buf.String(), "\n")
		buf.Reset()
		t.mu.Lock()
		got := ""
		if len(t.logs) > 0 {
			got = t.logs[len(t.logs)-1]
		}
		n := len(t.logs)
		t.logs = nil
		t.mu.Unlock()
		if n != 1 {
			add("C16/zaptest:entry-count", "message %q through zaptest.NewLogger: %d test-log lines", m, n)
			continue
		}
		if got != want {
			add("C16/zaptest:line-differs", "through zaptest.NewLogger the test log shows %q, the console line is %q", trunc(got), trunc(want))
		}
	}
	return finds
}

// replayConsoleSharedFields: the field list of an entry is shared by every core of a tee and stays the caller's: a
// console core in front leaves it as it was, so the cores behind it (and the next entry logged with the same list)
// see the same fields.
func replayConsoleSharedFields() (finds []Finding) {
	add := func(key, f string, a ...interface{}) {
		if len(finds) < 4 {
			finds = append(finds, Finding{Key: key, What: fmt.Sprintf(f, a...)})
		}
	}
	cfg := zapcore.EncoderConfig{MessageKey: "m", SkipLineEnding: true}
	con, js, con2 := &jeSink{}, &jeSink{}, &jeSink{}
	lg := zap.New(zapcore.NewTee(
		zapcore.NewCore(zapcore.NewConsoleEncoder(cfg), con, zapcore.DebugLevel),
		zapcore.NewCore(zapcore.NewJSONEncoder(cfg), js, zapcore.DebugLevel),
		zapcore.NewCore(zapcore.NewConsoleEncoder(cfg), con2, zapcore.DebugLevel)))
	mk := func() []zap.Field {
		return []zap.Field{zap.Skip(), zap.String("path", "/x"), zap.Error(nil), zap.Int("status", 200), zap.NamedError("cause", nil), zap.Bool("c", true)}
	}
	fields, pristine := mk(), mk()
	for round := 0; round < 2; round++ {
		con.writes, js.writes, con2.writes = nil, nil, nil
		lg.Info("req", fields...)
		if len(js.writes) != 1 || string(js.writes[0]) != `{"m":"req","path":"/x","status":200,"c":true}` {
			add("C16/context:core-vs-encoder", "tee of a console core and a JSON core, entry %d logged with the field list [Skip path Error(nil) status NamedError(nil) c]: the JSON core behind the console core wrote %q", round+1, js.writes)
		}
		for i, s := range []*jeSink{con, con2} {
			if len(s.writes) != 1 || string(s.writes[0]) != "req\t"+`{"path": "/x", "status": 200, "c": true}` {
				add("C16/shape", "tee with console cores, entry %d: console core %d wrote %q", round+1, i+1, s.writes)
			}
		}
		for i := range fields {
			if !fields[i].Equals(pristine[i]) {
				add("C16/context:caller-fields-modified", "after entry %d the caller's field list has %+v at position %d (was %+v)", round+1, fields[i], i, pristine[i])
				break
			}
		}
	}
	return finds
}
