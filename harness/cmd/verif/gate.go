package main

import (
	"bytes"
	"fmt"
	"runtime"
	"strconv"
	"sync"
	"time"
)

// Gate is the deterministic scheduler used for goroutine replay (DESIGN.md app. B).
// Instrumented code (verif hooks in zap, or harness-supplied sinks / clocks / marshalers)
// calls At(site) which parks the calling goroutine until the scheduler releases it.
// Goroutines are identified by their Go goroutine id and mapped to a process name of
// the TLA+ behaviour being replayed.
type Gate struct {
	mu      sync.Mutex
	cond    *sync.Cond
	procOf  map[uint64]string      // goroutine id -> process name
	parked  map[string]*parkedProc // process -> where it is parked
	done    map[string]int         // process -> number of completed calls
	free    bool                   // free-running: never park
	unknown func(site string) string
	events  []GateEvent
	seq     int64
	record  bool
}

type parkedProc struct {
	site    string
	a, b    int64
	release chan struct{}
}

type GateEvent struct {
	Seq  int64  `json:"seq"`
	Proc string `json:"proc"`
	Site string `json:"ev"`
	A    int64  `json:"a"`
	B    int64  `json:"b"`
}

func NewGate() *Gate {
	g := &Gate{procOf: map[uint64]string{}, parked: map[string]*parkedProc{}, done: map[string]int{}}
	g.cond = sync.NewCond(&g.mu)
	return g
}

func goid() uint64 {
	var buf [64]byte
	n := runtime.Stack(buf[:], false)
	// "goroutine 123 [running]:"
	b := buf[:n]
	b = bytes.TrimPrefix(b, []byte("goroutine "))
	i := bytes.IndexByte(b, ' ')
	id, _ := strconv.ParseUint(string(b[:i]), 10, 64)
	return id
}

// Go starts f as process `proc`; its completion is counted in done[proc].
func (g *Gate) Go(proc string, f func()) {
	started := make(chan struct{})
	go func() {
		id := goid()
		g.mu.Lock()
		g.procOf[id] = proc
		g.mu.Unlock()
		close(started)
		defer func() {
			g.mu.Lock()
			delete(g.procOf, id)
			g.done[proc]++
			g.cond.Broadcast()
			g.mu.Unlock()
		}()
		f()
	}()
	<-started
}

// At is called by instrumented code. Unregistered goroutines are named by g.unknown
// (e.g. the BufferedWriteSyncer flush loop) or pass through when that returns "".
func (g *Gate) At(site string, a, b int64) {
	id := goid()
	g.mu.Lock()
	proc, ok := g.procOf[id]
	if !ok && g.unknown != nil {
		proc = g.unknown(site)
		if proc != "" {
			g.procOf[id] = proc
			ok = true
		}
	}
	if g.record && ok {
		g.seq++
		g.events = append(g.events, GateEvent{Seq: g.seq, Proc: proc, Site: site, A: a, B: b})
	}
	if !ok || g.free {
		g.mu.Unlock()
		return
	}
	p := &parkedProc{site: site, a: a, b: b, release: make(chan struct{})}
	g.parked[proc] = p
	g.cond.Broadcast()
	g.mu.Unlock()
	<-p.release
}

// WaitParked waits until proc is parked at one of sites; returns the site ("" on timeout).
func (g *Gate) WaitParked(proc string, timeout time.Duration, sites ...string) (string, *parkedProc) {
	deadline := time.Now().Add(timeout)
	timer := time.AfterFunc(timeout, func() { g.mu.Lock(); g.cond.Broadcast(); g.mu.Unlock() })
	defer timer.Stop()
	g.mu.Lock()
	defer g.mu.Unlock()
	for {
		if p, ok := g.parked[proc]; ok {
			for _, s := range sites {
				if s == p.site {
					return s, p
				}
			}
			if len(sites) == 0 {
				return p.site, p
			}
			return "!" + p.site, p // parked somewhere else
		}
		if time.Now().After(deadline) {
			return "", nil
		}
		g.cond.Wait()
	}
}

// Release lets a parked process continue.
func (g *Gate) Release(proc string) bool {
	g.mu.Lock()
	p, ok := g.parked[proc]
	if ok {
		delete(g.parked, proc)
	}
	g.mu.Unlock()
	if ok {
		close(p.release)
	}
	return ok
}

// WaitDone waits until proc has completed n calls.
func (g *Gate) WaitDone(proc string, n int, timeout time.Duration) bool {
	deadline := time.Now().Add(timeout)
	timer := time.AfterFunc(timeout, func() { g.mu.Lock(); g.cond.Broadcast(); g.mu.Unlock() })
	defer timer.Stop()
	g.mu.Lock()
	defer g.mu.Unlock()
	for g.done[proc] < n {
		if time.Now().After(deadline) {
			return false
		}
		g.cond.Wait()
	}
	return true
}

// IsParked reports where proc is parked right now ("" if it is not).
func (g *Gate) IsParked(proc string) string {
	g.mu.Lock()
	defer g.mu.Unlock()
	if p, ok := g.parked[proc]; ok {
		return p.site
	}
	return ""
}

// Drain releases everything forever (used to let goroutines finish after a failed replay).
func (g *Gate) Drain() {
	g.mu.Lock()
	g.free = true
	ps := g.parked
	g.parked = map[string]*parkedProc{}
	g.mu.Unlock()
	for _, p := range ps {
		close(p.release)
	}
}

func (g *Gate) Events() []GateEvent {
	g.mu.Lock()
	defer g.mu.Unlock()
	return append([]GateEvent(nil), g.events...)
}

// stacks returns a dump of all goroutines (deadlock diagnostics).
func stacks() string {
	buf := make([]byte, 1<<20)
	n := runtime.Stack(buf, true)
	return string(buf[:n])
}

func fmtErr(format string, a ...interface{}) error { return fmt.Errorf(format, a...) }

// Log appends a harness-side event to the recorded trace (same total order as hook events).
func (g *Gate) Log(proc, site string, a, b int64) {
	g.mu.Lock()
	g.seq++
	g.events = append(g.events, GateEvent{Seq: g.seq, Proc: proc, Site: site, A: a, B: b})
	g.mu.Unlock()
}

// ProcHere names the calling goroutine ("" when it is not a registered process).
func (g *Gate) ProcHere() string {
	id := goid()
	g.mu.Lock()
	defer g.mu.Unlock()
	return g.procOf[id]
}
