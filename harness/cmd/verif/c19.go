package main

import (
	"bytes"
	"encoding/json"
	"errors"
	"fmt"
	"log"
	"net/url"
	"os"
	"path/filepath"
	"strings"
	"sync"
	"sync/atomic"

	"go.uber.org/zap"
	"go.uber.org/zap/zapcore"
)

// C19 — Open, Config.Build and std-log redirection are all-or-nothing; URLs validated.
// Specs: OpenBuild.tla, SinkURL.tla.

func init() { register("C19", checkC19) }

type obBeh struct {
	Call     string   `json:"call"`
	Outs     []string `json:"outs"`
	Errs     []string `json:"errs"`
	Fault    string   `json:"fault"`
	LvlValid bool     `json:"lvlValid"`
	Result   string   `json:"result"`
}

// countSink is what the registered test factory hands out.
type countSink struct {
	id        string
	mu        sync.Mutex
	writes    [][]byte
	syncs     int
	closes    int
	failWrite bool
	failClose bool
}

func (s *countSink) Write(p []byte) (int, error) {
	s.mu.Lock()
	defer s.mu.Unlock()
	s.writes = append(s.writes, append([]byte(nil), p...))
	if s.failWrite {
		return 0, errors.New("scripted write failure")
	}
	return len(p), nil
}
func (s *countSink) Sync() error  { s.mu.Lock(); s.syncs++; s.mu.Unlock(); return nil }
func (s *countSink) Close() error {
	s.mu.Lock()
	defer s.mu.Unlock()
	s.closes++
	if s.failClose {
		return errors.New("scripted close failure")
	}
	return nil
}

var (
	c19Scheme   string
	c19Mu       sync.Mutex
	c19Sinks    map[string]*countSink // by id, for the call in progress
	c19Opens    int32
	c19Registry sync.Once
)

func c19Factory(u *url.URL) (zap.Sink, error) {
	atomic.AddInt32(&c19Opens, 1)
	id := strings.TrimPrefix(u.Path, "/")
	if strings.Contains(u.RawQuery, "fate=fail") {
		return nil, fmt.Errorf("scripted open failure for %s", id)
	}
	s := &countSink{id: id, failWrite: strings.Contains(u.RawQuery, "failwrite=1"), failClose: strings.Contains(u.RawQuery, "failclose=1")}
	c19Mu.Lock()
	c19Sinks[id] = s
	c19Mu.Unlock()
	return s, nil
}

func checkC19(c *Ctx) {
	c.Assume("sink fates are scripted through a registered test scheme (a fresh scheme name per process, the registry has no unregister); file URL cases use real temporary files and directory listings")
	c.MustTLC(TLCOpts{Module: "OpenBuild", Cfg: "OpenBuild.check"})
	for _, k := range []string{"CloseOnFail", "CloseOutOnErrFail", "LevelCheckFirst", "ValidateBeforeClear"} {
		c.MustTLC(TLCOpts{Module: "OpenBuild", Cfg: "OpenBuild.check", Consts: map[string]string{k: "FALSE"}, ExpectViolation: true})
	}
	c19Scheme = fmt.Sprintf("vs%d", os.Getpid())
	if err := zap.RegisterSink(c19Scheme, c19Factory); err != nil {
		c.Fatalf("cannot register the test scheme: %v", err)
	}
	n := 0
	c.MustTLC(TLCOpts{Module: "OpenBuild", Cfg: "OpenBuild.check", Gen: true, Consts: map[string]string{"Emit": "TRUE"}, OnBeh: func(raw json.RawMessage) {
		if c.Saturated() {
			return
		}
		var b obBeh
		if err := json.Unmarshal(raw, &b); err != nil {
			c.Inconclusive("bad OpenBuild behaviour: %v", err)
			return
		}
		n++
		if n%211 == 1 {
			c.Sample(b)
		}
		for _, f := range replayOpenBuild(b, n) {
			c.Violation(f.Key, f.What, map[string]interface{}{"beh": b})
		}
		c.Add("traces_validated_against_impl", 1)
	}})
	c.Set("open_build_cases", int64(n))
	nu := 0
	dir, err := os.MkdirTemp(filepath.Join(Root, "out"), "c19-")
	if err != nil {
		c.Fatalf("tmp dir: %v", err)
	}
	defer os.RemoveAll(dir)
	c.MustTLC(TLCOpts{Module: "SinkURL", Cfg: "SinkURL.gen", OnBeh: func(raw json.RawMessage) {
		var b sinkURLBeh
		if err := json.Unmarshal(raw, &b); err != nil {
			c.Inconclusive("bad SinkURL behaviour: %v", err)
			return
		}
		nu++
		if nu%61 == 1 {
			c.Sample(b)
		}
		for _, f := range replaySinkURL(b, dir, nu) {
			c.Violation(f.Key, f.What, map[string]interface{}{"beh": b})
		}
		c.Add("traces_validated_against_impl", 1)
	}})
	c.Set("url_and_registry_cases", int64(nu))
	for _, f := range realFileLeak(dir) {
		c.Violation(f.Key, f.What, nil)
	}
	for _, f := range realFileShared(dir) {
		c.Violation(f.Key, f.What, map[string]interface{}{"mode": "same-file-twice"})
	}
	c.MustTLC(TLCOpts{Module: "Registry", Cfg: "Registry.check"})
	c.MustTLC(TLCOpts{Module: "Registry", Cfg: "Registry.check", Consts: map[string]string{"Atomicity": `"two"`}, ExpectViolation: true})
	for _, f := range registryRaces(c.Pick(400, 5000)) {
		c.Violation(f.Key, f.What, map[string]interface{}{"mode": "racing-registrations"})
	}
	for _, f := range redirectAllLevels() {
		c.Violation(f.Key, f.What, nil)
	}
	c.Set("exhaustive", true)
}

func replayOpenBuild(b obBeh, n int) (finds []Finding) {
	add := func(key, f string, a ...interface{}) { finds = append(finds, Finding{Key: key, What: fmt.Sprintf(f, a...)}) }
	c19Mu.Lock()
	c19Sinks = map[string]*countSink{}
	c19Mu.Unlock()
	mkPaths := func(kind string, fates []string, failWriteFirst bool) []string {
		ps := []string{}
		for i, f := range fates {
			p := fmt.Sprintf("%s://h/%s%d-%d?fate=%s", c19Scheme, kind, n, i+1, f)
			if failWriteFirst && i == 0 && f == "ok" {
				p += "&failwrite=1"
			}
			if n%3 == 1 && f == "ok" {
				// closing this sink reports an error (a network sink that cannot say goodbye): every other sink
				// opened by the call is released all the same
				p += "&failclose=1"
			}
			// scheme case must not matter
			if (n+i)%3 == 0 {
				p = strings.ToUpper(c19Scheme) + p[len(c19Scheme):]
			}
			ps = append(ps, p)
		}
		return ps
	}
	desc := fmt.Sprintf("%s outs=%v errs=%v fault=%s levelValid=%v", b.Call, b.Outs, b.Errs, b.Fault, b.LvlValid)
	checkAllClosed := func(what string) {
		c19Mu.Lock()
		defer c19Mu.Unlock()
		for id, s := range c19Sinks {
			if s.closes == 0 {
				add("C19/"+what+":error-but-sink-open", "%s returned an error but sink %s, opened by the call, was never closed", desc, id)
			}
		}
	}
	switch b.Call {
	case "open":
		ws, closeAll, err := zap.Open(mkPaths("out", b.Outs, false)...)
		if b.Result == "error" {
			if err == nil {
				add("C19/open:no-error", "%s: Open succeeded although a sink failed to open", desc)
				return
			}
			checkAllClosed("open")
			return
		}
		if err != nil {
			add("C19/open:unexpected-error", "%s: %v", desc, err)
			return
		}
		msg := []byte("payload\n")
		ws.Write(msg)
		ws.Sync()
		c19Mu.Lock()
		if len(c19Sinks) != len(b.Outs) {
			add("C19/open:destination-missing", "%s: %d sinks opened for %d paths", desc, len(c19Sinks), len(b.Outs))
		}
		for id, s := range c19Sinks {
			if len(s.writes) != 1 || !bytes.Equal(s.writes[0], msg) || s.syncs != 1 {
				add("C19/open:destination-missed-write", "%s: sink %s got writes %q syncs %d", desc, id, s.writes, s.syncs)
			}
			if s.closes != 0 {
				add("C19/open:closed-on-success", "%s: sink %s closed although Open succeeded", desc, id)
			}
		}
		c19Mu.Unlock()
		closeAll()
		c19Mu.Lock()
		for id, s := range c19Sinks {
			if s.closes != 1 {
				add("C19/open:close-func", "%s: after the returned close function sink %s was closed %d times", desc, id, s.closes)
			}
		}
		c19Mu.Unlock()
	case "build":
		cfg := zap.NewProductionConfig()
		cfg.Sampling = nil
		cfg.OutputPaths = mkPaths("out", b.Outs, len(b.Errs) > 0)
		cfg.ErrorOutputPaths = mkPaths("err", b.Errs, false)
		switch b.Fault {
		case "unknown-encoding":
			cfg.Encoding = "no-such-encoding"
		case "empty-encoding":
			cfg.Encoding = ""
		case "missing-time-encoder":
			cfg.EncoderConfig.EncodeTime = nil
		case "missing-level":
			cfg.Level = zap.AtomicLevel{}
		}
		logger, err := cfg.Build()
		if b.Result == "error" {
			if err == nil {
				add("C19/build:no-error", "%s: Build succeeded", desc)
				return
			}
			checkAllClosed("build")
			return
		}
		if err != nil {
			add("C19/build:unexpected-error", "%s: %v", desc, err)
			return
		}
		logger.Info("hello")
		logger.Sync()
		c19Mu.Lock()
		defer c19Mu.Unlock()
		if len(c19Sinks) != len(b.Outs)+len(b.Errs) {
			add("C19/build:destination-missing", "%s: %d sinks opened for %d paths", desc, len(c19Sinks), len(b.Outs)+len(b.Errs))
		}
		for id, s := range c19Sinks {
			if strings.HasPrefix(id, "out") {
				if len(s.writes) != 1 || !bytes.Contains(s.writes[0], []byte(`"hello"`)) {
					add("C19/build:destination-missed-write", "%s: output %s received %q", desc, id, s.writes)
				}
			} else if len(b.Outs) > 0 && b.Outs[0] == "ok" {
				// the first output's write fails (scripted), so every error output must be told
				if len(s.writes) == 0 {
					add("C19/build:error-destination-missed-write", "%s: error output %s received nothing although a core write failed", desc, id)
				}
			}
			if s.closes != 0 {
				add("C19/build:closed-on-success", "%s: sink %s was closed although Build succeeded", desc, id)
			}
		}
	case "redirect":
		// done for all 256 levels in redirectAllLevels; here one representative of the class
	}
	return finds
}

type sinkURLBeh struct {
	Kind string `json:"kind"`
	URL  struct {
		Scheme, User, Host, Port, Query, Frag, Path string
	} `json:"url"`
	Name    string `json:"name"`
	Verdict string `json:"verdict"`
}

// replaySinkURLPath: unusual but legal paths must be opened exactly as the operating system resolves them.
func replaySinkURLPath(b sinkURLBeh, sub string) (finds []Finding) {
	add := func(key, f string, a ...interface{}) { finds = append(finds, Finding{Key: key, What: fmt.Sprintf(f, a...)}) }
	if b.Verdict != "open-path" || b.URL.Host == "localhost" && b.URL.Scheme == "none" {
		return nil // rejection of these URLs is covered by the plain-path cases
	}
	wd, _ := os.Getwd()
	defer os.Chdir(wd)
	if err := os.Chdir(sub); err != nil {
		return nil
	}
	var raw, wantFile, wrongFile string
	switch b.URL.Path {
	case "dotdot-after-symlink":
		os.MkdirAll(filepath.Join(sub, "real", "deep"), 0o755)
		if err := os.Symlink(filepath.Join(sub, "real", "deep"), filepath.Join(sub, "link")); err != nil {
			return nil
		}
		p := sub + "/link/../app.log" // the kernel resolves link/.. to real/, so the file is real/app.log
		wantFile, wrongFile = filepath.Join(sub, "real", "app.log"), filepath.Join(sub, "app.log")
		raw = p
		if b.URL.Scheme != "none" {
			raw = b.URL.Scheme + "://" + map[string]string{"empty": "", "localhost": "localhost"}[b.URL.Host] + p
		}
	case "dot-slash-stdout":
		wantFile = filepath.Join(sub, "stdout")
		raw = "./stdout"
		if b.URL.Scheme != "none" {
			raw = b.URL.Scheme + "://" + map[string]string{"empty": "", "localhost": "localhost"}[b.URL.Host] + sub + "/./stdout"
		}
	case "escaped-letter", "escaped-slash", "escaped-lowerhex", "escaped-space":
		if b.URL.Scheme == "none" {
			return nil // escapes only mean something inside a URL
		}
		os.MkdirAll(filepath.Join(sub, "svc"), 0o755)
		enc, dec := map[string][2]string{
			"escaped-letter":   {"%61pp.log", "app.log"},
			"escaped-slash":    {"svc%2Fout.log", "svc/out.log"},
			"escaped-lowerhex": {"caf%c3%a9.log", "café.log"},
			"escaped-space":    {"my%20app.log", "my app.log"},
		}[b.URL.Path][0], map[string][2]string{
			"escaped-letter":   {"%61pp.log", "app.log"},
			"escaped-slash":    {"svc%2Fout.log", "svc/out.log"},
			"escaped-lowerhex": {"caf%c3%a9.log", "café.log"},
			"escaped-space":    {"my%20app.log", "my app.log"},
		}[b.URL.Path][1]
		wantFile, wrongFile = filepath.Join(sub, dec), filepath.Join(sub, enc)
		raw = b.URL.Scheme + "://" + map[string]string{"empty": "", "localhost": "localhost"}[b.URL.Host] + sub + "/" + enc
	default:
		return nil
	}
	ws, closeAll, err := zap.Open(raw)
	if err != nil {
		add("C19/url:valid-rejected", "Open(%q) failed: %v", raw, err)
		return
	}
	ws.Write([]byte("x"))
	closeAll()
	if _, err := os.Stat(wantFile); err != nil {
		add("C19/url:wrong-path-opened", "Open(%q) did not create %s (exactly the given path, as the operating system resolves it, must be opened)", raw, wantFile)
	}
	if wrongFile != "" {
		if _, err := os.Stat(wrongFile); err == nil {
			add("C19/url:wrong-path-opened", "Open(%q) created %s, which is not what the path names", raw, wrongFile)
		}
	}
	return finds
}

func replaySinkURL(b sinkURLBeh, dir string, n int) (finds []Finding) {
	add := func(key, f string, a ...interface{}) { finds = append(finds, Finding{Key: key, What: fmt.Sprintf(f, a...)}) }
	switch b.Kind {
	case "url":
		sub := filepath.Join(dir, fmt.Sprintf("u%d", n))
		os.MkdirAll(sub, 0o755)
		defer os.RemoveAll(sub)
		file := filepath.Join(sub, "target file%41.log") // a space and a literal %41 in the name: exactly the path must be opened
		if b.URL.Path != "" && b.URL.Path != "plain" {
			return replaySinkURLPath(b, sub)
		}
		u := url.URL{Path: file}
		switch b.URL.Scheme {
		case "none":
		default:
			u.Scheme = b.URL.Scheme
		}
		host := map[string]string{"empty": "", "localhost": "localhost", "other": "example.com"}[b.URL.Host]
		if b.URL.Port == "port" {
			if host == "" {
				host = ":8080"
			} else {
				host += ":8080"
			}
		}
		u.Host = host
		switch b.URL.User {
		case "user":
			u.User = url.User("bob")
		case "user-pw":
			u.User = url.UserPassword("bob", "secret")
		case "pw-only":
			u.User = url.UserPassword("", "secret")
		case "empty-at":
			u.User = url.User("")
		}
		if b.URL.Query == "query" {
			u.RawQuery = "mode=append"
		}
		if b.URL.Frag == "frag" {
			u.Fragment = "section"
		}
		raw := u.String()
		if b.URL.Scheme == "none" {
			// without a scheme only a relative reference is a URL (an absolute path is opened as a path,
			// whatever it contains); authority components cannot be written without "//", which makes it absolute
			if u.Host != "" || u.User != nil {
				return nil
			}
			rel := url.URL{Path: filepath.Base(file), RawQuery: u.RawQuery, Fragment: u.Fragment}
			raw = rel.String()
			wd, _ := os.Getwd()
			if err := os.Chdir(sub); err != nil {
				return nil
			}
			defer os.Chdir(wd)
		}
		before := listDir(sub)
		ws, closeAll, err := zap.Open(raw)
		after := listDir(sub)
		created := diffList(before, after)
		if closeAll != nil {
			defer closeAll()
		}
		if b.Verdict == "open-path" {
			if err != nil {
				add("C19/url:valid-rejected", "Open(%q) failed: %v", raw, err)
				return
			}
			ws.Write([]byte("x"))
			if len(created) != 1 || created[0] != filepath.Base(file) {
				add("C19/url:wrong-path-opened", "Open(%q) created %v; exactly the URL's path %q must be opened", raw, created, filepath.Base(file))
			}
		} else {
			if err == nil {
				add("C19/url:invalid-opened", "Open(%q) succeeded (created %v); file URLs with user info, port, query, fragment or a foreign host must be rejected", raw, created)
			} else if len(created) != 0 {
				add("C19/url:invalid-opened", "Open(%q) returned an error but created %v", raw, created)
			}
		}
	case "scheme":
		base := fmt.Sprintf("rs%dx%d", os.Getpid(), n)
		var name string
		taken := func(nm string) {
			if err := zap.RegisterSink(nm, c19Factory); err != nil {
				add("HARNESS/register", "pre-registration of %q failed: %v", nm, err)
			}
		}
		other := func(*url.URL) (zap.Sink, error) { return nil, errors.New("the SECOND factory was installed") }
		probe := ""
		switch b.Name {
		case "empty":
			name = ""
		case "digit-first":
			name = "9" + base
		case "bad-char":
			name = base + "_x"
		case "non-ascii":
			name = base + "é"
		case "fresh":
			name = base
		case "fresh-upper":
			name = strings.ToUpper(base)
		case "fresh-plus-dot-dash":
			name = base + "+a.b-c"
		case "taken-same-case":
			taken(base)
			name, probe = base, base
		case "taken-other-case":
			taken(base)
			name, probe = strings.ToUpper(base), base
		case "taken-file":
			name = "file"
		case "taken-FILE":
			name = "FILE"
		}
		err := zap.RegisterSink(name, other)
		if b.Verdict == "register" {
			if err != nil {
				add("C19/registry:valid-name-rejected", "RegisterSink(%q) failed: %v", name, err)
				return
			}
			// lookup is case-insensitive
			for _, s := range []string{strings.ToLower(name), strings.ToUpper(name)} {
				_, _, oerr := zap.Open(s + "://h/x")
				if oerr == nil || !strings.Contains(oerr.Error(), "SECOND factory") {
					add("C19/registry:scheme-lookup-case", "after RegisterSink(%q), Open(%q) did not reach the registered factory: %v", name, s+"://h/x", oerr)
				}
			}
			return
		}
		if err == nil {
			add("C19/registry:bad-name-accepted", "RegisterSink(%q) (class %s) succeeded", name, b.Name)
		}
		if probe != "" {
			// the original factory must still be the one in place
			c19Mu.Lock()
			c19Sinks = map[string]*countSink{}
			c19Mu.Unlock()
			_, cl, oerr := zap.Open(probe + "://h/probe?fate=ok")
			if oerr != nil {
				add("C19/registry:failed-registration-changed-registry", "after the failed RegisterSink(%q), Open through the originally registered scheme fails: %v", name, oerr)
			} else {
				cl()
			}
		}
		if b.Name == "taken-file" || b.Name == "taken-FILE" {
			f, cl, oerr := zap.Open("stderr")
			if oerr != nil || f == nil {
				add("C19/registry:failed-registration-changed-registry", "after the failed RegisterSink(%q), the file scheme is broken: %v", name, oerr)
			} else {
				cl()
			}
		}
	case "encoder":
		base := fmt.Sprintf("enc%dx%d", os.Getpid(), n)
		marker := func(cfg zapcore.EncoderConfig) (zapcore.Encoder, error) {
			return nil, errors.New("the SECOND constructor was installed")
		}
		var name string
		switch b.Name {
		case "empty":
			name = ""
		case "fresh":
			name = base
		case "taken-json":
			name = "json"
		case "taken-console":
			name = "console"
		case "taken-custom":
			name = base
			if err := zap.RegisterEncoder(name, func(cfg zapcore.EncoderConfig) (zapcore.Encoder, error) { return zapcore.NewJSONEncoder(cfg), nil }); err != nil {
				add("HARNESS/register", "pre-registration of encoder %q failed: %v", name, err)
			}
		}
		err := zap.RegisterEncoder(name, marker)
		build := func(enc string) error {
			cfg := zap.NewProductionConfig()
			cfg.Encoding = enc
			cfg.OutputPaths, cfg.ErrorOutputPaths = nil, nil
			_, e := cfg.Build()
			return e
		}
		if b.Verdict == "register" {
			if err != nil {
				add("C19/registry:valid-name-rejected", "RegisterEncoder(%q) failed: %v", name, err)
			} else if e := build(name); e == nil || !strings.Contains(e.Error(), "SECOND constructor") {
				add("C19/registry:encoder-not-registered", "after RegisterEncoder(%q), Build does not reach it: %v", name, e)
			}
			return
		}
		if err == nil {
			add("C19/registry:bad-name-accepted", "RegisterEncoder(%q) (class %s) succeeded", name, b.Name)
		}
		if name != "" {
			if e := build(name); e != nil {
				add("C19/registry:failed-registration-changed-registry", "after the failed RegisterEncoder(%q), building with that encoding fails: %v", name, e)
			}
		}
	}
	return finds
}

func listDir(d string) []string {
	es, _ := os.ReadDir(d)
	out := []string{}
	for _, e := range es {
		out = append(out, e.Name())
	}
	return out
}

func diffList(before, after []string) []string {
	m := map[string]bool{}
	for _, b := range before {
		m[b] = true
	}
	out := []string{}
	for _, a := range after {
		if !m[a] {
			out = append(out, a)
		}
	}
	return out
}

func countFDs() int {
	es, _ := os.ReadDir("/proc/self/fd")
	return len(es)
}

// realFileLeak: real files, one unopenable path at every position; no descriptor may stay open.
func realFileLeak(dir string) (finds []Finding) {
	add := func(key, f string, a ...interface{}) { finds = append(finds, Finding{Key: key, What: fmt.Sprintf(f, a...)}) }
	good := func(i int) string { return filepath.Join(dir, fmt.Sprintf("real%d.log", i)) }
	bad := filepath.Join(dir, "no-such-dir", "x.log")
	for n := 1; n <= 3; n++ {
		for pos := 0; pos < n; pos++ {
			paths := []string{}
			for i := 0; i < n; i++ {
				if i == pos {
					paths = append(paths, bad)
				} else if i%2 == 0 {
					paths = append(paths, good(i))
				} else {
					paths = append(paths, "file://localhost"+good(i))
				}
			}
			before := countFDs()
			_, _, err := zap.Open(paths...)
			after := countFDs()
			if err == nil {
				add("C19/open:no-error", "Open(%v) succeeded", paths)
			} else if after != before {
				add("C19/open:error-but-sink-open", "Open(%v) returned an error and left %d file descriptor(s) open", paths, after-before)
			}
			// Build with the bad path among outputs / error outputs
			cfg := zap.NewProductionConfig()
			cfg.OutputPaths = paths
			cfg.ErrorOutputPaths = []string{good(7)}
			before = countFDs()
			_, err = cfg.Build()
			if after = countFDs(); err != nil && after != before {
				add("C19/build:error-but-sink-open", "Build with OutputPaths %v returned an error and left %d descriptor(s) open", paths, after-before)
			}
			cfg.OutputPaths = []string{good(8), good(9)}
			cfg.ErrorOutputPaths = paths
			before = countFDs()
			_, err = cfg.Build()
			if after = countFDs(); err != nil && after != before {
				add("C19/build:error-but-sink-open", "Build with ErrorOutputPaths %v returned an error and left %d descriptor(s) open", paths, after-before)
			}
			cfg.ErrorOutputPaths = []string{good(7)}
			cfg.Level = zap.AtomicLevel{}
			before = countFDs()
			_, err = cfg.Build()
			if after = countFDs(); err == nil || after != before {
				add("C19/build:error-but-sink-open", "Build with a missing Level: err=%v, %d descriptor(s) left open", err, after-before)
			}
		}
	}
	return finds
}

// redirectAllLevels: every int8 level under several prior std-logger settings.
func redirectAllLevels() (finds []Finding) {
	add := func(key, f string, a ...interface{}) { finds = append(finds, Finding{Key: key, What: fmt.Sprintf(f, a...)}) }
	origFlags, origPrefix, origOut := log.Flags(), log.Prefix(), log.Writer()
	defer func() { log.SetFlags(origFlags); log.SetPrefix(origPrefix); log.SetOutput(origOut) }()
	priors := []struct {
		flags  int
		prefix string
	}{{log.LstdFlags, ""}, {0, "pfx: "}, {log.Lshortfile | log.Lmicroseconds | log.LUTC, "[app] "}, {log.Lmsgprefix, "é\n"}}
	supported := map[zapcore.Level]bool{zapcore.DebugLevel: true, zapcore.InfoLevel: true, zapcore.WarnLevel: true, zapcore.ErrorLevel: true, zapcore.DPanicLevel: true, zapcore.PanicLevel: true, zapcore.FatalLevel: true}
	for v := -128; v <= 127; v++ {
		lvl := zapcore.Level(v)
		pr := priors[(v+128)%len(priors)]
		var userOut bytes.Buffer
		log.SetFlags(pr.flags)
		log.SetPrefix(pr.prefix)
		log.SetOutput(&userOut)
		var sink bytes.Buffer
		logger := zap.New(zapcore.NewCore(zapcore.NewJSONEncoder(zap.NewProductionEncoderConfig()), zapcore.AddSync(&sink), zap.DebugLevel),
			zap.WithFatalHook(zapcore.WriteThenPanic))
		restore, err := zap.RedirectStdLogAt(logger, lvl)
		if !supported[lvl] {
			if err == nil {
				add("C19/redirect:invalid-level-accepted", "RedirectStdLogAt(level %d) succeeded", v)
				restore()
				continue
			}
			if log.Flags() != pr.flags || log.Prefix() != pr.prefix || log.Writer() != &userOut {
				add("C19/redirect:error-but-stdlog-changed", "RedirectStdLogAt(level %d) returned %v but changed the standard logger: flags %d->%d prefix %q->%q output changed=%v", v, err, pr.flags, log.Flags(), pr.prefix, log.Prefix(), log.Writer() != &userOut)
			}
			if _, e2 := zap.NewStdLogAt(logger, lvl); e2 == nil {
				add("C19/redirect:invalid-level-accepted", "NewStdLogAt(level %d) succeeded", v)
			}
			continue
		}
		if err != nil {
			add("C19/redirect:valid-level-rejected", "RedirectStdLogAt(%v): %v", lvl, err)
			continue
		}
		func() {
			defer func() { recover() }() // panic / fatal(as panic) levels
			log.Print("redirected message")
		}()
		if !strings.Contains(sink.String(), `"redirected message"`) || !strings.Contains(sink.String(), `"level":"`+lvl.String()+`"`) {
			add("C19/redirect:destination-missed-write", "after RedirectStdLogAt(%v), log.Print produced %q on the zap sink", lvl, sink.String())
		}
		if userOut.Len() != 0 {
			add("C19/redirect:destination-missed-write", "after RedirectStdLogAt(%v), log.Print still wrote %q to the old output", lvl, userOut.String())
		}
		restore()
		if log.Flags() != pr.flags || log.Prefix() != pr.prefix {
			add("C19/redirect:restore", "restore() after RedirectStdLogAt(%v) left flags %d (want %d) prefix %q (want %q)", lvl, log.Flags(), pr.flags, log.Prefix(), pr.prefix)
		}
		if log.Writer() != os.Stderr {
			add("C19/redirect:restore", "restore() must reset the output to os.Stderr (documented)")
		}
	}
	return finds
}

// ---- racing registrations (Registry.tla) ----

type c19Enc struct {
	zapcore.Encoder
	owner int
}

func (e c19Enc) Clone() zapcore.Encoder { return c19Enc{e.Encoder.Clone(), e.owner} }

// registryRaces: G goroutines released together register the same fresh name; exactly one may succeed, and the
// registry must hold the winner's constructor / factory afterwards.
func registryRaces(rounds int) (finds []Finding) {
	add := func(key, f string, a ...interface{}) {
		if len(finds) < 4 {
			finds = append(finds, Finding{Key: key, What: fmt.Sprintf(f, a...)})
		}
	}
	const G = 8
	for r := 0; r < rounds && len(finds) == 0; r++ {
		name := fmt.Sprintf("race-enc-%d-%d", os.Getpid(), r)
		scheme := fmt.Sprintf("racing%dx%d", os.Getpid(), r)
		var start, ready sync.WaitGroup
		start.Add(1)
		encOK, sinkOK := make([]bool, G), make([]bool, G)
		var spin int32
		var done sync.WaitGroup
		var sinkErr atomic.Value
		for g := 0; g < G; g++ {
			ready.Add(1)
			done.Add(1)
			go func(g int) {
				defer done.Done()
				ready.Done()
				start.Wait()
				atomic.AddInt32(&spin, 1)
				for atomic.LoadInt32(&spin) < G {
				}
				encOK[g] = zap.RegisterEncoder(name, func(cfg zapcore.EncoderConfig) (zapcore.Encoder, error) {
					return c19Enc{zapcore.NewJSONEncoder(cfg), g}, nil
				}) == nil
				serr := zap.RegisterSink(scheme, func(u *url.URL) (zap.Sink, error) {
					return &countSink{id: fmt.Sprint(g)}, nil
				})
				sinkOK[g] = serr == nil
				if serr != nil {
					sinkErr.Store(fmt.Sprintf("g%d: %v", g, serr))
				}
			}(g)
		}
		ready.Wait()
		start.Done()
		done.Wait()
		for kind, oks := range map[string][]bool{"encoder name": encOK, "sink scheme": sinkOK} {
			winners := []int{}
			for g, ok := range oks {
				if ok {
					winners = append(winners, g)
				}
			}
			if len(winners) == 0 {
				add("HARNESS/C19-registration-refused", "round %d: nobody could register %s %q / %q: %v", r, kind, name, scheme, sinkErr.Load())
				continue
			}
			if len(winners) != 1 {
				add("C19/registry:duplicate-accepted", "round %d: %d goroutines registered the same new %s at the same time and %d of them were told it succeeded (winners %v): a registration that should have failed changed the registry", r, G, kind, len(winners), winners)
				continue
			}
			if kind == "sink scheme" {
				ws, _, err := zap.Open(scheme + "://x")
				if err != nil {
					add("C19/registry:winner-not-registered", "round %d: Open(%s://x) after a successful registration: %v", r, scheme, err)
					continue
				}
				_ = ws
			}
		}
	}
	return finds
}

// realFileShared: the same file configured as a destination more than once (twice in one Open, as output and
// error output, by two loggers): every configured destination receives every write, and existing content stays.
func realFileShared(dir string) (finds []Finding) {
	add := func(key, f string, a ...interface{}) { finds = append(finds, Finding{Key: key, What: fmt.Sprintf(f, a...)}) }
	p := filepath.Join(dir, "shared.log")
	os.WriteFile(p, []byte("existing line\n"), 0o644)
	ws, closeAll, err := zap.Open(p, "file://localhost"+p)
	if err != nil {
		add("C19/open:error", "Open(%q twice): %v", p, err)
		return
	}
	ws.Write([]byte("hello\n"))
	ws.Sync()
	closeAll()
	got, _ := os.ReadFile(p)
	if string(got) != "existing line\nhello\nhello\n" {
		add("C19/destination-missed-write", "a file with existing content opened twice by one Open (plain path and file URL), one write of %q: the file holds %q, want the existing line followed by two copies", "hello\n", got)
	}
	// two independent handles, writes interleaved
	os.WriteFile(p, []byte("existing line\n"), 0o644)
	a, ca, err1 := zap.Open(p)
	b, cb, err2 := zap.Open(p)
	if err1 != nil || err2 != nil {
		add("C19/open:error", "Open(%q) twice: %v %v", p, err1, err2)
		return
	}
	want := "existing line\n"
	for i := 0; i < 4; i++ {
		la, lb := fmt.Sprintf("A%d says something\n", i), fmt.Sprintf("B%d\n", i)
		a.Write([]byte(la))
		b.Write([]byte(lb))
		want += la + lb
	}
	ca()
	cb()
	got, _ = os.ReadFile(p)
	if string(got) != want {
		add("C19/destination-missed-write", "two Open calls on the same file, writes interleaved: the file holds %q, want %q (every destination receives every write)", got, want)
	}
	return finds
}
