//go:build verif

package main

import (
	"sync/atomic"
	"bytes"
	"encoding/json"
	"fmt"
	"strings"
	"sync"
	"time"

	"go.uber.org/zap"
	"go.uber.org/zap/zapcore"
)

// BufferedWriteSyncer over a sink that fails: behaviours of BWSFault.tla replayed on the real object
// (C12: the sink keeps a prefix of the accepted stream, a clean Sync/Stop acknowledges everything) and
// through a zap.Logger (C10: a loss is never silent).

type bfOp struct {
	Op      string   `json:"op"`
	N       int      `json:"n"`
	Plan    []string `json:"plan"`
	Ok      bool     `json:"ok"`
	Taken   int      `json:"taken"`
	SinkLen int      `json:"sinklen"`
}

type bfBeh struct {
	H []bfOp `json:"h"`
}

// bfSink is the scripted wrapped sink. unit = real bytes per abstract byte.
type bfSink struct {
	mu    sync.Mutex
	unit  int
	plan  []string
	calls int // Write and Sync calls received
	syncs int
	data  []byte // everything the sink took, in order
}

var errBfSink = fmt.Errorf("write /var/log/app.log: no space left on device")
var errBfSync = fmt.Errorf("sync /var/log/app.log: input/output error")

func (s *bfSink) setPlan(p []string) {
	s.mu.Lock()
	s.plan = append([]string(nil), p...)
	s.mu.Unlock()
}

func (s *bfSink) Write(p []byte) (int, error) {
	s.mu.Lock()
	defer s.mu.Unlock()
	s.calls++
	f := "ok"
	if len(s.plan) > 0 && s.plan[0] != "syncerr" {
		f = s.plan[0]
		s.plan = s.plan[1:]
	}
	abs := len(p) / s.unit
	take := len(p)
	var err error
	switch f {
	case "err0":
		take, err = 0, errBfSink
	case "errpart":
		take, err = (abs/2)*s.unit, errBfSink
	case "short":
		if abs > 1 {
			take = (abs / 2) * s.unit
		}
	}
	s.data = append(s.data, p[:take]...)
	return take, err
}

func (s *bfSink) Sync() error {
	s.mu.Lock()
	defer s.mu.Unlock()
	s.calls++
	s.syncs++
	if len(s.plan) > 0 && s.plan[0] == "syncerr" {
		s.plan = s.plan[1:]
		return errBfSync
	}
	return nil
}

func (s *bfSink) snap() (data []byte, calls, syncs int) {
	s.mu.Lock()
	defer s.mu.Unlock()
	return append([]byte(nil), s.data...), s.calls, s.syncs
}

type bfErrOut struct {
	mu sync.Mutex
	b  bytes.Buffer
}

func (e *bfErrOut) Write(p []byte) (int, error) { e.mu.Lock(); defer e.mu.Unlock(); return e.b.Write(p) }
func (e *bfErrOut) Sync() error                 { return nil }
func (e *bfErrOut) Len() int                    { e.mu.Lock(); defer e.mu.Unlock(); return e.b.Len() }
func (e *bfErrOut) String() string              { e.mu.Lock(); defer e.mu.Unlock(); return e.b.String() }

const bfLogUnit = 16

// bfLine: the message of write i with abstract length n such that the JSON line {"m":"..."}\n is n*16 bytes.
func bfMsg(i, n int) string {
	l := n*bfLogUnit - 9
	return strings.Repeat(fmt.Sprintf("<%03d>", i), l/5+1)[:l]
}

func bfDescribe(b bfBeh) []string {
	out := []string{}
	for _, o := range b.H {
		s := o.Op
		if o.Op == "W" {
			s += fmt.Sprint(o.N)
		}
		if len(o.Plan) > 0 {
			s += fmt.Sprintf("%v", o.Plan)
		}
		out = append(out, s)
	}
	return out
}

// bwsFaultReplay replays one behaviour. viaLogger=false: direct calls, byte-level oracles (C12).
// viaLogger=true: entries through a zap.Logger whose core writes to the BufferedWriteSyncer (C10).
var bfWraps = []string{"the failing sink alone", "CombineWriteSyncers(failing sink, healthy sink)", "CombineWriteSyncers(healthy sink, failing sink)", "Lock(failing sink)"}

var bfHangs int32 // calls that never returned so far: after a few the remaining histories are not replayed

func bwsFaultReplay(b bfBeh, size int, viaLogger bool, prop string, wrap int) (finds []Finding, drift string) {
	if atomic.LoadInt32(&bfHangs) >= 3 {
		return nil, ""
	}
	add := func(key, f string, a ...interface{}) {
		finds = append(finds, Finding{Key: prop + "/" + key, What: fmt.Sprintf(f, a...) + fmt.Sprintf("; history=%v over %s", bfDescribe(b), bfWraps[wrap])})
	}
	unit := bwsUnit
	if viaLogger {
		unit = bfLogUnit
	}
	sink := &bfSink{unit: unit}
	clk := newHarnessClock()
	var ws zapcore.WriteSyncer = sink
	switch wrap {
	case 1:
		ws = zap.CombineWriteSyncers(sink, &bfSink{unit: unit})
	case 2:
		ws = zap.CombineWriteSyncers(&bfSink{unit: unit}, sink)
	case 3:
		ws = zapcore.Lock(sink)
	}
	bws := &zapcore.BufferedWriteSyncer{WS: ws, Size: size * unit, FlushInterval: time.Hour, Clock: clk}
	errOut := &bfErrOut{}
	var lg *zap.Logger
	if viaLogger {
		enc := zapcore.NewJSONEncoder(zapcore.EncoderConfig{MessageKey: "m"})
		lg = zap.New(zapcore.NewCore(enc, bws, zapcore.DebugLevel), zap.ErrorOutput(errOut))
	}
	defer func() {
		if r := recover(); r != nil {
			add("panic", "panicked: %v", r)
		}
		sink.setPlan(nil)
		go func() { defer func() { recover() }(); bws.Stop() }()
	}()
	var accepted [][]byte // payloads (direct) or lines (logger) of accepted writes
	accIDs := map[int]bool{}
	reported := false
	nw := 0
	inited, stopped := false, false
	// what the sink holds of the accepted stream
	accInSink := func() []byte {
		data, _, _ := sink.snap()
		if viaLogger {
			return data
		}
		var out []byte
		for i := 0; i+bwsUnit <= len(data); i += bwsUnit {
			if accIDs[int(data[i+1])] {
				out = append(out, data[i:i+bwsUnit]...)
			}
		}
		return out
	}
	complete := func() bool {
		if viaLogger {
			data, _, _ := sink.snap()
			for _, l := range accepted {
				if !bytes.Contains(data, l) {
					return false
				}
			}
			return true
		}
		return bytes.Equal(accInSink(), concat(accepted))
	}
	check := func(i int, o bfOp, ok bool) {
		if !viaLogger {
			if got, want := accInSink(), concat(accepted); !bytes.HasPrefix(want, got) {
				add("sink-not-a-prefix", "after step %d (%s): the sink holds %s, which is not a prefix of the accepted stream %s: accepted bytes were dropped while later ones were delivered", i, o.Op, describeBytes(got), describeBytes(want))
			}
		}
		if (o.Op == "Y" || o.Op == "S") && ok && !complete() {
			if viaLogger {
				if errOut.Len() == 0 {
					add("silent-loss", "step %d: %s returned nil and nothing was ever reported on the error output, but entries logged before it are not in the sink", i, o.Op)
				}
			} else {
				add("sync-ack", "step %d: %s returned nil but writes accepted before it are not in the sink (sink holds %s of %s)", i, o.Op, describeBytes(accInSink()), describeBytes(concat(accepted)))
			}
		}
		if (o.Op == "Y" || o.Op == "S") && !complete() && !reported && !(viaLogger && errOut.Len() > 0) {
			add("loss-not-reported", "step %d: after %s accepted data is missing from the sink and no call has reported an error so far", i, o.Op)
		}
	}
	// every call gets a watchdog: a call that never returns after a sink fault is a finding, not a hung check
	guard := func(i int, what string, f func()) bool {
		done := make(chan struct{})
		go func() {
			defer close(done)
			defer func() {
				if r := recover(); r != nil {
					add("panic", "step %d: %s panicked: %v", i, what, r)
				}
			}()
			f()
		}()
		select {
		case <-done:
			return true
		case <-time.After(10 * time.Second):
			atomic.AddInt32(&bfHangs, 1)
			add("deadlock", "step %d: %s did not return within 10 s (after earlier sink faults)\n%s", i, what, zapStacks())
			return false
		}
	}
	for i, o := range b.H {
		sink.setPlan(o.Plan)
		_, calls0, syncs0 := sink.snap()
		_ = calls0
		ok := true
		hung := false
		switch o.Op {
		case "W":
			nw++
			if viaLogger {
				e0 := errOut.Len()
				hung = !guard(i, "the logging call", func() { lg.Info(bfMsg(nw, o.N)) })
				ok = errOut.Len() == e0
				if ok {
					accepted = append(accepted, []byte(`{"m":"`+bfMsg(nw, o.N)+"\"}\n"))
				}
			} else {
				p := bwsPayload(1, nw, o.N)
				var n int
				var err error
				hung = !guard(i, "Write", func() { n, err = bws.Write(p) })
				ok = err == nil
				if ok && n != len(p) {
					add("write-result", "step %d: Write(len %d) returned (%d, nil)", i, len(p), n)
				}
				if ok {
					accepted = append(accepted, p)
					accIDs[nw] = true
				} else {
					reported = true
				}
				if err == nil != o.Ok || (err != nil && n/unit != o.Taken) {
					drift = fmt.Sprintf("step %d W: real (%d, %v), model ok=%v taken=%d; history=%v", i, n, err, o.Ok, o.Taken, bfDescribe(b))
				}
			}
			inited = true
		case "Y":
			var err error
			hung = !guard(i, "Sync", func() {
				if viaLogger {
					err = lg.Sync()
				} else {
					err = bws.Sync()
				}
			})
			ok = err == nil
			if !ok {
				reported = true
			}
		case "T":
			if !inited || stopped {
				continue
			}
			select {
			case clk.ch <- time.Now():
			default:
			}
			done := false
			for dl := time.Now().Add(2 * time.Second); time.Now().Before(dl); time.Sleep(20 * time.Microsecond) {
				if _, _, s := sink.snap(); s > syncs0 {
					done = true
					break
				}
			}
			if !done {
				// not stopped, started, a tick delivered - and nobody syncs the sink: the flush loop is gone
				if prop != "C12" {
					return finds, fmt.Sprintf("step %d: tick not processed within 2 s; history=%v", i, bfDescribe(b))
				}
				add("tick-ack", "step %d: a flush tick was delivered to a running syncer and was not processed within 2 s (earlier ticks were)", i)
				return finds, ""
			}
			// the loop body still holds the lock until it returns; the next operation serialises behind it
		case "S":
			var err error
			hung = !guard(i, "Stop", func() { err = bws.Stop() })
			ok = err == nil
			if !ok {
				reported = true
			}
			stopped = true
		}
		if hung {
			return
		}
		if o.Op != "T" && ok != o.Ok && drift == "" {
			drift = fmt.Sprintf("step %d %s: real ok=%v, model ok=%v; history=%v", i, o.Op, ok, o.Ok, bfDescribe(b))
		}
		if o.Op == "T" {
			// make the flush loop's critical section finish before looking at the sink
			if !guard(i, "a Write after the tick", func() { bws.Write(nil) }) {
				return
			}
		}
		sink.setPlan(nil)
		check(i, o, ok)
		if len(finds) > 0 {
			return
		}
	}
	// the application's last resort: a final Sync on a healthy sink
	var err error
	if !guard(len(b.H), "the final Sync", func() {
		if viaLogger {
			err = lg.Sync()
		} else {
			err = bws.Sync()
		}
	}) {
		return
	}
	if err == nil && !complete() {
		if viaLogger && errOut.Len() == 0 && !reported {
			add("silent-loss", "a final Sync returned nil and nothing was ever reported (error output empty, no call failed), but logged entries are missing from the sink")
		} else if !viaLogger {
			add("sync-ack", "a final Sync returned nil but accepted writes are missing from the sink (sink holds %s of %s)", describeBytes(accInSink()), describeBytes(concat(accepted)))
		}
	}
	return
}

// runBwsFault: model checking of BWSFault.tla and replay of its behaviours. prop = "C12" (direct) or "C10" (logger).
func runBwsFault(c *Ctx, prop string) {
	c.MustTLC(TLCOpts{Module: "BWSFault", Cfg: "BWSFault.check", Consts: map[string]string{"MaxOps": fmt.Sprint(c.Pick(4, 6))}, Timeout: 30 * time.Minute})
	c.MustTLC(TLCOpts{Module: "BWSFault", Cfg: "BWSFault.check", Consts: map[string]string{"Recover": `"reset"`, "MaxOps": "4"}, ExpectViolation: true})
	n, ndrift := 0, 0
	cb := func(raw json.RawMessage) {
		if c.Saturated() {
			return
		}
		var b bfBeh
		if err := json.Unmarshal(raw, &b); err != nil {
			c.Inconclusive("bad BWSFault behaviour: %v", err)
			return
		}
		n++
		if n%1501 == 1 {
			c.Sample(map[string]interface{}{"mode": "bws-sink-faults", "history": bfDescribe(b)})
		}
		wrap := n % len(bfWraps)
		f, drift := bwsFaultReplay(b, 3, prop == "C10", prop, wrap)
		if drift != "" {
			ndrift++
			if ndrift <= 3 {
				c.Note("BWSFault replay: model and code disagree: %s", drift)
			}
		}
		for _, x := range f {
			if again, _ := bwsFaultReplay(b, 3, prop == "C10", prop, wrap); len(again) > 0 {
				c.Violation(x.Key, x.What, map[string]interface{}{"mode": "bws-sink-faults", "beh": b, "wrap": bfWraps[wrap]})
			} else {
				c.Inconclusive("%s sink-fault replay not reproducible: %s", prop, x.What)
			}
		}
		c.Add("traces_validated_against_impl", 1)
	}
	c.MustTLC(TLCOpts{Module: "BWSFault", Cfg: "BWSFault.check", Gen: true, Consts: map[string]string{"Emit": "TRUE", "MaxOps": fmt.Sprint(c.Pick(3, 4))}, OnBeh: cb, Timeout: 30 * time.Minute})
	c.MustTLC(TLCOpts{Module: "BWSFault", Cfg: "BWSFault.check", Gen: true, Workers: 1, Simulate: fmt.Sprintf("num=%d", c.Pick(1500, 20000)), Depth: 12, Seed: c.Seed,
		Consts: map[string]string{"Emit": "TRUE", "MaxOps": "7", "MaxFaults": "3", "WLens": "{1, 2, 3, 4, 7}"}, OnBeh: cb, Timeout: 30 * time.Minute})
	c.Set("bws_sink_fault_histories_replayed", int64(n))
	c.Set("bws_sink_fault_model_disagreements", int64(ndrift))
	if ndrift*20 > n {
		c.Inconclusive("BWSFault.tla and the code disagree on %d of %d histories: the model no longer describes the code", ndrift, n)
	}
}

// bwsSinkExclusion: the wrapped sink need not be safe for concurrent use (the documentation says no zapcore.Lock is
// needed under a BufferedWriteSyncer): while one goroutine's Sync is inside the sink, no other call enters it.
func bwsSinkExclusion(c *Ctx) {
	for _, first := range []string{"sync", "tick", "write"} {
		gs := &gateSink{arrived: make(chan string, 8), release: make(chan struct{})}
		clk := newHarnessClock()
		b := &zapcore.BufferedWriteSyncer{WS: gs, Size: 16, FlushInterval: time.Hour, Clock: clk}
		free := func() { // let whatever is parked in the sink go on
			for {
				select {
				case gs.release <- struct{}{}:
				case <-time.After(300 * time.Millisecond):
					return
				}
			}
		}
		// a small write that stays in the buffer (starts the flush loop)
		b.Write([]byte("aaaa"))
		switch first {
		case "sync":
			go b.Sync()
		case "tick":
			clk.ch <- time.Now()
		case "write":
			go b.Write([]byte("an oversized record that goes straight to the sink"))
		}
		var in1 string
		select {
		case in1 = <-gs.arrived:
		case <-time.After(2 * time.Second):
			c.Note("bwsSinkExclusion: the first call (%s) never reached the sink", first)
			go free()
			b.Stop()
			continue
		}
		if first != "write" && in1 == "W" {
			// the flush of the first call: let it finish and wait for the same call to enter the sink's Sync
			gs.release <- struct{}{}
			select {
			case in1 = <-gs.arrived:
			case <-time.After(2 * time.Second):
				c.Note("bwsSinkExclusion: the sink's Sync was never called (%s)", first)
				go free()
				b.Stop()
				continue
			}
		}
		// a second caller whose call needs the sink
		go b.Write([]byte("another oversized record, straight to the sink"))
		select {
		case in2 := <-gs.arrived:
			c.Violation("C12/sink-overlap", fmt.Sprintf("the sink's %s (reached through %s) was still in progress when a Write from another goroutine entered the sink (%s): calls into the wrapped sink overlap", in1, first, in2), map[string]interface{}{"mode": "sink-exclusion", "first": first})
		case <-time.After(30 * time.Millisecond):
		}
		go free()
		done := make(chan struct{})
		go func() { defer close(done); defer func() { recover() }(); b.Stop() }()
		select {
		case <-done:
		case <-time.After(5 * time.Second):
			c.Inconclusive("bwsSinkExclusion: Stop did not return")
		}
		if atomic.LoadInt32(&gs.overlap) != 0 {
			c.Violation("C12/sink-overlap", "calls into the wrapped sink overlapped (first call: "+first+")", map[string]interface{}{"mode": "sink-exclusion", "first": first})
		}
		c.Add("traces_validated_against_impl", 1)
	}
}
