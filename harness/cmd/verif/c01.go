package main

import (
	"time"
	"encoding/json"
	"fmt"
	"strings"
	"sync"
)

// C01 / C02 / C10 (field part) — JsonEnc.tla behaviours replayed on the real JSON encoder.

func init() {
	register("C01", func(c *Ctx) { checkJSONEnc(c, "C01") })
	register("C02", func(c *Ctx) { checkJSONEnc(c, "C02") })
}

var jeMutants = []map[string]string{
	{"SepSet": `"nocolon"`}, {"ObjNS": `"noclose"`}, {"ObjNS": `"norestore"`}, {"ErrClose": `"skip"`},
	{"CtxSep": `"skip"`}, {"Fallback": `"skip"`}, {"ErrField": `"drop"`},
}

type jeGenCfg struct {
	name   string
	consts map[string]string
}

// jeGenerators: which slices of JsonEnc.tla are enumerated and replayed in each tier.
func jeGenerators(c *Ctx, faultsOnly bool) []jeGenCfg {
	full := `{"S", "V", "Z", "E", "G", "N", "O", "A", "I"}`
	small := `{"S", "E", "N", "O", "A", "I"}`
	g := []jeGenCfg{
		{"programs<=3,all calls,2 configs", map[string]string{"MaxCalls": "3", "CfgSet": `"two"`, "Alphabet": full}},
	}
	if c.Thorough() {
		g = append(g,
			jeGenCfg{"programs<=4,all calls,2 configs", map[string]string{"MaxCalls": "4", "CfgSet": `"two"`, "Alphabet": full}},
			jeGenCfg{"programs<=5,structural calls,depth 3", map[string]string{"MaxCalls": "5", "MaxDepth": "3", "MaxCuts": "1", "CfgSet": `"two"`, "Alphabet": `{"S", "E", "N", "O", "A"}`}},
		)
	} else {
		g = append(g, jeGenCfg{"programs<=4,structural calls", map[string]string{"MaxCalls": "4", "MaxCuts": "1", "CfgSet": `"two"`, "Alphabet": small}})
	}
	if !faultsOnly {
		g = append(g,
			jeGenCfg{"key/encoder matrix", map[string]string{"MaxCalls": "1", "MaxCuts": "0", "CfgSet": `"keys"`, "Alphabet": `{"N"}`}},
			jeGenCfg{"entry-part matrix", map[string]string{"MaxCalls": "1", "MaxCuts": "0", "CfgSet": `"parts"`, "Alphabet": `{"S"}`}},
		)
		if c.Thorough() {
			g = append(g, jeGenCfg{"full config matrix", map[string]string{"MaxCalls": "0", "MaxCuts": "0", "CfgSet": `"matrix"`, "Alphabet": `{"S"}`}})
		}
	}
	return g
}

func checkJSONEnc(c *Ctx, prop string) {
	c.Assume("encoder-call programs are exhaustive inside the stated bounds over the call classes of JsonEnc.tla; each class is concretised with seeded members (all field constructors, hostile keys/strings incl. invalid UTF-8, control bytes, U+2028, 10 kB strings; numeric extremes, NaN/Inf/-0; zero/extreme times, hostile zone names and layouts; every built-in level/time/duration/caller/name encoder plus nil and no-op)")
	c.Assume("the duration encoder and which concrete built-in encoder stands for 'str' are chosen by the harness (seeded), not by TLC: they do not change the token structure")
	if c.Replay != "" {
		var rp struct {
			Replay struct {
				Beh     jeBeh `json:"beh"`
				Seed    int64 `json:"seed"`
				Hostile bool  `json:"hostile"`
			} `json:"replay"`
		}
		if err := readJSON(c.Replay, &rp); err != nil {
			c.Fatalf("replay file: %v", err)
		}
		fs, _, err := replayJSON(rp.Replay.Beh, rp.Replay.Seed, rp.Replay.Hostile)
		if err != nil {
			c.Fatalf("replay: %v", err)
		}
		for _, f := range fs {
			if f.Prop == prop {
				c.Violation(f.Key, f.What, rp.Replay)
			}
		}
		return
	}
	// the specification itself: refinement + well-formedness, then the spec mutants
	c.MustTLC(TLCOpts{Module: "JsonEnc", Cfg: "JsonEnc.check", Consts: map[string]string{"MaxCalls": fmt.Sprint(c.Pick(4, 5)), "CfgSet": `"two"`}})
	c.MustTLC(TLCOpts{Module: "JsonEnc", Cfg: "JsonEnc.check", Consts: map[string]string{"MaxCalls": "1", "MaxCuts": "0", "CfgSet": c.pickS(`"keys"`, `"matrix"`), "Alphabet": `{"S", "N"}`}})
	for _, m := range jeMutants {
		mm := map[string]string{"MaxCalls": "3"}
		for k, v := range m {
			mm[k] = v
		}
		c.MustTLC(TLCOpts{Module: "JsonEnc", Cfg: "JsonEnc.check", Consts: mm, ExpectViolation: true})
	}
	runJSONGenerators(c, prop, jeGenerators(c, prop == "C10"), prop == "C10")
	jeScenarios(c, prop)
	if prop == "C02" {
		// context fields of a lazily evaluated With must be on every line, whichever goroutine used the logger first
		runLazyOnce(c, "C02/", func(k string) bool { return k == "lazy/context" })
	}
	c.Set("exhaustive", true)
	c.Set("rule", "every behaviour of JsonEnc.tla inside each listed generator bound, each replayed with 2 (quick) / 4 (thorough) seeded concretisations, one benign and the rest hostile")
}

func (c *Ctx) pickS(q, t string) string {
	if c.Thorough() {
		return t
	}
	return q
}

// runJSONGenerators streams behaviours to a worker pool that replays them on the real encoder.
func runJSONGenerators(c *Ctx, prop string, gens []jeGenCfg, faultsOnly bool) {
	type job struct {
		raw json.RawMessage
		n   int64
	}
	reps := c.Pick(2, 4)
	var total int64
	for _, g := range gens {
		jobs := make(chan job, 4096)
		var wg sync.WaitGroup
		for w := 0; w < 12; w++ {
			wg.Add(1)
			go func() {
				defer wg.Done()
				for j := range jobs {
					if c.Saturated() {
						continue
					}
					var b jeBeh
					if err := json.Unmarshal(j.raw, &b); err != nil {
						c.Inconclusive("bad JsonEnc behaviour: %v", err)
						continue
					}
					if faultsOnly && !progHasFault(b.Prog) {
						continue
					}
					for k := 0; k < reps; k++ {
						seed := c.Seed*1000003 + j.n*31 + int64(k)
						hostile := k > 0
						fs, descr, err := replayJSON(b, seed, hostile)
						if err != nil {
							c.Inconclusive("replay: %v", err)
							continue
						}
						for _, f := range fs {
							if f.Prop == prop {
								c.Violation(f.Key, f.What, map[string]interface{}{"beh": b, "seed": seed, "hostile": hostile})
							}
						}
						if j.n%20011 == 0 && k == 1 {
							c.Sample(map[string]interface{}{"prog": strings.Join(b.Prog, " "), "toks": b.Toks, "members": descr})
						}
						c.Add("traces_validated_against_impl", 1)
					}
				}
			}()
		}
		var n int64
		consts := map[string]string{"Emit": "TRUE"}
		for k, v := range g.consts {
			consts[k] = v
		}
		r := c.MustTLC(TLCOpts{Module: "JsonEnc", Cfg: "JsonEnc.check", Gen: true, Consts: consts, Timeout: c.pickD(), OnBeh: func(raw json.RawMessage) {
			n++
			jobs <- job{append(json.RawMessage(nil), raw...), n}
		}})
		close(jobs)
		wg.Wait()
		total += n
		c.Note("generator %q: %d behaviours (%d states)", g.name, n, r.Distinct)
	}
	c.Set("behaviours", total)
}

func progHasFault(p []string) bool {
	for _, op := range p {
		if op == "E" || op == "Xe" {
			return true
		}
	}
	return false
}

func (c *Ctx) pickD() time.Duration {
	if c.Thorough() {
		return 40 * time.Minute
	}
	return 10 * time.Minute
}

// simWorkers: simulation mode prints num behaviours per worker; checking mode uses all cores.
func (c *Ctx) simWorkers(sim string) int {
	if sim != "" {
		return 16
	}
	return 0
}

// jeScenarios: fixed multi-step scenarios on one encoder / logger that the single-entry programs cannot express:
// overlapping reflected fields, and logging on after a failed sink write. Filed under the calling property.
func jeScenarios(c *Ctx, prop string) {
	keep := map[string]map[string]bool{
		"C01": {"invalid-json": true, "panic": true, "entry-lost": true, "entry-duplicated": true, "sink:hang": true},
		"C02": {"value": true, "invalid-json": true, "entry-lost": true},
		"C08": {"value": true, "invalid-json": true, "panic": true},
		"C07": {"value": true, "invalid-json": true},
		"C10": {"invalid-json": true, "panic": true, "entry-lost": true, "value": true, "sink:not-reported": true, "sink:hang": true},
	}[prop]
	for rep := 0; rep < 3; rep++ {
		fs := replayReflectOverlap()
		if prop == "C01" || prop == "C10" || prop == "C07" {
			fs = append(fs, replayAfterSinkError()...)
		}
		if prop == "C01" && rep == 0 {
			for _, f := range append(sharedFileLines(), lockedBufferedSinkLines()...) {
				fs = append(fs, jeFinding{Key: f.Key, What: f.What})
			}
		}
		if prop != "C07" && rep == 0 {
			for _, f := range replayOddFaults() {
				fs = append(fs, jeFinding{Key: f.Key, What: f.What})
			}
		}
		for _, f := range fs {
			if f.Key == "harness" {
				c.Inconclusive("%s", f.What)
			} else if keep[f.Key] {
				k := prop + "/" + f.Key
				if prop == "C02" && f.Key == "invalid-json" {
					k = "C02/undecodable"
				}
				if prop == "C08" {
					k = "C08/pooled-object-observable"
				}
				if prop == "C07" {
					k = "C07/fields" // a derived logger emitted something other than its own path's fields
				}
				c.Violation(k, f.What, map[string]interface{}{"scenario": "reflect-overlap / after-sink-error"})
			}
		}
		c.Add("traces_validated_against_impl", 2)
	}
}
